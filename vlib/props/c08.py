"""C08 — the thread-safe API is free of data races; the loop-confined API fails fast off-thread.

Proof side (Props/C08.lean): lockset soundness for all traces + `decide` over the access table that
vlib/gen/race.py regenerates from /repo's clang AST on every run, against the hand-written policy of
Model/Race.lean.

This plug-in is the *validation* of table and policy against the real code (supporting, not proof):

  a. ThreadSanitizer scenarios (harness/race_scen.cc): every cross-thread operation of the property's
     list, performed by foreign threads as their last synchronising action while the owning side is
     active.  A report = property violation; its stacks are the replay.
  b. one child process per loop-confined operation called from a foreign thread (harness/race_abort.cc),
     expecting SIGABRT through EventLoop::abortNotInLoopThread; plus the same call on the owner thread
     as a control.  Exhaustive (finite list), both tiers.
  c. extractor self-check: an independent token scan of the sources must find a table row for every
     line of a method body that names a member, and the other way round.
  d. an independent Python re-evaluation of rowOk / fieldOk / confinedOk / the list checks on the JSON
     form of the table (policy read from the Lean driver, the single source): when `table_ok` no longer
     builds, the offending rows are named — a violating row together with a conflicting access of the
     same member is a concrete witness (two unsynchronised accesses) — and the matching TSan scenario
     is run to confirm it dynamically.  The Python verdicts are compared with the Lean definitions
     through `drv_race`, on the generated rows and on single-edit mutants of them.
"""
import glob
import json
import os
import re
import shutil
import signal
from concurrent.futures import ThreadPoolExecutor

from ..common import BUILD, CORPUS, REPO, sh
from ..runner import Case

ABORT_FLAGS = "-fno-access-control"

# class of the table -> scenarios that exercise its cross-thread operations (for dynamic confirmation)
SCENARIOS_OF = {
    "EventLoop": ["EventLoop::mix", "EventLoop::quit", "EventLoop::queueSize"],
    "TimerQueue": ["EventLoop::mix", "EventLoop::cancel"],
    "TcpConnection": ["TcpConnection::mix", "TcpConnection::send", "TcpConnection::shutdown"],
    "TcpServer": ["TcpServer::start"],
    "Acceptor": ["TcpServer::start"],
    "EventLoopThreadPool": ["TcpServer::start"],
    "EventLoopThread": ["EventLoop::mix"],
    "TcpClient": ["TcpClient::mix", "TcpClient::connection", "TcpClient::stop"],
    "Connector": ["TcpClient::mix", "TcpClient::stop"],
    "ThreadPool": ["ThreadPool::run+stop", "ThreadPool::run"],
    "BlockingQueue": ["BlockingQueue"],
    "BoundedBlockingQueue": ["BoundedBlockingQueue"],
    "CountDownLatch": ["CountDownLatch::shortlived", "CountDownLatch"],
    "AsyncLogging": ["AsyncLogging::append", "LOG+AsyncLogging"],
    "Logging": ["LOG", "LOG+AsyncLogging"],
}

TSAN_OPTIONS = "halt_on_error=0 exitcode=0 report_thread_leaks=0 second_deadlock_stack=1 history_size=4 atexit_sleep_ms=50"
ASAN_OPTIONS = "detect_leaks=0 abort_on_error=0 exitcode=77"


# ------------------------------------------------------------------------------------------ policy + python checks

class Policies:
    """the hand-written policy of Model/Race.lean, as dumped by `drv_race policies`"""

    def __init__(self, lines):
        self.classes = {}      # cls -> {"ownerChecks","setup","nts","fields": {name: (policy, mutex)}}
        self.order = []
        self.safe, self.req_confined, self.req_roots = [], [], []
        for l in lines:
            w = l.split("\t")
            if w[0] == "class":
                if w[1] not in self.classes:        # `find?`: the first entry wins
                    self.classes[w[1]] = {"ownerChecks": [x for x in w[2].split(";") if x], "setup": [x for x in w[3].split(";") if x],
                                          "nts": [x for x in w[4].split(";") if x], "fields": {}}
                    self.order.append(w[1])
                self._cur = w[1]
            elif w[0] == "field":
                pol = w[3].split(" ", 1)
                self.classes[w[1]]["fields"].setdefault(w[2], (pol[0], pol[1] if len(pol) > 1 else ""))
            elif w[0] == "safe":
                self.safe.append(w[1])
            elif w[0] == "reqConfined":
                self.req_confined.append((w[1], w[2]))
            elif w[0] == "reqRoot":
                self.req_roots.append(w[1])


def confined_op_asserts(P, T, cls, fn):
    cp = P.classes[cls]
    return any(o["cls"] == cls and o["fn"] == fn and o["check"] in cp["ownerChecks"] for o in T["confinedOps"])


def row_ok(P, T, r):
    """mirror of `rowOk` (Model/Race.lean); returns (ok, what is missing)"""
    cp = P.classes.get(r["cls"])
    if cp is None:
        return False, "class %s has no policy" % r["cls"]
    if r["rootKind"] == "other" and (r["fn"] in cp["setup"] or r["fn"] in cp["nts"]):
        return True, "exempt: documented set-up / not-thread-safe method"
    confined_ctx = any(x in cp["ownerChecks"] for x in r["inLoop"]) or r["rootKind"] == "handler"
    ctx = "locks in scope %s, owner-thread facts %s, root kind %s" % (r["locks"], r["inLoop"], r["rootKind"])
    if r["field"] == "(this)":
        ok = r["callee"] in P.safe or confined_ctx
        return ok, "" if ok else "calls %s, which is not declared callable from any thread, without a dominating owner-thread check (%s)" % (r["callee"], ctx)
    pol = cp["fields"].get(r["field"])
    if pol is None:
        return False, "member %s::%s has no policy" % (r["cls"], r["field"])
    p, m = pol
    assert_read = r["inAssert"] and r["kind"] == "rd" and r["rootKind"] == "confined" and confined_op_asserts(P, T, r["cls"], r["root"])
    callee_ok = (r["kind"] != "call" or r["callee"].startswith("(") or r["callee"] in P.safe or confined_ctx or
                 (p == "guarded" and m in r["locks"]) or (p == "owner" and r["rootKind"] == "owner"))
    if p == "immutable":
        self_ok, why = r["kind"] in ("rd", "call"), "policy immutable, but the access is a %s outside constructors and set-up methods" % r["kind"]
    elif p == "atomic":
        self_ok, why = r["kind"] in ("ard", "awr"), "policy atomic, but the access is a plain %s (the member is not used through atomic operations)" % r["kind"]
    elif p == "guarded":
        self_ok, why = m in r["locks"], "policy guarded by %s, but no MutexLockGuard on %s is in scope" % (m, m)
    elif p == "confined":
        self_ok, why = confined_ctx or assert_read, "policy loop-confined, but no owner-thread check dominates the access"
    elif p == "owner":
        self_ok, why = r["rootKind"] == "owner", "policy single-owner, but the access is reached from a root of kind %s" % r["rootKind"]
    elif p == "sync":
        self_ok, why = True, ""
    else:  # ctorOnly
        self_ok, why = False, "policy constructor-only, but an analysed function touches the member"
    if not self_ok:
        return False, "%s (%s)" % (why, ctx)
    if not callee_ok:
        return False, "calls %s through the member without confinement/lock and the callee is not declared callable from any thread (%s)" % (r["callee"], ctx)
    return True, ""


def field_ok(P, T, f):
    cp = P.classes.get(f["cls"])
    if cp is None:
        return False, "class %s has no policy" % f["cls"]
    pol = cp["fields"].get(f["name"])
    if pol is None:
        return False, "member %s::%s (%s) has no policy in Model/Race.lean" % (f["cls"], f["name"], f["ty"])
    p, m = pol
    annot = f["guardedBy"] == "" or (p == "guarded" and m == f["guardedBy"]) or (p == "sync" and f["tc"] == "cond")
    if p == "immutable":
        shape = all(w in cp["setup"] for w in f["writers"]) and f["tc"] != "atomic"
        why = "policy immutable, but written by %s (set-up methods: %s)" % ([w for w in f["writers"] if w not in cp["setup"]], cp["setup"])
    elif p == "atomic":
        shape, why = f["tc"] == "atomic", "policy atomic, but the declared type is `%s`" % f["ty"]
    elif p == "guarded":
        shape = any(g["cls"] == f["cls"] and g["name"] == m and g["tc"] == "mutex" for g in T["fields"])
        why = "policy guarded by %s, which is not a MutexLock member of the class" % m
    elif p == "sync":
        shape, why = f["tc"] in ("mutex", "cond", "latch"), "policy sync, but the declared type is `%s`" % f["ty"]
    elif p == "ctorOnly":
        shape, why = not f["writers"], "policy constructor-only, but written by %s" % f["writers"]
    elif p == "confined":
        shape, why = f["tc"] != "atomic", "policy confined, but the member is atomic"
    else:
        shape, why = True, ""
    if not annot:
        return False, "GUARDED_BY(%s) in the code disagrees with policy %s %s" % (f["guardedBy"], p, m)
    return shape, "" if shape else why


def confined_ok(P, o):
    cp = P.classes.get(o["cls"])
    if cp is None:
        return False, "class has no policy"
    ok = o["check"] != "" and o["check"] in cp["ownerChecks"]
    return ok, "" if ok else ("no unconditional top-level assertInLoopThread() of the class's own loop (found: `%s`; owner checks of the class: %s)"
                              % (o["check"], cp["ownerChecks"]))


def static_checks(P, T):
    """every check of Props/C08.lean that is a `decide` over the table, re-evaluated in Python.
    returns a dict of lists of (index, item, why)"""
    res = {"rows": [], "fields": [], "confinedOps": [], "unlisted": [], "reqConfined": [], "reqRoots": [], "callees": [], "tsAsserting": []}
    for i, o in enumerate(T.get("tsAsserting", [])):
        res["tsAsserting"].append((i, o, "documented as callable from any thread, but assertInLoopThread() of `%s` is reached unconditionally "
                                         "(line %d): the operation aborts when called from a foreign thread" % (o["check"], o["line"])))
    for i, r in enumerate(T["rows"]):
        ok, why = row_ok(P, T, r)
        if not ok:
            res["rows"].append((i, r, why))
    for i, f in enumerate(T["fields"]):
        ok, why = field_ok(P, T, f)
        if not ok:
            res["fields"].append((i, f, why))
    for i, o in enumerate(T["confinedOps"]):
        ok, why = confined_ok(P, o)
        if not ok:
            res["confinedOps"].append((i, o, why))
    for i, r in enumerate(T["roots"]):
        if r["kind"] == "confined" and not any(o["cls"] == r["cls"] and o["fn"] == r["fn"] for o in T["confinedOps"]):
            res["unlisted"].append((i, r, "confined root without an entry in confinedOps"))
    for c, f in P.req_confined:
        if not any(o["cls"] == c and o["fn"] == f for o in T["confinedOps"]):
            res["reqConfined"].append((0, {"cls": c, "fn": f}, "loop-confined operation named by the property is missing from the table"))
    for q in P.req_roots:
        if not any(r["qname"] == q and r["kind"] in ("ts", "owner") for r in T["roots"]):
            res["reqRoots"].append((0, {"qname": q}, "cross-thread operation named by the property is not a thread-safe root of the table"))
    for q in P.safe:
        if not any(r["qname"] == q and r["kind"] in ("ts", "confined") for r in T["roots"]):
            res["callees"].append((0, {"qname": q}, "declared callable from any thread but not analysed as a thread-safe or fail-fast root"))
    return res


def row_line(r):
    return "\t".join(["row", r["cls"], r["root"], r["rootKind"], r["fn"], r["file"], str(r["line"]), r["field"], r["kind"], r["callee"],
                      ";".join(r["locks"]), ";".join(r["inLoop"]), "true" if r["inAssert"] else "false"])


def row_text(r):
    return "%s::%s  %s:%d  %s of `%s`%s  [root %s (%s); locks %s; owner facts %s%s]" % (
        r["cls"], r["fn"], r["file"], r["line"], {"rd": "read", "wr": "write", "ard": "atomic read", "awr": "atomic write",
                                                  "call": "call through"}[r["kind"]],
        r["field"], (" -> " + r["callee"]) if r["callee"] else "", r["root"], r["rootKind"], r["locks"], r["inLoop"],
        "; inside assert()" if r["inAssert"] else "")


def mutants(r, P):
    """single-edit variants of a row: every one is a different claim about the code"""
    out = []
    for i in range(len(r["locks"])):
        out.append(dict(r, locks=r["locks"][:i] + r["locks"][i + 1:]))
    for i in range(len(r["inLoop"])):
        out.append(dict(r, inLoop=r["inLoop"][:i] + r["inLoop"][i + 1:]))
    for k in ("rd", "wr", "ard", "awr", "call"):
        if k != r["kind"]:
            out.append(dict(r, kind=k, callee=(r["callee"] or "X::y") if k == "call" else ""))
    for rk in ("ts", "confined", "handler", "owner", "other"):
        if rk != r["rootKind"]:
            out.append(dict(r, rootKind=rk))
    out.append(dict(r, inAssert=not r["inAssert"]))
    if not r["locks"]:
        out.append(dict(r, locks=["mutex_"]))
    if not r["inLoop"]:
        out.append(dict(r, inLoop=["loop_"]))
        out.append(dict(r, inLoop=["this"]))
    return out


# ------------------------------------------------------------------------------------------ TSan / ASan reports

FRAME = re.compile(r"^\s+#(\d+) (.*?) (/\S+?):(\d+)(?::\d+)? \(")


def parse_reports(err, repo):
    """sanitizer reports of one run: [{"type", "text", "stacks": [[(fn, file, line)]], "muduo": [(fn, basename, line)]}]"""
    reps = []
    blocks = re.split(r"^==================\s*$", err, flags=re.M)
    for b in blocks:
        m = re.search(r"WARNING: ThreadSanitizer: ([^(\n]+?)\s*(?:\(pid=\d+\))?\s*$", b, re.M)
        if not m:
            continue
        stacks, cur = [], None
        for line in b.split("\n"):
            if re.match(r"^  \S", line) and line.rstrip().endswith(":"):
                cur = []
                stacks.append((line.strip(), cur))
            else:
                fm = FRAME.match(line)
                if fm and cur is not None:
                    cur.append((fm.group(2), fm.group(3), int(fm.group(4))))
        rep = {"type": m.group(1).strip(), "text": b.strip(), "stacks": stacks, "muduo": [], "muduo_all": []}
        # the first frame inside muduo/ of each *access* stack (not of the "created by" / allocation stacks) names the
        # report; the next few (the member function that called an inline helper such as Buffer::readableBytes) are kept
        # for matching against the table
        for head, frames in stacks:
            if "created by" in head or head.startswith("Mutex") or head.startswith("Location") or "allocated by" in head:
                continue
            inner = [(re.sub(r"\(.*", "", fn), os.path.basename(path), ln) for fn, path, ln in frames
                     if "/muduo/" in path and not path.startswith("/verif/")]
            if inner:
                rep["muduo"].append(inner[0])
                rep["muduo_all"] += inner[:4]
        reps.append(rep)
    # AddressSanitizer (thorough tier)
    for m in re.finditer(r"==\d+==ERROR: AddressSanitizer: (\S+)", err):
        frames = []
        for line in err[m.start():].split("\n")[:80]:
            fm = FRAME.match(line)
            if fm:
                frames.append((fm.group(2), fm.group(3), int(fm.group(4))))
        mu = [(re.sub(r"\(.*", "", fn), os.path.basename(p), ln) for fn, p, ln in frames if "/muduo/" in p][:2]
        reps.append({"type": "asan " + m.group(1), "text": err[m.start():m.start() + 6000], "stacks": [], "muduo": mu, "muduo_all": mu})
    return reps


def report_signature(rep):
    fns = sorted(set(fn for fn, _, _ in rep["muduo"]))
    return "sanitizer:%s:%s" % (rep["type"], "|".join(fns) if fns else "no-muduo-frame")


def trim_report(text, limit=60):
    """keep the access stacks readable: drop the std::function / std::bind plumbing frames"""
    out = []
    for l in text.split("\n"):
        if re.match(r"^\s+#\d+ ", l) and ("/usr/include/c++" in l or "libtsan" in l or "<null>" in l):
            continue
        out.append(l)
    return out[:limit]


# ------------------------------------------------------------------------------------------ the plug-in

class Prop:
    id = "C08"
    lean_module = "MuduoVerif.Props.C08"
    gen_engines = ["Race", "OwnerSkel"]   # OwnerSkel: statement order of TcpServer::newConnection (set-up setters before the hand-over)
    drivers = ["race"]
    technique = ("Lean 4 lockset-soundness theorem over all traces + per-run `decide` of the member-access table generated "
                 "from the clang AST against a hand-written synchronisation policy; validation by ThreadSanitizer scenarios "
                 "and abort children")
    level_text = ("Kernel-checked: (1) for every trace with mutual exclusion, if every access is initialising or obeys its "
                  "location's discipline (immutable / atomic / guarded by m / confined to one thread) then conflicting accesses "
                  "of different threads are ordered by happens-before; (2) every member access of every cross-thread "
                  "operation of the property's list, of everything it calls on `this`, of every loop-confined operation and loop "
                  "callback of the same classes - as extracted from /repo's clang AST on this run - obeys the policy in its "
                  "syntactic context (MutexLockGuards in scope, dominating owner-thread checks, atomic operations), member "
                  "declarations and GUARDED_BY annotations agree with the policy, every loop-confined operation starts with "
                  "assertInLoopThread() of its own loop, the property's lists are all present; (3) an execution whose accesses are "
                  "instances of table rows with truthful contexts is race-free; (4) the owner assertion on a foreign thread aborts "
                  "before any write or body event")
    level_note = ("The policy (Model/Race.lean `policies`, `safeCallees`) is hand-written and is an input of the theorems. The "
                  "table sees accesses to members of `this` only: no aliasing, nothing inside the standard library, user callbacks "
                  "or bound functors (hand-offs are cut; their targets are checked as loop-confined roots), no memory ordering "
                  "below the lock/confinement discipline. Table and policy are validated against the running code by TSan "
                  "scenarios for every cross-thread operation and by one abort child per confined operation; this is testing. "
                  "Debug-only reads in assert() ahead of the owner assertion (loop(): looping_, EventLoopThreadPool::start: "
                  "started_) are covered only for calls on the owner thread; on a foreign thread they precede the abort.")
    rule = ("static: all rows/fields/confined operations of the generated table, re-evaluated in Python and compared with the Lean "
            "definitions, plus every single-edit mutant of every row (drop a lock, drop an owner fact, change access kind, root "
            "kind, assert flag) compared between Python and Lean; dynamic: TSan scenarios (all 31 in both tiers, incl. latches that live only as long as their waiter needs them; quick: 6 iterations, "
            "one seed; thorough: 40 iterations, three derived seeds, plus ASan), abort children for every confined operation "
            "in foreign and owner mode (thorough: asserts on and NDEBUG); a case is non-trivial when the owning side did work "
            "(functors ran / the child reached READY); distinct = distinct (scenario|child|check, outcome) pairs")
    trusted_base = [
        "Lean 4.33.0 kernel; axioms allowed: propext, Classical.choice, Quot.sound",
        "vlib/gen/race.py (clang-14 JSON AST -> Generated/Race.lean): member accesses of `this`, lock scopes, dominating owner checks, "
        "atomic classification; cross-checked on every run by an independent token scan of the sources",
        "the hand-written policy and the lists of Model/Race.lean (policies, safeCallees, requiredRoots, requiredConfined)",
        "vlib/gen/ownerskel.py (clang-14 JSON AST -> Generated/OwnerSkel.lean: statement skeleton of TcpServer::newConnection) for setup_before_handover: the "
        "exemption of TcpConnection's set-up setters ('called before the object is shared') is a theorem for the library's own cross-thread caller - all four "
        "setters precede the single hand-over of connectEstablished to the io loop and nothing touches the connection after it; a concrete schedule for a "
        "violation of that order is produced by C02's Owner engine (`holdHandover`), not by the TSan scenarios here (the window is a few instructions wide)",
        "contexts are truthful: a MutexLockGuard in scope means the mutex is held (Mutex.h); assertInLoopThread()/isInLoopThread() "
        "compare with the thread that constructed the loop; channel/timer/functor callbacks run on the loop thread (Channel, "
        "TimerQueue, doPendingFunctors)",
        "ThreadSanitizer / AddressSanitizer (gcc 12) for the validation runs; pthread mutexes give mutual exclusion",
    ]
    assumptions = [
        "configuration methods documented as not thread safe (set*Callback, setThreadNum, setContext, Logger::setLogLevel/setOutput/...) "
        "are called before the object is shared (by USER code: for TcpServer::newConnection, the library's own caller of TcpConnection's setters, this is "
        "the theorem setup_before_handover)",
        "single-owner API (EventLoopThread::startLoop, ThreadPool::start/stop, AsyncLogging::start/stop) is called by the owning thread",
        "objects outlive the calls made on them (destruction is C02/C05/C12); TcpServer::start's first call is made on the loop thread "
        "(it reaches the loop-confined EventLoopThreadPool::start and aborts elsewhere - observed by an abort child)",
        "the C++ memory model below the lock/confinement discipline and accesses the AST extractor cannot see (aliases, standard "
        "library internals, user callbacks) are outside the theorem; TSan watches them in the scenarios",
    ]
    partial_theorems = []
    _deferred = []

    def signature(self, case, kind, desc):
        return case.meta.get("sig", kind)

    # ------------------------------------------------------------------ helpers
    def run_dir(self):
        d = os.path.join(BUILD, "run", "c08-%d" % os.getpid())
        os.makedirs(d, exist_ok=True)
        return d

    def load_table(self, ctx):
        path = os.path.join(BUILD, "race_table.json")
        gen_failed = False
        try:
            from ..gen import race
            # the runner has just regenerated; if that failed the JSON is stale or missing
            t = race.tables()
            return t, None
        except Exception as ex:    # ExtractError and AST surprises alike
            gen_failed = str(ex)
        if os.path.exists(path):
            with open(path) as f:
                return json.load(f), "extractor failed (%s); using the table of the previous successful run" % gen_failed
        return None, "extractor failed (%s) and there is no earlier table" % gen_failed

    def load_policies(self, ctx):
        if not ctx.model_ok:
            return None
        from .. import leanside
        rc, out, err = leanside.run_driver("race", "policies\n", timeout=60)
        if rc != 0:
            return None
        return Policies([l for l in out.split("\n") if l and l != "--"])

    # ------------------------------------------------------------------ dynamic parts
    def run_scenario(self, ctx, name, iters, seed, flavour="tsan"):
        exe = ctx.exe("race_scen", flavour, cxxflags=ABORT_FLAGS)
        env = {"RACE_DIR": self.run_dir(), "TSAN_OPTIONS": TSAN_OPTIONS, "ASAN_OPTIONS": ASAN_OPTIONS}
        rc, out, err = sh([exe, name, str(iters), str(seed)], timeout=900, env=env)
        reps = parse_reports(err, REPO)
        last = (out.strip().split("\n") or [""])[-1]
        return {"name": name, "iters": iters, "seed": seed, "flavour": flavour, "rc": rc, "last": last, "reports": reps, "err": err}

    def judge_scenario(self, ctx, res, origin):
        """turn the outcome of one scenario run into evidence / failures"""
        line = "scenario %s iters=%d seed=%d flavour=%s" % (res["name"], res["iters"], res["seed"], res["flavour"])
        ctx.count("scenario:" + res["name"])
        ran = re.search(r"ran=(\d+)", res["last"])
        done = res["last"].startswith("DONE")
        outcome = "clean" if done and not res["reports"] else ("report" if res["reports"] else "rc=%s" % res["rc"])
        ctx.record(Case("race", [line], origin), [[line, outcome]], nontrivial=done,
                   sample={"scenario": line, "outcome": res["last"][:120]})
        for rep in res["reports"]:
            if rep["type"].startswith("lock-order-inversion"):
                ctx.notes.append("%s: TSan lock-order-inversion report (not a C08 matter): %s" % (res["name"], rep["muduo"]))
                continue
            where = self.locate_in_table(rep)
            lines = [line, "# sanitizer report (%s); first muduo frames of the two accesses: %s" % (rep["type"], rep["muduo"]),
                     "# table rows at those lines: %s" % (where or "none - the location is outside the generated table")]
            lines += ["# " + l for l in trim_report(rep["text"])]
            if not rep["muduo"]:
                ctx.mismatches.append((Case("race", lines, origin), "sanitizer report without a muduo frame in scenario %s "
                                       "(harness problem?)" % res["name"]))
                continue
            desc = "%s in scenario %s: %s%s" % (rep["type"], res["name"], " vs ".join("%s (%s:%d)" % m for m in rep["muduo"]),
                                                 ("; the table calls these accesses disciplined: " + "; ".join(where)) if where else "")
            ctx.oracle_failures.append((Case("race", lines, origin, meta={"sig": report_signature(rep)}), "sanitizer", desc))
            return
        dbl = re.search(r"doubleClose=(\d+) doubleDown=(\d+)", res["last"])
        if done and dbl and (int(dbl.group(1)) or int(dbl.group(2))):
            # not a data race (state_ is atomic) but the same family: a foreign operation and the loop thread interleave on
            # state_ so that a connection goes down twice (F26: test and store in two steps)
            lines = [line, "# %s" % res["last"],
                     "# a connection invoked its close callback / reported DOWN a second time: a foreign forceClose()/forceCloseWithDelay()/",
                     "# shutdown() tested state_, the loop thread ran handleClose() (state_ = kDisconnected), the foreign thread then stored",
                     "# kDisconnecting; the queued forceCloseInLoop()/connectDestroyed() found the connection `disconnecting` and took it down again"]
            ctx.oracle_failures.append((Case("race", lines, origin, meta={"sig": "double-close:TcpConnection:state_-test-and-set"}), "double-close",
                                        "scenario %s (seed %d, %d iterations): close callback twice for %s connection(s), DOWN twice for %s - the "
                                        "test-and-set of state_ in forceClose()/forceCloseWithDelay()/shutdown() is not one atomic step"
                                        % (res["name"], res["seed"], res["iters"], dbl.group(1), dbl.group(2))))
            ctx.count("double_close_observed")
            return
        if res["rc"] == 3 or res["rc"] == 124:
            ctx.notes.append("%s: inconclusive (%s)" % (line, res["last"][:100] or "timeout"))
            ctx.count("inconclusive")
        elif res["rc"] != 0 or not done:
            tail = [l for l in (res["err"].strip().split("\n")[-12:])]
            sig_name = signal.Signals(-res["rc"]).name if res["rc"] < 0 else "exit %d" % res["rc"]
            lines = [line, "# the scenario process ended with %s; last output: %s" % (sig_name, res["last"][:200])] + ["# " + l for l in tail]
            ctx.oracle_failures.append((Case("race", lines, origin, meta={"sig": "crash:%s:%s" % (res["name"], sig_name)}), "crash",
                                        "scenario %s: process ended with %s instead of completing (a cross-thread operation crashed or "
                                        "aborted)" % (res["name"], sig_name)))

    def locate_in_table(self, rep):
        T = getattr(self, "_table", None)
        if not T:
            return []
        hits = []
        for fn, base, ln in rep.get("muduo_all") or rep["muduo"]:
            for r in T["rows"]:
                if r["file"] == base and r["line"] == ln and r["field"] != "(this)":
                    h = "%s::%s at %s:%d (%s, root %s)" % (r["cls"], r["field"], base, ln, r["kind"], r["root"])
                    if h not in hits:
                        hits.append(h)
        return hits[:6]

    def run_scenarios(self, ctx, names, iters, seeds, flavour="tsan", origin="generated"):
        jobs = [(n, iters, s) for s in seeds for n in names]
        ctx.exe("race_scen", flavour, cxxflags=ABORT_FLAGS)      # build once, outside the pool
        with ThreadPoolExecutor(max_workers=4) as ex:
            futs = [ex.submit(self.run_scenario, ctx, n, i, s, flavour) for n, i, s in jobs]
            for f in futs:
                res = f.result()
                if not ctx.stop():
                    self.judge_scenario(ctx, res, origin)

    def run_child(self, ctx, op, mode, flavour):
        exe = ctx.exe("race_abort", flavour, cxxflags=ABORT_FLAGS)
        rc, out, err = sh([exe, op, mode], timeout=120)
        return {"op": op, "mode": mode, "flavour": flavour, "rc": rc, "out": out, "err": err,
                "ready": "READY " in out, "returned": "RETURNED " in out, "fatal": "abortNotInLoopThread" in out}

    def judge_child(self, ctx, c, origin="generated"):
        line = "child %s mode=%s flavour=%s" % (c["op"], c["mode"], c["flavour"])
        ctx.count("child:%s:%s" % (c["mode"], c["flavour"]))
        if c["mode"] == "foreign":
            ok = c["rc"] == -signal.SIGABRT and c["fatal"] and not c["returned"] and c["ready"]
            outcome = "SIGABRT via abortNotInLoopThread" if ok else "rc=%s returned=%s fatal-line=%s" % (c["rc"], c["returned"], c["fatal"])
        else:
            ok = c["rc"] == 0 and c["returned"]
            outcome = "returned" if ok else "rc=%s returned=%s" % (c["rc"], c["returned"])
        ctx.record(Case("race", [line], origin), [[line, outcome]], nontrivial=c["ready"],
                   sample={"child": line, "outcome": outcome})
        if ok:
            return
        tail = ["# stdout: " + l for l in c["out"].strip().split("\n")[-6:]] + ["# stderr: " + l for l in c["err"].strip().split("\n")[-6:]]
        if c["mode"] == "foreign":
            if c["returned"] or c["rc"] == 0:
                what = "the loop-confined operation %s called from a foreign thread RETURNED instead of aborting (%s build)" % (c["op"], c["flavour"])
                kind = "noabort"
            elif c["rc"] == -signal.SIGABRT:
                what = "%s called from a foreign thread aborted, but not through EventLoop::abortNotInLoopThread (%s build): %s" % (
                    c["op"], c["flavour"], outcome)
                kind = "otherabort"
            else:
                what = "%s called from a foreign thread ended with %s instead of SIGABRT (%s build)" % (c["op"], outcome, c["flavour"])
                kind = "noabort"
            ctx.oracle_failures.append((Case("race", [line] + tail, origin, meta={"sig": "%s:%s:%s" % (kind, c["op"], c["flavour"])}), kind, what))
        else:
            # the control failed: the fixture is not valid (any more) - the tie, not the property
            ctx.mismatches.append((Case("race", [line] + tail, origin),
                                   "control: %s on the owner thread does not return normally (%s) - the harness fixture no longer fits the code" % (c["op"], outcome)))

    def children(self, ctx, T):
        flavours = ["dbg"] if ctx.quick() else ["dbg", "ndebug"]
        exe = ctx.exe("race_abort", flavours[0], cxxflags=ABORT_FLAGS)
        rc, out, _ = sh([exe, "list"], timeout=30)
        ops = [o for o in out.split("\n") if o]
        ctx.extra["abort_children"] = {"operations": len(ops), "flavours": flavours, "modes": ["foreign", "owner"]}
        # coverage: every loop-confined operation of the generated table has a child
        if T:
            missing = ["%s::%s" % (o["cls"], o["fn"]) for o in T["confinedOps"] if "%s::%s" % (o["cls"], o["fn"]) not in ops]
            if missing:
                ctx.mismatches.append((Case("race", ["# confined operations of the table without a child in harness/race_abort.cc: %s" % missing]),
                                       "abort children do not cover the generated list of loop-confined operations: %s" % missing))
        for fl in flavours:
            ctx.exe("race_abort", fl, cxxflags=ABORT_FLAGS)
        jobs = [(op, mode, fl) for fl in flavours for op in ops for mode in ("foreign", "owner")]
        with ThreadPoolExecutor(max_workers=8) as ex:
            futs = [ex.submit(self.run_child, ctx, *j) for j in jobs]
            results = [f.result() for f in futs]
        for c in results:
            self.judge_child(ctx, c)

    # ------------------------------------------------------------------ static parts
    def conflicting(self, T, r):
        """accesses of the same member reached from another root that conflict with row r (one of them writes)"""
        out = []
        w = r["kind"] in ("wr", "awr")
        for o in T["rows"]:
            if o["cls"] == r["cls"] and o["field"] == r["field"] and o["root"] != r["root"] and o["kind"] != "call":
                if w or o["kind"] in ("wr", "awr"):
                    out.append(o)
        # prefer accesses that the owner side makes (confined / handler roots)
        out.sort(key=lambda o: (0 if o["rootKind"] in ("confined", "handler") else 1, o["root"], o["line"]))
        return out

    def static_part(self, ctx, T, P):
        res = static_checks(P, T)
        nbad = sum(len(v) for v in res.values())
        ctx.evaluations += len(T["rows"]) + len(T["fields"]) + len(T["confinedOps"]) + len(P.req_confined) + len(P.req_roots) + len(P.safe)
        ctx.count("rows_checked", len(T["rows"]))
        ctx.count("fields_checked", len(T["fields"]))
        ctx.count("confined_ops_checked", len(T["confinedOps"]))
        per_cls = {}
        for r in T["rows"]:
            per_cls[r["cls"]] = per_cls.get(r["cls"], 0) + 1
        ctx.extra["rows_per_class"] = per_cls
        ctx.extra["table"] = {k: len(v) for k, v in T.items()}
        # ---- agreement with the Lean definitions on the generated table
        from .. import leanside
        rc, out, err = leanside.run_driver("race", "table\n", timeout=120)
        lean = {}
        for l in out.split("\n"):
            m = re.match(r"^(rows|fields|confinedOps|roots) (\d+) (?:bad|unlisted)(.*)$", l)
            if m:
                lean[m.group(1)] = (int(m.group(2)), [int(x) for x in m.group(3).split()])
            m = re.match(r"^(tsAsserting) ?()(.*)$", l)
            if m:
                lean[m.group(1)] = (0, [x for x in m.group(3).split(";") if x])
            m = re.match(r"^(reqConfined|reqRoots|safeCallees) (?:missing|uncovered) ?(.*)$", l)
            if m:
                lean[m.group(1)] = (0, [x for x in m.group(2).split(";") if x])
        py = {"rows": [i for i, _, _ in res["rows"]], "fields": [i for i, _, _ in res["fields"]],
              "confinedOps": [i for i, _, _ in res["confinedOps"]], "roots": [i for i, _, _ in res["unlisted"]],
              "reqConfined": ["%s::%s" % (x["cls"], x["fn"]) for _, x, _ in res["reqConfined"]],
              "reqRoots": [x["qname"] for _, x, _ in res["reqRoots"]], "safeCallees": [x["qname"] for _, x, _ in res["callees"]],
              "tsAsserting": ["%s::%s" % (x["cls"], x["fn"]) for _, x, _ in res["tsAsserting"]]}
        sizes = {"rows": len(T["rows"]), "fields": len(T["fields"]), "confinedOps": len(T["confinedOps"]), "roots": len(T["roots"])}
        for k in py:
            if k not in lean:
                ctx.mismatches.append((Case("race", ["table"]), "drv_race gave no `%s` line (rc=%s %s)" % (k, rc, err[:200])))
                break
            if k in sizes and lean[k][0] != sizes[k]:
                ctx.mismatches.append((Case("race", ["table"]), "the table compiled into drv_race has %d %s, the extractor's JSON %d" % (lean[k][0], k, sizes[k])))
            elif lean[k][1] != py[k]:
                ctx.mismatches.append((Case("race", ["table"]), "Python and Lean disagree on the failing %s: python %s, lean %s" % (k, py[k], lean[k][1])))
        # ---- single-edit mutants of every row: Python verdict == Lean verdict
        muts = []
        for r in T["rows"]:
            muts += mutants(r, P)
        if ctx.quick() and not ctx.search_mode:
            muts = ctx.rng.sample(muts, min(len(muts), 4000))
        text = "\n".join(row_line(m) for m in muts) + "\n"
        rc, out, err = leanside.run_driver("race", text, timeout=600)
        verdicts = [l for l in out.split("\n") if l in ("ok", "bad", "bad-input")]
        rejected = 0
        if len(verdicts) != len(muts):
            ctx.mismatches.append((Case("race", ["# %d mutant rows sent, %d verdicts" % (len(muts), len(verdicts))]), "drv_race did not answer every row (rc=%s)" % rc))
        else:
            for m, v in zip(muts, verdicts):
                ok, _ = row_ok(P, T, m)
                if not ok:
                    rejected += 1
                if (v == "ok") != ok:
                    ctx.mismatches.append((Case("race", [row_line(m)]), "Python rowOk = %s, Lean rowOk = %s on an edited row" % (ok, v)))
                    break
            ctx.evaluations += len(muts)
            for m, v in zip(muts[:3000], verdicts):
                ctx.distinct.add("mut:" + row_line(m)[:160] + v)
        ctx.extra["row_mutants"] = {"checked": len(muts), "rejected_by_rowOk": rejected}
        if not nbad:
            return res
        # ---- the table breaks the policy: name the rows, give the conflicting access, try to confirm
        by_field = {}
        for i, r, why in res["rows"]:
            by_field.setdefault((r["cls"], r["field"]), []).append((r, why))
        order = {"ts": 0, "owner": 1, "other": 2, "handler": 3, "confined": 4}
        for (cls, field), items in sorted(by_field.items())[:8]:
            # the foreign side first; one line per source position
            items.sort(key=lambda it: (order.get(it[0]["rootKind"], 9), it[0]["file"], it[0]["line"], it[0]["root"]))
            seen_pos, uniq = set(), []
            for r, why in items:
                k = (r["fn"], r["file"], r["line"], r["kind"], r["callee"])
                if k not in seen_pos:
                    seen_pos.add(k)
                    uniq.append((r, why))
            nrows, items = len(items), uniq
            r0, why0 = items[0]
            lines = ["# table_ok fails: %d row(s) (%d source positions) on %s::%s break the policy `%s`" % (
                nrows, len(items), cls, field, " ".join(P.classes.get(cls, {"fields": {}})["fields"].get(field, ("?", ""))).strip())]
            for r, why in items[:12]:
                lines.append("# violating access: " + row_text(r))
                lines.append("#   what is missing: " + why)
                lines.append("row " + json.dumps(r, sort_keys=True))
            conf = self.conflicting(T, r0)
            for o in conf[:3]:
                lines.append("# conflicting access of the same member: " + row_text(o))
            f = next((f for f in T["fields"] if f["cls"] == cls and f["name"] == field), None)
            if f:
                lines.append("# declaration: %s %s::%s; written by %s" % (f["ty"], cls, field, f["writers"] or "constructors only"))
            desc = "%s::%s in %s (%s:%d): %s" % (cls, field, r0["fn"], r0["file"], r0["line"], why0)
            if conf:
                desc += "; conflicts with the %s in %s::%s (%s:%d, root %s)" % (
                    {"rd": "read", "wr": "write", "ard": "atomic read", "awr": "atomic write"}.get(conf[0]["kind"], conf[0]["kind"]),
                    cls, conf[0]["fn"], conf[0]["file"], conf[0]["line"], conf[0]["root"])
            # dynamic confirmation
            confirmed = None
            wanted = set((r["file"], r["line"]) for r, _ in items) | set((o["file"], o["line"]) for o in conf)
            for name in SCENARIOS_OF.get(cls, []):
                sres = self.run_scenario(ctx, name, 20, ctx.seed)
                ctx.count("confirmation_runs")
                for rep in sres["reports"]:
                    if any((b, ln) in wanted for _, b, ln in rep["muduo_all"]):
                        confirmed = (sres, rep)
                        break
                if confirmed:
                    break
            if confirmed:
                sres, rep = confirmed
                lines.append("scenario %s iters=%d seed=%d flavour=tsan" % (sres["name"], sres["iters"], sres["seed"]))
                lines.append("# confirmed dynamically: ThreadSanitizer %s, %s" % (rep["type"], rep["muduo"]))
                lines += ["# " + l for l in trim_report(rep["text"])]
                desc += "; confirmed by ThreadSanitizer in scenario %s" % sres["name"]
            else:
                lines.append("# not confirmed dynamically by the scenarios %s (the static witness stands on its own)" % SCENARIOS_OF.get(cls, []))
            ctx.oracle_failures.append((Case("race", lines, "table", meta={"sig": "row:%s::%s:%s" % (cls, field, r0["fn"])}), "row", desc))
        for key, label in (("fields", "field"), ("confinedOps", "confined"), ("unlisted", "unlisted"), ("reqConfined", "missing-confined"),
                           ("reqRoots", "missing-root"), ("callees", "callee"), ("tsAsserting", "ts-asserts")):
            for i, item, why in res[key][:6]:
                name = item.get("qname") or "%s::%s" % (item.get("cls"), item.get("name") or item.get("fn"))
                if key == "fields" and any(c == item["cls"] and f == item["name"] for (c, f) in by_field):
                    continue        # already reported through its rows
                lines = ["# %s: %s" % (name, why), "%s %s" % (label, json.dumps(item, sort_keys=True))]
                desc = "%s: %s" % (name, why)
                if key == "confinedOps":
                    # dynamic confirmation: the child that calls it from a foreign thread
                    lines.append("child %s::%s mode=foreign flavour=dbg" % (item["cls"], item["fn"]))
                    try:
                        c = self.run_child(ctx, "%s::%s" % (item["cls"], item["fn"]), "foreign", "dbg")
                        if c["returned"]:
                            lines.append("# confirmed dynamically: called from a foreign thread the operation RETURNED (no abort)")
                            desc += "; confirmed: the child that calls it from a foreign thread returned instead of aborting"
                        else:
                            lines.append("# the child ended with rc=%s (abortNotInLoopThread line: %s) - an assertion deeper in the operation may still fire" % (c["rc"], c["fatal"]))
                    except Exception as ex:      # the confirmation is a bonus
                        lines.append("# child could not be run: %s" % ex)
                if key == "tsAsserting":
                    for sc in SCENARIOS_OF.get(item["cls"], []):
                        sres = self.run_scenario(ctx, sc, 3, ctx.seed)
                        if sres["rc"] == -signal.SIGABRT:
                            lines.append("scenario %s iters=3 seed=%d flavour=tsan" % (sc, ctx.seed))
                            lines.append("# confirmed dynamically: the scenario process aborted: " + (sres["last"][:200] or "(FATAL line on stdout)"))
                            desc += "; confirmed: scenario %s aborts" % sc
                            break
                ctx.oracle_failures.append((Case("race", lines, "table", meta={"sig": "%s:%s" % (label, name)}), label, desc))
        return res

    # ------------------------------------------------------------------ extractor self-check
    SRC_OF = {
        "EventLoop": ["muduo/net/EventLoop.cc"], "TcpConnection": ["muduo/net/TcpConnection.cc"], "TcpServer": ["muduo/net/TcpServer.cc"],
        "TcpClient": ["muduo/net/TcpClient.cc"], "Connector": ["muduo/net/Connector.cc"], "TimerQueue": ["muduo/net/TimerQueue.cc"],
        "EventLoopThread": ["muduo/net/EventLoopThread.cc"], "EventLoopThreadPool": ["muduo/net/EventLoopThreadPool.cc"],
        "Acceptor": ["muduo/net/Acceptor.cc"], "ThreadPool": ["muduo/base/ThreadPool.cc"], "CountDownLatch": ["muduo/base/CountDownLatch.cc"],
        "AsyncLogging": ["muduo/base/AsyncLogging.cc"],
    }

    def self_check(self, ctx, T):
        """independent of the AST: scan the .cc file of each class for member names inside out-of-line method bodies
        (muduo's layout: `Ret Class::fn(` at column 0 ... `}` at column 0) and compare with the rows of the table"""
        problems, scanned, matched = [], 0, 0
        rows_at = {}
        for r in T["rows"]:
            rows_at.setdefault((r["cls"], r["file"], r["line"]), set()).add(r["field"])
        for cls, files in self.SRC_OF.items():
            names = [f["name"] for f in T["fields"] if f["cls"] == cls]
            if not names:
                problems.append("class %s has no members in the table" % cls)
                continue
            tok = re.compile(r"(?<![\w.>])(%s)\b" % "|".join(re.escape(n) for n in sorted(names, key=len, reverse=True)))
            for rel in files:
                path = os.path.join(REPO, rel)
                try:
                    with open(path) as f:
                        src = f.read().split("\n")
                except OSError as ex:
                    problems.append("cannot read %s: %s" % (rel, ex))
                    continue
                fn, in_body, in_init, block_comment = None, False, False, False
                for ln, line in enumerate(src, 1):
                    code = line
                    if block_comment:
                        if "*/" in code:
                            block_comment = False
                            code = code.split("*/", 1)[1]
                        else:
                            continue
                    code = re.sub(r"/\*.*?\*/", "", code)
                    if "/*" in code:
                        block_comment = True
                        code = code.split("/*", 1)[0]
                    code = re.sub(r"//.*", "", code)
                    code = re.sub(r'"(?:\\.|[^"\\])*"', '""', code)
                    m = re.match(r"^[\w:<>*&~, ]*?\b%s::(~?\w+)\s*\(" % cls, code)
                    if m and not in_body:
                        fn = m.group(1)
                        in_init = False
                    if fn and not in_body:
                        # muduo puts the opening brace at column 0 of its own line; accept `) {` as well
                        if code.startswith("{") or code.rstrip().endswith("{"):
                            in_body = True
                        continue
                    if in_body and code.startswith("}"):
                        in_body, fn = False, None
                        continue
                    if not in_body or fn is None or fn == cls or fn.startswith("~"):
                        continue        # constructors / destructors are not in the table
                    for mm in tok.finditer(code):
                        scanned += 1
                        got = rows_at.get((cls, os.path.basename(rel), ln), set())
                        if mm.group(1) in got:
                            matched += 1
                        else:
                            problems.append("%s:%d `%s` in %s::%s has no row in the generated table" % (rel, ln, mm.group(1), cls, fn))
        # the other direction: every row's line shows the member (the extractor checks this too)
        missing = 0
        cache = {}
        for r in T["rows"]:
            if r["field"].startswith("("):
                continue
            cands = cache.get(r["file"])
            if cands is None:
                cands = cache[r["file"]] = [open(p).read().split("\n") for p in glob.glob(os.path.join(REPO, "muduo", "**", r["file"]), recursive=True)]
            if not any(0 < r["line"] <= len(ls) and r["field"] in ls[r["line"] - 1] for ls in cands):
                missing += 1
                problems.append("row %s::%s %s:%d: the source line does not mention `%s`" % (r["cls"], r["fn"], r["file"], r["line"], r["field"]))
        ctx.extra["extractor_self_check"] = {"member_tokens_in_method_bodies": scanned, "with_a_row": matched,
                                             "rows_whose_line_lacks_the_member": missing, "problems": problems[:10]}
        ctx.evaluations += scanned
        if problems:
            ctx.mismatches.append((Case("race", ["# " + p for p in problems[:20]]),
                                   "extractor self-check: the access table and an independent scan of the sources disagree (%d problems), first: %s"
                                   % (len(problems), problems[0])))

    # ------------------------------------------------------------------ corpus / replay files
    def run_file(self, ctx, path, T, P, origin, verbose=False):
        with open(path) as f:
            lines = [l.rstrip("\n") for l in f]
        for l in lines:
            w = l.split()
            if not w or l.startswith("#") or l.startswith("engine="):
                continue
            if ctx.stop() and not verbose:
                break
            kv = dict(x.split("=", 1) for x in w[2:] if "=" in x) if len(w) > 2 else {}
            if w[0] == "scenario":
                res = self.run_scenario(ctx, w[1], int(kv.get("iters", 10)), int(kv.get("seed", ctx.seed)), kv.get("flavour", "tsan"))
                if verbose:
                    print("%s -> %s, %d sanitizer report(s)" % (l, res["last"], len(res["reports"])))
                    for rep in res["reports"][:2]:
                        print("\n".join(trim_report(rep["text"])))
                self.judge_scenario(ctx, res, origin)
            elif w[0] == "child":
                op = l[len("child "):].split(" mode=")[0].split(" flavour=")[0].strip()
                mode = re.search(r"mode=(\w+)", l)
                fl = re.search(r"flavour=([\w-]+)", l)
                c = self.run_child(ctx, op, mode.group(1) if mode else "foreign", fl.group(1) if fl else "dbg")
                if verbose:
                    print("%s -> rc=%s returned=%s fatal-line=%s" % (l, c["rc"], c["returned"], c["fatal"]))
                self.judge_child(ctx, c, origin)
            elif w[0] == "row" and T and P:
                r = json.loads(l[4:])
                ok, why = row_ok(P, T, r)
                still = r in T["rows"]
                if verbose:
                    print("row %s\n  rowOk = %s%s\n  still in the table generated from the current sources: %s" % (row_text(r), ok, (" (" + why + ")") if why else "", still))
                ctx.evaluations += 1
                if still and not ok:
                    ctx.oracle_failures.append((Case("race", [l, "# " + why], origin, meta={"sig": "row:%s::%s:%s" % (r["cls"], r["field"], r["fn"])}),
                                                "row", "%s::%s in %s (%s:%d): %s" % (r["cls"], r["field"], r["fn"], r["file"], r["line"], why)))
            elif w[0] == "expect-rows" and T and P:
                # expect-rows cls=C field=f [fn=prefix]: such rows exist and every one obeys the policy
                sel = [r for r in T["rows"] if r["cls"] == kv_of(l).get("cls") and r["field"] == kv_of(l).get("field") and
                       r["fn"].startswith(kv_of(l).get("fn", ""))]
                ctx.evaluations += len(sel)
                bad = [(r, row_ok(P, T, r)[1]) for r in sel if not row_ok(P, T, r)[0]]
                if verbose:
                    print("%s -> %d rows, %d violate the policy" % (l, len(sel), len(bad)))
                if not sel:
                    ctx.mismatches.append((Case("race", [l], origin), "corpus expectation `%s`: the table has no such row any more" % l))
                for r, why in bad[:1]:
                    ctx.oracle_failures.append((Case("race", [l, "row " + json.dumps(r, sort_keys=True), "# " + why], origin,
                                                     meta={"sig": "row:%s::%s:%s" % (r["cls"], r["field"], r["fn"])}), "row",
                                                "%s::%s in %s (%s:%d): %s" % (r["cls"], r["field"], r["fn"], r["file"], r["line"], why)))
            elif w[0] == "expect-field" and T and P:
                k = kv_of(l)
                f = next((f for f in T["fields"] if f["cls"] == k.get("cls") and f["name"] == k.get("name")), None)
                ctx.evaluations += 1
                if f is None:
                    ctx.mismatches.append((Case("race", [l], origin), "corpus expectation `%s`: no such member" % l))
                    continue
                ok, why = field_ok(P, T, f)
                if "tc" in k and f["tc"] != k["tc"]:
                    ok, why = False, "declared type `%s` is of class %s, expected %s" % (f["ty"], f["tc"], k["tc"])
                if verbose:
                    print("%s -> %s %s" % (l, "ok" if ok else "VIOLATED", why))
                if not ok:
                    ctx.oracle_failures.append((Case("race", [l, "field " + json.dumps(f, sort_keys=True), "# " + why], origin,
                                                     meta={"sig": "field:%s::%s" % (f["cls"], f["name"])}), "field",
                                                "%s::%s: %s" % (f["cls"], f["name"], why)))
            elif verbose:
                print("(not a replayable line) " + l)

    # ------------------------------------------------------------------ entry point
    def _owner_schedules(self, ctx, replay):
        """oracle-only run (no model: drv_owner is not one of this property's drivers) of the deterministic hand-over
        schedules of the Owner engine (vlib/owner_common.py, harness/owner_drv.cc: the acceptor thread parked right after
        TcpServer::newConnection handed the connection to its io loop, the io loop running meanwhile).  Only in search
        mode, i.e. when an obligation of this property broke (setup_before_handover is the one these schedules make
        concrete: a setter called after the hand-over is a write the io thread can overtake), or to re-run such a replay."""
        from .. import owner_common
        saved, ctx.model_ok = ctx.model_ok, False
        try:
            if replay:
                owner_common.replay(ctx, self.id, replay)
            else:
                owner_common.explore_corpus(ctx, self.id)
        finally:
            ctx.model_ok = saved

    def correspondence(self, ctx, replay=None):
        from .. import owner_common
        if replay and owner_common.is_owner_replay(replay):
            return self._owner_schedules(ctx, replay)
        if not replay and ctx.search_mode:
            self._owner_schedules(ctx, None)
            if ctx.stop():
                return
        # observations that match a known finding must not end the exploration (ctx.stop()): they are handed to the
        # runner at the end, which prints KNOWN-FINDING for a matching signature and VIOLATION otherwise
        self._deferred = []
        try:
            self._correspondence(ctx, replay)
        finally:
            seen = set()
            for f in self._deferred:
                if f[0].meta["sig"] not in seen:
                    seen.add(f[0].meta["sig"])
                    ctx.oracle_failures.append(f)
            shutil.rmtree(self.run_dir(), ignore_errors=True)

    def _correspondence(self, ctx, replay):
        T, note = self.load_table(ctx)
        self._table = T
        if note:
            ctx.notes.append(note)
        P = self.load_policies(ctx)
        if P is None:
            ctx.notes.append("drv_race unavailable: the Python re-evaluation of the table checks has no policy to work with")
        if replay:
            self.run_file(ctx, replay, T, P, "replay", verbose=True)
            return
        # 1. corpus (witnesses of repaired defects) first
        from ..build import BuildError
        build_error = None
        for p in sorted(glob.glob(os.path.join(CORPUS, "C08", "*.case"))):
            try:
                self.run_file(ctx, p, T, P, "corpus:" + os.path.basename(p))
            except BuildError as ex:      # the sources do not compile: the static witnesses can still be named
                build_error = ex
            ctx.count("corpus_cases")
        # 2. the table against the policy (names the rows when `table_ok` no longer builds), extractor self-check
        if T and P:
            try:
                self.static_part(ctx, T, P)
            except BuildError as ex:
                build_error = ex
            self.self_check(ctx, T)
        if ctx.stop():
            return
        if build_error is not None:
            raise build_error
        # 3. loop-confined operations from a foreign thread: exhaustive in both tiers
        self.children(ctx, T)
        if ctx.stop():
            return
        # 4. ThreadSanitizer scenarios
        exe = ctx.exe("race_scen", "tsan", cxxflags=ABORT_FLAGS)
        rc, out, _ = sh([exe, "list"], timeout=30)
        all_scen = [s for s in out.split("\n") if s]
        thorough = not ctx.quick() or ctx.search_mode
        # the scenarios are short (tens of milliseconds each under TSan): both tiers run every one of them
        names = all_scen
        iters = 40 if thorough else 6
        seeds = [ctx.seed] if ctx.quick() and not ctx.search_mode else [ctx.seed, ctx.seed * 7919 + 1, ctx.seed * 104729 + 2]
        ctx.extra["scenarios"] = {"available": len(all_scen), "run": names, "iterations": iters, "seeds": seeds,
                                  "flavours": ["tsan"] + ([] if ctx.quick() else ["asan"])}
        self.run_scenarios(ctx, names, iters, seeds, "tsan")
        if ctx.stop() or ctx.quick():
            return
        # the F26 regression detector needs many connection lifetimes (about 0.5 % of them hit the window; the corpus
        # case runs 1500 at the run's seed in both tiers, here the derived seeds follow)
        self.run_scenarios(ctx, ["TcpConnection::mix"], 1500, seeds[1:], "tsan")
        if ctx.stop():
            return
        self.run_scenarios(ctx, names, 8, [ctx.seed], "asan")


def kv_of(line):
    return dict(x.split("=", 1) for x in line.split()[1:] if "=" in x)


PROP = Prop()
