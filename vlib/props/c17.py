"""C17 — log text equals printf output, stays in bounds and carries true metadata.

Theorems: Props/C17.lean over Model/LogStream.lean + Generated/LogStream.lean (T1: tables, guards, formats,
line pieces, macro gates, formatSI/formatIEC branch tables).  Correspondence: harness/logstream_drv.cc (the real
LogStream / FixedBuffer / Logger / formatSI / formatIEC; clock interposed) against the native Lean driver.
Oracle: an independent Python evaluation of the property on the implementation's own output (Python's integer /
float formatting, its own 4000-byte "whole items only" buffer, its own calendar, the property's gate rule and the
"at most 5 / 6 characters, within rounding error" rule).  The oracle never consults the Lean model.
"""
import datetime
import glob
import os
import re
import struct

from ..common import CORPUS, HARNESS, load_known
from ..runner import Case, ddmin

MASK = (1 << 64) - 1
KSMALL, KLARGE, KNUM = 4000, 4000000, 48     # the property's numbers (LogStream.h); the oracle does not read Generated/
LEVELS = [b"TRACE ", b"DEBUG ", b"INFO  ", b"WARN  ", b"ERROR ", b"FATAL "]
MAXUS = 253402300799999999

LITS = ["a.cc", "dir/b.cc", "/abs/path/to/file.cpp", "trailing/", "", "/", "a//b", "./x.h", "../up/one.cc",
        "no_slash_but_a_long_name_with_many_characters_0123456789_0123456789.cc", "dir.with.dots/f",
        "/verif/harness/logstream_drv.cc", "muduo/net/TcpConnection.cc", "x/y/z/", "//", "a b/c d.cc"]

WHERE = {"main": "the main thread", "thread": "a muduo::Thread", "fork": "the child of a fork()",
         "raw0": "a pthread_create'd thread whose first muduo call is this log statement",
         "raw1": "a pthread_create'd thread that has called CurrentThread::tid() before",
         "worker": "one muduo::Thread that lives for the whole run (what it cached at its previous log statement is still there, "
                   "while the main thread may have changed the zone or the level in between)"}
WHERES = list(WHERE)

INT_TYPES = {
    "i16": (-(1 << 15), (1 << 15) - 1), "u16": (0, (1 << 16) - 1),
    "i32": (-(1 << 31), (1 << 31) - 1), "u32": (0, (1 << 32) - 1),
    "l64": (-(1 << 63), (1 << 63) - 1), "ul64": (0, (1 << 64) - 1),
    "i64": (-(1 << 63), (1 << 63) - 1), "u64": (0, (1 << 64) - 1),
}

SI_THRESHOLDS = [1000] + [9995 * 10 ** k for k in range(0, 15)]
IEC_UNITS = [10, 20, 30, 40, 50, 60]


def gen_bytes(seed, n):
    x = seed & MASK
    out = bytearray()
    for _ in range(n):
        x = (x * 6364136223846793005 + 1442695040888963407) & MASK
        out.append(x >> 56)
    return bytes(out)


def parse_bytes(tok):
    if tok.startswith("h:"):
        return bytes.fromhex(tok[2:])
    _, seed, n = tok.split(":")
    return gen_bytes(int(seed), int(n))


def fnv64(b):
    h = 14695981039346656037
    for c in b:
        h = ((h ^ c) * 1099511628211) & MASK
    return h


def cstr(b):
    i = b.find(b"\0")
    return b if i < 0 else b[:i]


def macro_sites():
    """file / line of the LOG_* statements of the harness, read from its source (`#line` + `// @MACRO k`)"""
    path = os.path.join(HARNESS, "logstream_drv.cc")
    sites, base, fname = {}, None, None
    with open(path) as f:
        for i, line in enumerate(f):
            m = re.match(r'^#line (\d+) "([^"]*)"', line)
            if m:
                base, fname = (int(m.group(1)), i + 1), m.group(2)
                continue
            m = re.search(r"// @MACRO (\d+)", line)
            if m and base is not None:
                sites[int(m.group(1))] = (fname, base[0] + (i - base[1]))
    return sites


class PyBuf:
    """the property's reading of FixedBuffer: whole items only, numbers need kMaxNumericSize bytes of headroom,
    everything else needs more room than its length"""

    def __init__(self, cap):
        self.cap, self.data = cap, bytearray()

    def avail(self):
        return self.cap - len(self.data)

    def put(self, text, numeric=False):
        if (self.avail() >= KNUM) if numeric else (self.avail() > len(text)):
            self.data += text
            return True
        return False


def civil(sec):
    d = datetime.datetime(1970, 1, 1) + datetime.timedelta(seconds=sec)
    return ("%4d%02d%02d %02d:%02d:%02d" % (d.year, d.month, d.day, d.hour, d.minute, d.second)).encode()


class Prop:
    id = "C17"
    lean_module = "MuduoVerif.Props.C17"
    gen_engines = ["LogStream", "LogStreamSkel", "ThreadSkel"]
    drivers = ["logstream"]
    technique = ("Lean 4 proofs about an executable model of LogStream/FixedBuffer/Logger/formatSI/formatIEC (exact "
                 "rational model of the double arithmetic) + T1 extraction of tables, guards, formats, line pieces, the "
                 "statement order of Logger::Impl::Impl, the tid-cache code of CurrentThread/Thread.cc, "
                 "macro gates and branch tables + differential run vs. the real classes + independent Python oracle")
    level_text = ("Kernel-checked theorems for all inputs: the digit loops print the canonical decimal / upper-case hex "
                  "text of every integer (incl. type minima) within the tested headroom; every insertion sequence stays "
                  "inside the fixed buffer and loses only whole items and only for lack of space; the base name and the "
                  "level gate of the LOG_* macros; the thread-id field: for every state of the calling thread's tid cache "
                  "(nothing cached - a thread that reaches the logger as its first muduo call - or its own id cached) and "
                  "for every kind of thread (main, muduo::Thread, pthread_create'd, child of a fork() that inherited the "
                  "parent's cached id) the emitted line has, right after the 17+8/9-character time stamp, exactly the "
                  "'%5d ' rendering of that thread's gettid(), and the assert of helper class T holds (tid_field_true, "
                  "proved from the extracted fact that Impl::Impl calls CurrentThread::tid() before it reads tidString(); "
                  "the excluded branch - six NUL bytes and a failing assert - is proved as tid_field_without_call). "
                  "After any history of log statements and Logger::setTimeZone calls the time field of a line is the first 17 "
                  "characters of the '%4d%02d%02d %02d:%02d:%02d' text of the logged second in the zone configured at that "
                  "moment - also when the zone was changed inside the second the thread has cached (line_time, by an "
                  "invariant over the per-thread cache keyed by second and zone generation; F18 repaired); formatSI / formatIEC stay within 5 / 6 "
                  "characters for every n in [0, 2^63) on an exact model of int64->double rounding, the correctly rounded "
                  "division and %.Nf (formatSI_width, formatIEC_width). NOT proved in Lean (tested by the differential run "
                  "and the oracle only): the calendar arithmetic behind the time text (C20) and the 'within rounding "
                  "error' clause of formatSI / formatIEC. "
                  "Tables, guards, formats, statement order, gates and branch tables are re-extracted from "
                  "/repo's AST on every run; the rest of the model is tied to the real classes by a differential run "
                  "on boundary-dense inputs in a build with asserts and an NDEBUG build, and an independent oracle is "
                  "evaluated on the implementation's output (thread id against gettid() read by the harness on the "
                  "emitting thread; an abort of a non-FATAL statement is a violation)")
    level_note = ("Trusted: Lean kernel (axioms propext, Classical.choice, Quot.sound only), vlib/gen/logstream.py, the "
                  "hand-written parts of Model/LogStream.lean as far as the differential run exercises them, glibc "
                  "snprintf/strerror_r, the kernel's gettid/fork/pthread_atfork semantics (a new thread starts with the "
                  "initialisers of its __thread variables; the child of fork() runs the registered child handler on a copy "
                  "of the forking thread's variables). %.12g of doubles is snprintf by construction (its text is an input "
                  "of the model; only the length bound is tested). Implementation-vs-snprintf sweeps over 16/32-bit "
                  "integers are a test, labelled as such in the evidence.")
    rule = ("LogStream: insertion sequences over all operator<< overloads with boundary-dense values (type limits, every "
            "power of ten and two +-2, random) incl. sequences that run past the 4000-byte buffer and the 4000000-byte "
            "FixedBuffer; Logger: every constructor and LOG_* macro x level x configured level x source path x zone x "
            "zone changes inside and outside the second the thread has cached x thread kind (main / a fresh muduo::Thread / one muduo::Thread that lives for the whole run and keeps what it cached while the main thread changes zone and level / forked child / pthread_create'd thread whose first muduo call is the log "
            "statement / pthread_create'd thread after CurrentThread::tid()) under a scripted and the real clock; a "
            "dedicated thread-kind section (every kind, constructors and macros) runs in a build with asserts AND an "
            "NDEBUG build in both tiers; formatSI/formatIEC: "
            "every power of ten and two and every branch threshold +-N (N=3000 thorough, 64 quick; +-3000 around the F8 "
            "boundary in both tiers), type limits, random; a case is non-trivial when it produced output; distinct = "
            "distinct observation traces")
    trusted_base = [
        "Lean 4.33.0 kernel; axioms allowed: propext, Classical.choice, Quot.sound",
        "vlib/gen/logstream.py (clang-14 JSON AST / g++ -E -dM -> Generated/LogStream.lean)",
        "vlib/gen/logstreamskel.py + vlib/logskel_common.py (same AST -> Generated/LogStreamSkel.lean: statement skeletons of 36 "
        "functions of LogStream.h / LogStream.cc / Logging.cc) and the hand-written reading Model/LogStreamSkelDecl.lean of "
        "Model/LogStream.lean (which model term stands for which statement)",
        "vlib/gen/threadskel.py + vlib/logskel_common.py (same AST -> Generated/ThreadSkel.lean: statement skeletons of CurrentThread::tid / cacheTid / isMainThread, detail::gettid / afterFork / ThreadNameInitializer, ThreadData::runInThread (CurrentThread.h, Thread.cc)) and the hand-written reading Model/ThreadSkelDecl.lean (which atomic step of the model stands for which statements): that the code calls pthread in the modelled order is tied by decide; what the pthread / libc functions do stays trusted (POSIX)",
        "hand-written Model/LogStream.lean for everything else (digit loops, buffer, %d interpreter, time cache, exact "
        "double arithmetic), tied by the differential run (harness/logstream_drv.cc vs lean driver)",
        "glibc snprintf (%.12g, %.Nf correctly rounded), strerror_r, gettid; IEEE-754 binary64 round-to-nearest-even",
        "thread-local storage / fork semantics: a new thread sees the static initialisers of t_cachedTid (0), t_tidString "
        "(zero-filled), t_tidStringLength (6); fork() copies the forking thread's values and runs the pthread_atfork child "
        "handler; the entry states of the four thread kinds in Model/LogStream.lean (entryState) are built from the "
        "extracted start-up steps and tied by the differential run",
    ]
    assumptions = [
        "streamed integers / pointers are values of a type of at most 64 bits; snprintf(\"%.12g\") reports fewer than "
        "kMaxNumericSize characters (tested, not proved)",
        "Logger::setTimeZone is called fewer than 2^31 times (the generation counter is an int) and not concurrently "
        "with a log statement (g_logTimeZone itself is a plain object)",
        "the clock reads at least one second past the epoch and the zone-shifted instant lies in years 1970..9999 "
        "(a thread's very first line during second 0 would hit the zero-initialised cache)",
        "a fixed-offset TimeZone (or none) is configured; zone-file zones belong to C20",
        "log lines are produced on one thread at a time (the per-thread cache is thread-local)",
        "gettid() returns a positive pid_t (0 < tid < 2^31); a thread's tid cache, when filled, was filled on that thread "
        "(or was reset by the atfork handler): nobody writes CurrentThread::t_cachedTid by hand",
    ]
    partial_theorems = []

    F18_SIG = "time-stale-after-setTimeZone"

    def signature(self, case, kind, desc):
        return kind

    def __init__(self):
        self._known = None

    def known_sigs(self):
        if self._known is None:
            self._known = set(k["signature"] for k in load_known().get("findings", []) if k["property"] == self.id)
        return self._known

    def unknown_failures(self, ctx):
        return [f for f in ctx.oracle_failures if f[1] not in self.known_sigs()]

    def stop(self, ctx):
        return len(self.unknown_failures(ctx)) >= 1 or len(ctx.mismatches) >= 2

    # ------------------------------------------------------------------ oracle
    def oracle(self, lines, blocks, state=None):
        """the property evaluated on what the implementation printed; returns [(kind, description, step)]"""
        st = state if state is not None else {}
        st.setdefault("buf", PyBuf(KSMALL))
        st.setdefault("large", False)
        st.setdefault("level", 2)
        st.setdefault("zone", None)
        st.setdefault("cache", (0, None))     # main thread: (second whose text is cached, zone in force when it was formatted)
        sites = macro_sites()
        fails = []
        ops = [l for l in lines if l.strip()]
        for i, op in enumerate(ops):
            if i >= len(blocks):
                fails.append(("trace", "no output for step %d `%s`" % (i, op[:80]), i))
                break
            blk = blocks[i]
            if any(l.startswith("<<") for l in blk):
                fails.append(("crash", "step %d `%s`: %s" % (i, op[:80], blk[-1]), i))
                break
            obs = [l for l in blk if not l.startswith("<") and not l.startswith("#")]
            env = {}
            for l in blk:
                if l.startswith("< "):
                    w = l.split()
                    env[w[1]] = w[2:]
            notes = {}
            for l in blk:
                if l.startswith("# "):
                    k, _, v = l[2:].partition("=")
                    if " " in k:
                        k, _, v = l[2:].partition(" ")
                    notes[k] = v
            if obs in (["reject"], ["bad-op"]):
                continue
            w = op.split()
            f = self.check_op(st, w, obs, env, notes, sites)
            if f:
                fails.append((f[0], "step %d `%s`: %s" % (i, op[:100], f[1]), i))
                break
        return fails

    def check_st(self, st, obs):
        b = st["buf"]
        want = "st len=%d avail=%d h=%d" % (len(b.data), b.avail(), fnv64(b.data))
        if obs != [want]:
            return ("buffer", "implementation %r, specification %r" % (obs, want))
        return None

    def check_op(self, st, w, obs, env, notes, sites):
        name = w[0]
        if name == "reset":
            st["large"] = w[1] == "large"
            st["buf"] = PyBuf(KLARGE if st["large"] else KSMALL)
            return self.check_st(st, obs)
        if name == "rst":
            st["buf"].data = bytearray()
            return self.check_st(st, obs)
        if name == "buf":
            if st["large"]:
                return self.check_st(st, obs)
            want = "buf " + bytes(st["buf"].data).hex()
            return None if [o.lower() for o in obs] == [want] else ("buffer", "content differs from the specification")
        if name == "ins":
            ty, a = w[1], (w[2] if len(w) > 2 else None)
            numeric = False
            if ty in INT_TYPES:
                text, numeric = str(int(a)).encode(), True
            elif ty == "ptr":
                text, numeric = ("0x%X" % int(a)).encode(), True
            elif ty in ("f64", "f32"):
                x = struct.unpack(">d", bytes.fromhex(a))[0] if ty == "f64" else struct.unpack(">f", bytes.fromhex(a))[0]
                glibc = bytes.fromhex(env.get("dbl", [""])[0])
                if x == x and abs(x) != float("inf"):
                    text = ("%.12g" % x).encode()
                    if text != glibc:
                        return ("double", "snprintf(%%.12g) gave %r, Python %r" % (glibc, text))
                else:
                    text = glibc
                if len(text) >= KNUM:
                    return ("double", "%.12g text of %d characters" % len(text))
                numeric = True
            elif ty == "bool":
                text = a.encode()
            elif ty == "char":
                text = bytes([int(a)])
            elif ty in ("str", "sp", "raw"):
                text = parse_bytes(a)
            elif ty in ("cstr", "ucstr"):
                text = cstr(parse_bytes(a))
            elif ty == "cstrnull":
                text = b"(null)"
            elif ty == "self":
                text = b"buffer:42"
            else:
                return ("trace", "unknown item type accepted")
            if "expect" in notes and bytes.fromhex(notes["expect"]) != text:
                return ("printf", "the printf conversion gives %r, the specification %r" % (bytes.fromhex(notes["expect"]), text))
            st["buf"].put(text, numeric)
            return self.check_st(st, obs)
        if name == "setlevel":
            st["level"] = int(w[1])
            return None if obs == ["level %d" % st["level"]] else ("level", "logLevel() reads %r" % obs)
        if name == "setzone":
            st["zone"] = None if w[1] == "none" else int(w[1])
            return None
        if name in ("line", "macro"):
            return self.check_line(st, w, obs, env, notes, sites)
        if name in ("si", "iec"):
            return self.check_si(name, int(w[1]), obs)
        if name in ("sweep16", "sweep32"):
            n = 65536 if name == "sweep16" else int(w[2]) - int(w[1])
            return None if obs == ["sweep ok n=%d" % n] else ("snprintf-sweep", "LogStream differs from snprintf: %r" % obs[:3])
        return ("trace", "unknown operation accepted")

    def check_line(self, st, w, obs, env, notes, sites):
        name = w[0]
        where = w[1]
        if name == "line":
            ctor, lv, clk, err = w[2], int(w[3]), w[4], int(w[5])
            kind, _, rest = w[6].partition(":")
            path = bytes.fromhex(rest.split(":")[-1])
            lineno, func, msg = int(w[7]), (None if w[8] == "-" else parse_bytes(w[8])), parse_bytes(w[10])
            level = {"c2": 2, "cb": 4, "ct": 5}.get(ctor, lv)
            errno = err if ctor in ("cb", "ct") else 0
            emitted = True
        else:
            m, clk, err, msg = int(w[2]), w[3], int(w[4]), parse_bytes(w[5])
            level = [0, 1, 2, 3, 4, 5, 4, 5][m]
            errno = err if m >= 6 else 0
            # the property: TRACE/DEBUG/INFO only at or above the configured level, WARN and above always
            emitted = m >= 3 or m >= st["level"]
            if m not in sites:
                return ("trace", "macro site %d not found in the harness source" % m)
            path, lineno = sites[m][0].encode(), sites[m][1]
            func = b"macroSite" if m <= 1 else None
        fatal = level == 5
        outs = [o for o in obs if o.startswith("out ")]
        if not emitted:
            return None if obs == ["out-none"] else ("gate", "a statement below the configured level %d produced %r" % (st["level"], obs[:1]))
        if "aborted" in obs and not fatal:
            # builds with asserts: a violated internal assertion is an observable event of its own
            return ("abort", "a %s statement on %s aborted the process (%s) %s" % (
                LEVELS[level].decode().strip(), WHERE.get(where, where),
                "built with asserts" if env.get("asserts") == ["1"] else "NDEBUG build",
                "after the line %r" % bytes.fromhex(outs[0][4:])[:80] if outs else "before any line was emitted"))
        if len(outs) != 1:
            return ("gate" if name == "macro" else "line", "expected exactly one line, got %r" % obs[:2])
        if fatal != ("aborted" in obs):
            return ("abort", "FATAL must abort after the line (and only FATAL): %r" % obs)
        got = bytes.fromhex(outs[0][4:])
        if "now" not in env or "tid" not in env:
            return ("trace", "no clock / tid reading recorded")
        us, tid = int(env["now"][0]), int(env["tid"][0])
        # `tid` is gettid() as the harness read it on the emitting thread (not through muduo); sanity of that report
        if "ptid" in env and (tid == int(env["ptid"][0])) != (where == "main") or tid <= 0:
            return ("trace", "the harness reported thread id %d for a line on %s (driver main thread: %s)"
                    % (tid, WHERE.get(where, where), env.get("ptid")))
        if clk != "now" and us != int(clk):
            return ("clock", "the line was stamped with a reading %d that is not the clock's %s" % (us, clk))
        if clk == "now" and "bracket" in notes:
            t0, t1 = [int(x) for x in notes["bracket"].split()]
            if not (t0 <= us <= t1):
                return ("clock", "time stamp %d outside the interval [%d, %d] in which the line was logged" % (us, t0, t1))
        zone = st["zone"]
        sec, micro = us // 1000000, us % 1000000
        # expected text, through the property's buffer
        b = PyBuf(KSMALL)
        tm = civil(sec + (zone or 0))
        b.put(tm)
        b.put((".%06d" % micro).encode() + (b" " if zone is not None else b"Z "))
        b.put(b"%5d " % tid)
        b.put(LEVELS[level])
        if errno != 0:
            b.put(os.strerror(errno).encode())
            b.put(b" (errno=")
            b.put(str(errno).encode(), True)
            b.put(b") ")
        if func is not None:
            b.put(cstr(func))
            b.put(b" ")
        b.put(msg)
        b.put(b" - ")
        b.put(path[path.rfind(b"/") + 1:])
        b.put(b":")
        b.put(str(lineno).encode(), True)
        b.put(b"\n")
        want = bytes(b.data)
        # the cache of the emitting thread as far as the trace shows it (only to *name* a stale second)
        csec, czone = st["cache"] if where in ("main", "fork") else (st.setdefault("wcache", (0, None)) if where == "worker" else (0, None))
        if where == "main" and sec != csec:
            st["cache"] = (sec, zone)
        if where == "worker" and sec != csec:
            st["wcache"] = (sec, zone)
        if got == want:
            return None
        if got[17:] == want[17:] and got[:17] != want[:17]:
            if sec == csec and czone != zone and got[:17] == civil(sec + (czone or 0)):
                return (self.F18_SIG, "time field %r is the break-down in the zone that was configured when this second "
                                      "was first formatted on the thread (%s), not in the current zone (%s): %r expected"
                        % (got[:17], czone, zone, want[:17]))
            return ("time", "time field %r, true time %r" % (got[:17], want[:17]))
        # name the first field that differs
        fields = [("time", 17), ("micro", 8 if zone is not None else 9), ("tid", len(b"%5d " % tid)), ("level", 6)]
        off = 0
        for nm, ln in fields:
            if got[off:off + ln] != want[off:off + ln]:
                if nm == "tid":
                    return (nm, "thread-id field of a line logged on %s is %r; gettid() on that thread is %d, so %r is expected%s"
                            % (WHERE.get(where, where), got[off:off + ln], tid, want[off:off + ln],
                               " (that is the id of the forking thread)" if where == "fork" and "ptid" in env
                               and got[off:off + ln] == b"%5d " % int(env["ptid"][0]) else ""))
                return (nm, "field %s is %r, expected %r" % (nm, got[off:off + ln], want[off:off + ln]))
            off += ln
        if not got.endswith(want[want.rfind(b" - "):]) and len(want) < KSMALL - 200:
            return ("source", "line ends with %r, expected %r" % (got[-60:], want[want.rfind(b" - "):]))
        return ("line", "line %r, expected %r" % (got[:200], want[:200]))

    def check_si(self, name, n, obs):
        if len(obs) != 1 or not obs[0].startswith(name + " "):
            return ("trace", "no result")
        text = bytes.fromhex(obs[0].split()[1])
        limit = 5 if name == "si" else 6
        if len(text) > limit:
            return ("%s-width" % name, "%s(%d) = %r has %d characters (at most %d promised)" % (
                "formatSI" if name == "si" else "formatIEC", n, text, len(text), limit))
        m = re.fullmatch(rb"(\d+)(?:\.(\d+))?(k|M|G|T|P|E|)" if name == "si" else rb"(\d+)(?:\.(\d+))?(Ki|Mi|Gi|Ti|Pi|Ei|)", text)
        if not m:
            return ("%s-form" % name, "%r is not <number><unit>" % text)
        frac = m.group(2) or b""
        mant, k = int(m.group(1) + frac), len(frac)
        if m.group(1) != b"0" and m.group(1).startswith(b"0"):
            return ("%s-form" % name, "leading zero in %r" % text)
        if name == "si":
            unit = 10 ** (3 * b" kMGTPE".index(m.group(3) or b" "))
        else:
            unit = 1 << (10 * [b"", b"Ki", b"Mi", b"Gi", b"Ti", b"Pi", b"Ei"].index(m.group(3)))
        if unit == 1:
            if k != 0 or mant != n:
                return ("%s-value" % name, "%d printed as %r" % (n, text))
            return None
        # |n - mant * unit / 10^k| <= half a unit of the last printed digit (+ the rounding of the two double operations)
        err2 = 2 * abs(n * 10 ** k - mant * unit)
        slack = (n * 10 ** k >> 51) + 1
        if err2 > unit + slack:
            return ("%s-value" % name, "%d printed as %r: off by more than half a unit of the last digit" % (n, text))
        return None

    # ------------------------------------------------------------------ generators
    def int_values(self, rng, lo, hi, n):
        base = [lo, hi, 0, 1, -1, lo + 1, hi - 1, 9, 10, 11, 99, 100, 101, -9, -10, -11, -99, -100]
        for _ in range(n):
            r = rng.random()
            if r < 0.35:
                p = 10 ** rng.randrange(0, 20)
                v = rng.choice([1, -1]) * (p + rng.randrange(-2, 3))
            elif r < 0.6:
                p = 1 << rng.randrange(0, 65)
                v = rng.choice([1, -1]) * (p + rng.randrange(-2, 3))
            elif r < 0.7:
                v = rng.choice(base)
            else:
                bits = rng.randrange(1, 65)
                v = rng.randrange(-(1 << bits), 1 << bits)
            if lo <= v <= hi:
                yield v

    def rand_ins(self, rng):
        r = rng.random()
        if r < 0.45:
            ty = rng.choice(list(INT_TYPES))
            lo, hi = INT_TYPES[ty]
            v = next(iter(self.int_values(rng, lo, hi, 50)), 0)
            return "ins %s %d" % (ty, v)
        if r < 0.55:
            v = rng.choice([0, 1, 9, 10, 15, 16, 255, 256, MASK, MASK - 1, 1 << 63, (1 << 63) - 1,
                            (1 << rng.randrange(0, 64)) + rng.randrange(-1, 2), rng.randrange(0, 1 << 64)])
            return "ins ptr %d" % max(0, min(v, MASK))
        if r < 0.68:
            if rng.random() < 0.5:
                x = rng.choice([0.0, -0.0, 1.0, -1.5, 0.1, 1e15, 1e16, 123456789012.0, 1234567890123.0, 1e-5, 1e-4, 5e-324,
                                1.7976931348623157e308, -2.2250738585072014e-308, float("inf"), float("-inf"),
                                0.000123456789012345, 999999999999.5, 99999999999.95, rng.uniform(-1e6, 1e6),
                                rng.uniform(-1, 1) * 10 ** rng.randrange(-300, 300)])
                return "ins f64 %s" % struct.pack(">d", x).hex()
            if rng.random() < 0.5:
                return "ins f64 %016x" % rng.randrange(0, 1 << 64)
            return "ins f32 %08x" % rng.randrange(0, 1 << 32)
        if r < 0.72:
            return "ins bool %d" % rng.randrange(2)
        if r < 0.77:
            return "ins char %d" % rng.choice([0, 10, 32, 65, 127, 128, 255, rng.randrange(256)])
        if r < 0.79:
            return rng.choice(["ins cstrnull", "ins self -"])
        ty = rng.choice(["str", "sp", "raw", "cstr", "ucstr"])
        n = rng.choice([0, 1, 2, 7, 46, 47, 48, 49, 100, rng.randrange(0, 300), rng.randrange(0, 1500)])
        if ty in ("cstr", "ucstr") and rng.random() < 0.7:
            return "ins %s h:%s" % (ty, bytes(rng.choice(b"abcXYZ 09\x01\xff") for _ in range(min(n, 200))).hex()
                                    + ("00" + "41" * rng.randrange(3) if rng.random() < 0.3 else ""))
        return "ins %s g:%d:%d" % (ty, rng.randrange(1 << 30), n)

    def stream_section(self, rng):
        lines = ["reset small"]
        mode = rng.random()
        if mode < 0.45:
            # run up to the capacity, then keep inserting around the boundary
            fill = KSMALL - rng.choice([0, 1, 2, 20, 21, 46, 47, 48, 49, 50, 60, 100]) - rng.randrange(0, 3)
            left = fill
            while left > 0:
                n = min(left, rng.choice([left, 1000, 1999, rng.randrange(1, 1500)]))
                lines.append("ins str g:%d:%d" % (rng.randrange(1 << 30), n))
                left -= n
            for _ in range(rng.randrange(3, 40)):
                if rng.random() < 0.5:
                    lines.append(rng.choice(["ins char 65", "ins bool 1", "ins i32 7", "ins i64 -9223372036854775808",
                                             "ins ptr 18446744073709551615", "ins f64 3ff8000000000000", "ins str h:4142",
                                             "ins str h:", "ins cstr h:41", "ins u64 18446744073709551615", "ins self -",
                                             "ins cstrnull", "ins raw h:414243444546"]))
                else:
                    lines.append(self.rand_ins(rng))
        else:
            for _ in range(rng.randrange(1, 60)):
                lines.append(self.rand_ins(rng))
                if rng.random() < 0.02:
                    lines.append("rst")
        lines.append("buf")
        return lines

    def large_section(self, rng):
        lines = ["reset large"]
        left = KLARGE - rng.choice([0, 1, 2, 5, 100])
        while left > 0:
            n = min(left, rng.choice([left, 1 << 20, 999999, 1500000]))
            lines.append("ins %s g:%d:%d" % (rng.choice(["str", "sp"]), rng.randrange(1 << 30), n))
            left -= n
        for _ in range(8):
            lines.append("ins str g:%d:%d" % (rng.randrange(1 << 30), rng.choice([0, 1, 2, 3, 5, 99, 100, 101])))
        lines += ["buf", "reset small"]
        return lines

    def rand_clock(self, rng, zone, base):
        r = rng.random()
        lo = 1000000 + max(0, -(zone or 0)) * 1000000
        hi = MAXUS - max(0, (zone or 0)) * 1000000
        if r < 0.45:
            us = base[0] + rng.choice([0, 0, 1, 999, 999999, 1000000, 1000001, rng.randrange(0, 3000000)])
        elif r < 0.6:
            us = rng.choice([lo, hi, 951782400000000, 951868800000000, 4107542400000000, 1709164800000000, 1709251199999999,
                             68169599999999, 86400000000, 86399999999, 2147483647999999, 2147483648000000,
                             4294967296000000, 32503680000000000 - 1, 32503680000000000])
            us += rng.choice([0, 0, -1, 1, rng.randrange(-5000000, 5000000)])
        elif r < 0.9:
            us = rng.randrange(lo, 4200000000000000)
        else:
            us = rng.randrange(lo, hi)
        us = max(lo, min(us, hi))
        base[0] = us
        return us

    def path_arg(self, rng):
        if rng.random() < 0.5:
            i = rng.randrange(len(LITS))
            return "lit:%d:%s" % (i, LITS[i].encode().hex())
        parts = [rng.choice(["", "a", "src", "..", ".", "dir with space", "x.cc", "Logging.cc", "a" * rng.randrange(1, 40)])
                 for _ in range(rng.randrange(0, 5))]
        return "dyn:" + "/".join(parts).encode().hex()

    def msg_arg(self, rng):
        r = rng.random()
        if r < 0.6:
            return "h:" + bytes(rng.choice(b"abc xyz-:/.09") for _ in range(rng.randrange(0, 40))).hex()
        if r < 0.8:
            return "g:%d:%d" % (rng.randrange(1 << 30), rng.randrange(0, 300))
        # around the capacity of the line buffer: the tail of the line is left out piece by piece
        return "g:%d:%d" % (rng.randrange(1 << 30), KSMALL - rng.randrange(20, 140))

    def logger_section(self, rng):
        lines = []
        zone = rng.choice([None, None, 28800, -18000, 3600, 0, 86400, -86400, 19800, rng.randrange(-86400, 86401)])
        level = rng.randrange(0, 6)
        lines.append("setzone %s" % ("none" if zone is None else zone))
        lines.append("setlevel %d" % level)
        base = [rng.randrange(1000000, 4000000000000000)]
        for _ in range(rng.randrange(2, 14)):
            r = rng.random()
            where = rng.choice(["main", "main", "main", "thread", "fork", "raw0", "raw1", "worker", "worker"])
            if r < 0.07:
                lines.append("setlevel %d" % rng.randrange(0, 6))
                continue
            if r < 0.14:
                # a zone change, very often inside the second the thread has cached (F18): rand_clock stays close
                zone = rng.choice([None, 28800, -3600, rng.randrange(-86400, 86401)])
                lines.append("setzone %s" % ("none" if zone is None else zone))
                base[0] = self.clamp(base[0], zone)
                continue
            clk = "now" if rng.random() < 0.08 and zone in (None, 0, 28800, 3600) else str(self.rand_clock(rng, zone, base))
            if r < 0.55:
                m = rng.randrange(0, 8)
                if m in (5, 7):
                    where = "fork"
                    if clk == "now":
                        clk = str(self.rand_clock(rng, zone, base))
                lines.append("macro %s %d %s %d %s" % (where, m, clk, rng.choice([0, 1, 2, 4, 11, 13, 32, 104, 133, 134, 4095]),
                                                      self.msg_arg(rng)))
            else:
                ctor = rng.choice(["c2", "c3", "c3", "c4", "cb", "ct"])
                lv = rng.randrange(0, 6)
                fatal = ctor == "ct" or (ctor in ("c3", "c4") and lv == 5)
                if fatal:
                    where = "fork"
                    if clk == "now":
                        clk = str(self.rand_clock(rng, zone, base))
                func = "-"
                if ctor == "c4":
                    func = "h:" + bytes(rng.choice(b"fgh_:~AZ09") for _ in range(rng.randrange(0, 30))).hex()
                lines.append("line %s %s %d %s %d %s %d %s msg %s" % (
                    where, ctor, lv, clk, rng.choice([0, 1, 2, 9, 11, 32, 110, 133, 200, 4095]), self.path_arg(rng),
                    rng.choice([0, 1, 42, 99999, 2147483647, -1, -2147483648, rng.randrange(1, 100000)]), func, self.msg_arg(rng)))
        return lines

    def thread_section(self, rng):
        """every thread kind x a constructor and a macro, no FATAL: the thread-id field (C17 "the calling thread's id,
        also in a forked child"); a foreign thread's first muduo call is the log statement itself"""
        lines = []
        zone = rng.choice([None, 28800, -18000, rng.randrange(-86400, 86401)])
        lines.append("setzone %s" % ("none" if zone is None else zone))
        lines.append("setlevel %d" % rng.randrange(0, 3))
        base = [rng.randrange(1000000, 4000000000000000)]
        order = WHERES + [rng.choice(WHERES) for _ in range(3)]
        rng.shuffle(order)
        for where in order:
            clk = self.rand_clock(rng, zone, base)
            if rng.random() < 0.5:
                lines.append("macro %s %d %d %d %s" % (where, rng.choice([2, 3, 4, 6]), clk, rng.choice([0, 2, 11]), self.msg_arg(rng)))
            else:
                ctor = rng.choice(["c2", "c3", "c4", "cb"])
                func = "h:" + b"f".hex() if ctor == "c4" else "-"
                lines.append("line %s %s %d %d %d %s %d %s msg %s" % (
                    where, ctor, rng.randrange(0, 5), clk, rng.choice([0, 1, 9]), self.path_arg(rng),
                    rng.randrange(1, 100000), func, self.msg_arg(rng)))
        return lines

    @staticmethod
    def clamp(us, zone):
        lo = 1000000 + max(0, -(zone or 0)) * 1000000
        hi = MAXUS - max(0, (zone or 0)) * 1000000
        return max(lo, min(us, hi))

    def si_values(self, rng, radius, nrandom):
        vals = set()
        top = (1 << 63) - 1

        def around(c, r):
            for v in range(max(0, c - r), min(top, c + r) + 1):
                vals.add(v)
        for k in range(0, 19):
            around(10 ** k, radius)
        for k in range(0, 64):
            around(1 << k, radius)
        for t in SI_THRESHOLDS:
            around(t, radius)
        for j in IEC_UNITS:
            # Ki*9.995, Ki*99.95, Ki*1023.5 (as reals; the double constants differ by < 1 ulp)
            for num, den in ((9995, 1000), (9995, 100), (10235, 10)):
                around((num << j) // den, radius)
        # the F8 boundary in both tiers at full width
        around(99950000000000000, 3000)
        around(999500000000000000, 200)
        around(top, radius)
        around(0, radius)
        for _ in range(nrandom):
            r = rng.random()
            if r < 0.5:
                vals.add(rng.randrange(0, 1 << rng.randrange(1, 64)))
            elif r < 0.8:
                t = rng.choice(SI_THRESHOLDS + [(9995 << j) // 1000 for j in IEC_UNITS] + [(10235 << j) // 10 for j in IEC_UNITS])
                vals.add(max(0, min(top, t + rng.randrange(-100000, 100000))))
            else:
                vals.add(rng.randrange(0, top + 1))
        return sorted(vals)

    # ------------------------------------------------------------------ driver
    def run_lines(self, ctx, exe, lines, origin, sections=None, flat=False, nontrivial_prefixes=("st ", "out ", "si ", "iec ", "buf ", "sweep ")):
        """run a batch through both sides; evaluate the oracle on the implementation's output"""
        case = Case("logstream", lines, origin)
        impl, err = ctx.run_impl(exe, case, timeout=1800)
        fails = self.oracle(lines, impl)
        model = ctx.run_model(case, impl, timeout=1800) if ctx.model_ok else None
        mismatch = ctx.compare(case, impl, model) if model is not None else None
        ops = [l for l in lines if l.strip()]
        secs = sections or [(0, len(ops))]
        if flat:
            # one evaluation per line; distinct = distinct observations
            ctx.evaluations += len(ops)
            ctx.count("op:si", sum(1 for l in ops if l.startswith("si ")))
            ctx.count("op:iec", sum(1 for l in ops if l.startswith("iec ")))
            for blk in impl:
                for o in ctx.observable(blk):
                    ctx.distinct.add(o)
            if len(ctx.samples) < 3 and impl:
                ctx.samples.append({"ops": ops[:3], "last_observation": (ctx.observable(impl[-1]) or ["?"])[0]})
            secs = []
        for a, b in secs:
            blocks = impl[a:b]
            for l in ops[a:b]:
                w = l.split()
                ctx.count("op:" + (w[0] if w[0] not in ("ins",) else "ins:" + w[1]))
            for blk in blocks:
                o = ctx.observable(blk)
                if o == ["reject"]:
                    ctx.count("rejected")
                elif o == ["out-none"]:
                    ctx.count("gated-off")
            nt = any(ctx.observable(blk) and ctx.observable(blk)[0].startswith(nontrivial_prefixes) for blk in blocks)
            ctx.record(Case("logstream", ops[a:b]), blocks, nontrivial=nt,
                       sample={"ops": [x[:120] for x in ops[a:b][:6]],
                               "last_observation": ((ctx.observable(blocks[-1]) or ["?"])[0][:160] if blocks else "?")})

        def section_of(step):
            for a, b in (sections or []):
                if a <= step < b:
                    return ops[a:b]
            return [ops[step]] if flat else ops[:step + 1]

        if fails:
            kind, desc, step = fails[0]
            if not (kind in self.known_sigs() and any(f[1] == kind for f in ctx.oracle_failures)):
                small = self.shrink(ctx, exe, section_of(step), ops[:step + 1], kind, use_model=False)
                c = Case("logstream", small, origin)
                b, _ = ctx.run_impl(exe, c, timeout=120)
                f = self.oracle(small, b)
                ctx.oracle_failures.append((c, kind, f[0][1] if f else desc))
        if mismatch and not fails:
            m = re.search(r"step (\d+)", mismatch)
            step = int(m.group(1)) if m else len(ops) - 1
            small = self.shrink(ctx, exe, section_of(step), ops[:step + 1], None, use_model=True)
            c = Case("logstream", small, origin)
            b, _ = ctx.run_impl(exe, c, timeout=120)
            mo = ctx.run_model(c, b, timeout=300)
            ctx.mismatches.append((c, ctx.compare(c, b, mo) or mismatch))

    def shrink(self, ctx, exe, section, prefix, kind, use_model):
        def still(ls):
            c = Case("logstream", ls)
            b, _ = ctx.run_impl(exe, c, timeout=120)
            if use_model:
                mo = ctx.run_model(c, b, timeout=300)
                return ctx.compare(c, b, mo) is not None
            f = self.oracle(ls, b)
            return bool(f) and f[0][0] == kind
        start = section if still(section) else prefix
        if len(start) > 4000:
            start = start[-4000:] if still(start[-4000:]) else start
        if not still(start):
            return start
        return ddmin(start, still, keep_prefix=0, budget=120)

    def corpus_lines(self, path):
        with open(path) as f:
            return [l.rstrip("\n") for l in f if l.strip() and not l.startswith("#") and not l.startswith("engine=")]

    def correspondence(self, ctx, replay=None):
        flavours = ["dbg"] if ctx.quick() else ["dbg", "asan", "ndebug"]
        ctx.extra["flavours"] = flavours
        if replay:
            lines = self.corpus_lines(replay)
            for fl in (flavours if "ndebug" in flavours else flavours + ["ndebug"]):
                self.run_lines(ctx, ctx.exe("logstream_drv", fl), lines, "replay:" + os.path.basename(replay))
            return
        thorough = (not ctx.quick()) or ctx.search_mode
        # 0. the thread-id field on every kind of thread, in a build with asserts and in an NDEBUG build (in a build
        #    with asserts a stale / empty tid cache is an abort inside Logger::Impl::Impl, in an NDEBUG build a wrong field)
        tid_flavours = flavours if "ndebug" in flavours else flavours + ["ndebug"]
        ctx.extra["thread_kind_flavours"] = tid_flavours
        for fl in tid_flavours:
            exe = ctx.exe("logstream_drv", fl)
            for p in sorted(glob.glob(os.path.join(CORPUS, "C17", "M-tid-*.case"))):
                self.run_lines(ctx, exe, self.corpus_lines(p), "corpus:" + os.path.basename(p))
            if self.stop(ctx):
                return
            lines, secs = [], []
            for i in range(60 if thorough else 12):
                sec = self.thread_section(ctx.rng)
                secs.append((len(lines), len(lines) + len(sec)))
                lines += sec
            self.run_lines(ctx, exe, lines, "thread-kinds", secs)
            ctx.count("thread_kind_sections:" + fl, len(secs))
            if self.stop(ctx):
                return
        for fi, fl in enumerate(flavours):
            exe = ctx.exe("logstream_drv", fl)
            # 1. corpus first (witnesses of F8 / F18 and minimised past failures)
            for p in sorted(glob.glob(os.path.join(CORPUS, "C17", "*.case"))):
                self.run_lines(ctx, exe, self.corpus_lines(p), "corpus:" + os.path.basename(p))
                ctx.count("corpus_cases")
            if self.stop(ctx):
                return
            # 2. formatSI / formatIEC on boundary-dense values
            if fi == 0 or fl == "ndebug":
                radius = 3000 if thorough and fi == 0 else 64
                vals = self.si_values(ctx.rng, radius, 20000 if thorough else 3000)
                ctx.extra.setdefault("si_iec_values", {})[fl] = {"radius": radius, "values": len(vals)}
                chunk = 60000
                for i in range(0, len(vals), chunk):
                    part = vals[i:i + chunk]
                    self.run_lines(ctx, exe, ["si %d" % v for v in part] + ["iec %d" % v for v in part], "si-iec-boundaries", flat=True)
                    if self.stop(ctx):
                        return
            # 3. implementation vs snprintf (a test, not part of the proof)
            if fi == 0:
                sweeps = ["sweep16"]
                if thorough:
                    # sampled 32-bit: 64 windows of 2^16 consecutive values incl. both ends and the sign change
                    starts = [0, (1 << 31) - (1 << 15), (1 << 32) - (1 << 16)] + [ctx.rng.randrange(0, (1 << 32) - (1 << 16)) for _ in range(61)]
                    sweeps += ["sweep32 %d %d" % (s, s + (1 << 16)) for s in starts]
                self.run_lines(ctx, exe, sweeps, "snprintf-sweep")
                ctx.extra["snprintf_sweep_test"] = {
                    "what": "implementation (LogStream << v) vs snprintf in C++; a test, not a proof obligation",
                    "exhaustive_16bit": True, "types": "short, unsigned short, int, unsigned, long, unsigned long, long long, "
                    "unsigned long long, const void* (16-bit patterns spread over the wider types)",
                    "sampled_32bit_values": (len(sweeps) - 1) << 16}
                if self.stop(ctx):
                    return
            # 4. LogStream insertion sequences
            nstream = (1500 if thorough else 250) // (1 if fi == 0 else 3)
            lines, secs = [], []
            for i in range(nstream):
                s = self.stream_section(ctx.rng)
                secs.append((len(lines), len(lines) + len(s)))
                lines += s
            if fi == 0 or thorough:
                s = self.large_section(ctx.rng)
                secs.append((len(lines), len(lines) + len(s)))
                lines += s
            self.run_lines(ctx, exe, lines, "logstream-sequences", secs)
            if self.stop(ctx):
                return
            # 5. Logger lines
            nlog = (1200 if thorough else 200) // (1 if fi == 0 else 3)
            lines, secs = [], []
            for i in range(nlog):
                s = self.logger_section(ctx.rng)
                secs.append((len(lines), len(lines) + len(s)))
                lines += s
            self.run_lines(ctx, exe, lines, "logger-lines", secs)
            if self.stop(ctx):
                return


PROP = Prop()
