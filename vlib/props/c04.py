"""C04 — tasks given to a loop run exactly once, in order, on its thread, without delay.

Lean: invariant proofs over the thread-indexed transition system Model/Loop.lean (Props/C04.lean); T1: the wake
condition of queueInLoop, the inline test of runInLoop, the swap, the final drain and the statement order of loop()
(vlib/gen/loop.py); T3: the real EventLoop under the deterministic scheduler (harness/loop_drv.cc on
harness/sched/detsched.h) against the model under the same interleaving; an independent oracle on the
implementation's own log."""
from .. import loop_common


class Prop:
    id = "C04"
    lean_module = "MuduoVerif.Props.C04"
    gen_engines = ["Loop", "LoopSkel"]
    drivers = ["loop"]
    technique = ("Lean 4 invariant proofs over a thread-indexed transition system of EventLoop's task queue (any number of "
                 "threads, programs with unbounded nesting, all schedules; functor OBJECTS included: the destructor of what a "
                 "functor owns is user code that runs on the loop thread when the object dies and may submit again; no poll "
                 "timeout in the model, so promptness is a "
                 "safety property) + T1 extraction of the wake guard, the inline test, the swap, the place where the batch of "
                 "functor objects is destroyed relative to the reset of callingPendingFunctors_, the shape of the drain after "
                 "the `while` (none | once | until the queue is empty) and the statement order of loop() + T3: the real EventLoop under a deterministic scheduler compared event by event "
                 "with the model under the same interleaving + independent trace oracle (exactly once, order, thread, "
                 "inline-first, lost wake-up evaluated at every instant the loop is in poll)")
    level_text = ("Kernel-checked theorems for all programs, thread counts and schedules of the model: appendOrder = executed ++ "
                  "rest of the running batch ++ queue (exactly once, never twice, global FIFO in mutex order, hence per-thread "
                  "FIFO); task bodies start on the loop thread only; runInLoop on the loop thread starts the task inside the "
                  "call ahead of everything queued; whenever the loop is in poll with a functor queued the eventfd is readable "
                  "or a submitter stands between its append and its wakeup() (no lost wake-up, including submissions from I/O "
                  "handlers, from inside a drain, from the destructor of a functor's captured state and before loop()); the "
                  "functor objects of a batch die inside doPendingFunctors after the whole batch has run, in order, with "
                  "callingPendingFunctors_ still set, so a queueInLoop() made by such a destructor is followed by a wake-up "
                  "(dtor_queue_is_woken; negation witness for the earlier order — flag reset first — in which the loop ends "
                  "asleep in poll with the functor queued and no thread able to move); the functor of an inline runInLoop() "
                  "dies when the call returns; loop() may be entered again after it has returned (the owner's program continues "
                  "with further segments run outside loop(), each followed by another call; the queue, the eventfd and the "
                  "submission order go on across runs): a functor queued between two runs — by the owner or by a foreign "
                  "thread — is accompanied by a pending or imminent wake-up, the owner's own queueInLoop there writes the eventfd "
                  "because looping_ is false (queued_between_runs_is_woken, owner_queue_between_runs_wakes); "
                  "a loop asleep with work queued is never all-blocked; when "
                  "loop() has returned, every functor appended before its last test of the queue — by a foreign thread, by the "
                  "loop thread itself from a functor of the final drain, before or after quit() — has been started, in order "
                  "(executed = the first retMark appends; what is still queued was appended later by another thread); negation "
                  "witnesses for the earlier shapes of the code (one drain / no drain after the `while`: a functor is stranded); "
                  "explicit limitation: a functor that always re-queues itself keeps loop() from returning after quit() "
                  "(witness theorem). The guards and the code shape the model "
                  "uses are re-extracted from /repo on every run; the hand-written rest is tied to the real EventLoop by "
                  "schedule-controlled differential runs")
    level_note = ("Trusted: Lean kernel (axioms propext, Classical.choice, Quot.sound only), vlib/extract.py + vlib/gen/loop.py, "
                  "the hand-written steps of Model/Loop.lean as far as the differential runs exercise them, the deterministic "
                  "scheduler and the harness, pthreads/eventfd/poll as documented. Timer callbacks are not a separate context: "
                  "they run from the timerfd channel's read handler, i.e. in the dispatch phase like the pipe handler used here.")
    rule = ("programs: 2..6 tasks whose bodies submit higher-numbered tasks (queueInLoop / runInLoop / a byte for the pipe "
            "handler / quit); 30 % of the plain programs enter loop() again once or twice after it has returned (`again:` "
            "segments: 0..2 submissions by the owner between the runs, a quit() there in a quarter of them, foreign threads "
            "whose programs span the runs and end with another quit()); in half of the programs 40 % of the tasks have a destructor body (`dtor <id>`: the functor "
            "submitted for the task solely owns an object whose destructor submits 1..2 higher-numbered tasks, 12 % of these "
            "programs call quit() from such a destructor); 0..3 submissions by the owner before loop(), 0..3 foreign threads with 1..4 calls each, quit() "
            "from a foreign thread, a task, before loop(), twice, or never; EventLoopThread programs (startLoop, submissions, "
            "destroy). Schedules: directed (`follow`: which thread performs the next visible event; random walks with "
            "stickiness 0.3..0.9), raw detsched schedules (preemption density 5..60 %), directed sweeps placing a submission / "
            "a quit after every number of loop-thread steps (also against a chain of functors that queue one another from inside "
            "the drain after the `while`; a foreign submission after every number of steps of a loop thread that runs a batch, "
            "destroys its functor objects — one destructor queues, one runs a task inline whose own functor queues when it "
            "dies — and goes back to poll; a quit() at every step of a chain of destructor bodies that keep the final drain "
            "going; a foreign submission at every step of two runs of loop() and of the stretch between them, the owner "
            "queueing / running inline / doing nothing before the second call), and — thorough tier — every schedule of eight small programs "
            "within 1..3 preemptions (three of them aim at the silent switch point the harness offers immediately before "
            "handleRead()'s read of the eventfd: a foreign queueInLoop()+wakeup() inside that window, a further foreign "
            "submission once the loop is back in poll; the same three are enumerated first whenever an obligation or a tie "
            "breaks or a run diverges from the model); long batches (`qburst`): 1500 functors queued before loop() and by a foreign "
            "thread while the loop is held in a drain, the first of them queueing a late one — thorough tier and search mode also "
            "5000, the sizes 1023/1024/1025/2047/2049/4096/4097, a burst queued from inside a drain, a late foreign submission, "
            "burst + quit (final drain), two interleaved foreign bursts. A case counts as non-trivial when at least two threads acted or a submission context "
            "other than the plain foreign one occurred; distinct = distinct implementation logs.")
    trusted_base = [
        "Lean 4.33.0 kernel; axioms allowed: propext, Classical.choice, Quot.sound",
        "vlib/extract.py + vlib/gen/loop.py (clang-14 JSON AST -> Generated/Loop.lean)",
        "hand-written Model/Loop.lean, tied by the differential runs (harness/loop_drv.cc vs lean/Driver/LoopDrv.lean)",
        "harness/sched/detsched.h (link-level interposition of pthread mutex/cond/create/join and poll; named points of "
        "muduo/base/VerifHooks.h) and the eventfd/read/write/close interposers of harness/loop_drv.cc",
        "std::vector, std::function, pthread mutexes, eventfd and poll behave as documented; the C++ memory model below the "
        "granularity of the schedule points (C08 addresses data races)",
    ]
    assumptions = [
        "poll() returns when a registered descriptor is readable (C09 is the property about the pollers)",
        "task bodies and destructor bodies terminate; loop() is entered again only by the owner thread after it has returned "
        "(plain scenario; the EventLoopThread scenario calls loop() once)",
        "functors that are still queued when the EventLoop object itself is destroyed die unexecuted inside ~EventLoop; what "
        "their destructors do then is not modelled (the harness skips such a destructor body: there is no loop to talk to)",
        "a functor appended after the loop's last test of the queue (`while (queueSize() > 0)` found it empty) is not run: "
        "the loop no longer runs",
        "termination of loop() after quit() needs the functors to stop queueing further functors eventually (generated "
        "task bodies only submit higher-numbered tasks); the theorems speak about states in which loop() has returned",
    ]
    partial_theorems = []

    def signature(self, case, kind, desc):
        return kind

    def correspondence(self, ctx, replay=None):
        loop_common.correspondence(self, ctx, replay, "C04")


PROP = Prop()
