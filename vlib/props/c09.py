"""C09 — the loop calls exactly the ready, subscribed channels, the same under epoll and poll, and does not spin.

Theorems: lean/MuduoVerif/Props/C09.lean.  Correspondence: harness/poller_drv.cc (a real EventLoop with either
back-end + real Channels over pipes/socketpairs) against lean/Driver/PollerDrv.lean, per step, for both
back-ends, plus epoll-run vs poll-run of the same history.  The oracle below is evaluated on the
implementation's own trace and never consults the model."""
import glob
import math
import os
import re

from .. import leanside
from ..common import CORPUS
from ..runner import Case, ddmin, split_blocks

IN, PRI, OUT, ERR, HUP, NVAL, RDHUP = 1, 2, 4, 8, 16, 32, 8192
READ_EV, WRITE_EV = IN | PRI, OUT
KINDS = ("close", "error", "read", "write")
UPDATES = {"enableR": lambda e: e | READ_EV, "disableR": lambda e: e & ~READ_EV, "enableW": lambda e: e | WRITE_EV,
           "disableW": lambda e: e & ~WRITE_EV, "disableAll": lambda e: 0}
BACKENDS = ("epoll", "poll")


def bits_ok(kind, rev):
    if kind == "close":
        return bool(rev & HUP) and not (rev & IN)
    if kind == "error":
        return bool(rev & (ERR | NVAL))
    if kind == "read":
        return bool(rev & (IN | PRI | RDHUP))
    return bool(rev & OUT)


def subscribed(kind, ev):
    if kind in ("close", "error"):
        return ev != 0
    if kind == "read":
        return bool(ev & READ_EV)
    return bool(ev & WRITE_EV)


def served_bound(ready, backend):
    """iterations within which `ready` simultaneously ready descriptors (the wake-up descriptor included)
    are all reported: poll reports everything at once; epoll's array doubles 16, 32, 64, ..."""
    if backend == "poll":
        return 1
    k, cap, size = 0, 0, 16
    while cap < ready:
        cap += size
        size *= 2
        k += 1
    return max(k, 1)


class Prop:
    id = "C09"
    lean_module = "MuduoVerif.Props.C09"
    gen_engines = ["Poller", "PollerSkel", "SysSkel", "LoopSkel"]
    drivers = ["poller"]
    technique = ("Lean 4 invariant/refinement proofs over a model of Channel + PollPoller + EPollPoller + the loop's dispatch; "
                 "T1 extraction of every guard/mask/constant and of the statement skeleton of the 17 modelled functions; differential run vs. a real EventLoop under both back-ends with "
                 "poll/epoll_wait/epoll_ctl interposed; independent trace oracle; epoll-vs-poll comparison")
    level_text = ("Kernel-checked theorems (lean/MuduoVerif/Props/C09.lean) about a model of Channel + PollPoller + EPollPoller + "
                  "EventLoop's dispatch, at full strength for EVERY history of enable/disable read/write, disableAll, remove, "
                  "re-register, recreate on any number of channels, with operations between polls and scripted inside callbacks, and "
                  "any readiness input; the documented preconditions are the model's guards (a request outside them is rejected and "
                  "changes nothing). What either back-end asks the kernel to watch is exactly {fd -> interest | registered, "
                  "interest != 0} (refine_poll, refine_epoll, refine_full_holds; no watched descriptor has an empty mask: "
                  "idle_blocks_watch); PollPoller's slot invariant for every removal order and re-registration (index_inv) and "
                  "EPollPoller's new/added/deleted slot machine against channels_ and the kernel's interest list (slot_inv_epoll); "
                  "no epoll_ctl fails and nothing is logged by SYSERR/SYSFATAL (no_ctl_failure); no assertion fails on a poll loop "
                  "whatever the kernel reports (no_abort_poll) and on an epoll loop if the kernel behaves (no_abort_epoll); every "
                  "callback ran with the matching revents bits and with the interest the channel had at the moment of the call, "
                  "replayed from the operations recorded before it - earlier callbacks of the same batch included - "
                  "(dispatch_sound), only on a channel registered at that moment and never between remove(c) and a re-registration "
                  "(called_is_registered, removed_never_called), only on channels of the active list and with the revents the "
                  "kernel reported for them in that iteration (dispatch_reported_poll, dispatch_reported_epoll); every poll is "
                  "given the constant positive time-out and an iteration with nothing reported runs no callback and changes only "
                  "the counter (idle_blocks). Every ready, subscribed channel is called within a bounded number of iterations however "
                  "many are ready at once: under poll in the very iteration in which poll(2) reports it - the whole array is scanned - "
                  "unless an operation on that very channel is scripted inside an earlier callback of the iteration "
                  "(all_ready_called_poll); under epoll every reported channel is called in that iteration "
                  "(all_reported_called_epoll), the array events_ starts at kInitEventListSize, never shrinks and is doubled "
                  "(epGrowTo) exactly by an iteration whose wait filled it (evsize_growth), hence while R descriptors stay ready the "
                  "wait after n consecutive ones reports all of them and calls every subscribed one as soon as 16 * 2^n >= R, i.e. "
                  "within ceil(log2(R/16)) + 1 iterations (all_ready_called_epoll_bound; kInitEventListSize, epArrayFull, epGrowTo, "
                  "epHasEvents are the generated definitions). The same history with the same kernel reports gives, under poll and under epoll, the "
                  "same ordered trace of executed/rejected operations and callbacks (channel, kind, revents, interest) and the same "
                  "watched map whenever both pollers return the same active list (same_callbacks, same_watch), and - when "
                  "operations happen only between polls - the same multiset of callbacks for ANY report order "
                  "(same_callbacks_unordered, same_watch_unordered); order_matters exhibits that a callback operating on another "
                  "channel makes the callbacks depend on the report order. Guards, masks and constants - including the two sites of "
                  "the F21 repair - are re-extracted from /repo on every run, and so is the statement skeleton (significant actions, their "
                  "order, the nesting of guards and loops) of the 17 modelled functions of EPollPoller.cc, PollPoller.cc, Channel.cc "
                  "and EventLoop.cc, proved equal to the skeleton the model implements (statement_order_tied); the hand-written rest "
                  "of the model is tied to the real classes by a per-step differential run under both back-ends")
    level_note = ("Trusted: Lean kernel, vlib/extract.py, the hand-written parts of Model/Poller.lean as far as the differential "
                  "run exercises them, Linux epoll/poll semantics (readiness is input), std::map/std::vector. Not proved, only "
                  "checked on the implementation by the oracle: that the Linux kernel behaves as the environment hypotheses of "
                  "all_ready_called_poll / all_ready_called_epoll_bound say, so that every ready subscribed channel is served within "
                  "the event-array doubling bound (`not-served`), completeness of the dispatch for untouched channels (`missed-callback`), no "
                  "self-wake-up (`self-wake`). same_callbacks/same_watch carry environment hypotheses (see assumptions), no "
                  "hypothesis about the code.")
    rule = ("histories over 1..300 real channels (pipes read/write end, socketpairs): enable/disable read/write, disableAll, "
            "remove, re-register the same object, recreate the object, operations scripted inside callbacks of the same or "
            "another channel, peer write/consume/fill/drain/half-close/close/reset, single-stepped iterations; exhaustive "
            "operation sequences of small depth on a hung-up descriptor, random histories, bursts of N simultaneously ready "
            "descriptors around the array sizes 16/32/64; removals that move a disabled last entry of PollPoller's array "
            "followed by updates of the moved channel and registrations in between; a history on which model and "
            "implementation differ is continued with operations on the channels of the diverging line and judged by the "
            "oracle alone; every case under epoll and poll; non-trivial = at least one "
            "callback was dispatched; distinct = distinct observation traces")
    trusted_base = [
        "Lean 4.33.0 kernel; axioms allowed: propext, Classical.choice, Quot.sound",
        "vlib/extract.py (clang-14 JSON AST -> Generated/Poller.lean)",
        "vlib/gen/pollerskel.py (clang-14 JSON AST -> Generated/PollerSkel.lean: statement skeletons of the 17 modelled functions of "
        "EPollPoller.cc/PollPoller.cc/Channel.cc/EventLoop.cc; what it leaves out is listed in the generated header) and the reading of "
        "Model/Poller.lean written down in Model/PollerSkelDecl.lean (incl. its notes A1-A4); the two are proved equal "
        "(statement_order_tied)",
        "vlib/gen/sysskel.py (clang-14 JSON AST -> Generated/SysSkel.lean: statement skeletons of every function of SocketsOps.cc, Socket.cc/.h, InetAddress.cc/.h, Endian.h, Poller.cc, poller/DefaultPoller.cc, the poller constructors/destructors, Channel::tie, createEventfd, createTimerfd; what it leaves out is listed in the generated header) and the reading Model/SysSkelDecl.lean of what the "
        "models assume of each primitive (one system call, arguments passed through, result returned unchanged, failures only logged - or exactly the declared extra work); C09 depends on default_poller_choice (newDefaultPoller: MUDUO_USE_POLL set => PollPoller, else EPollPoller; the poller constructors/destructors, Poller::hasChannel, Channel::tie) and loop_descriptors_nonblocking (createEventfd, createTimerfd); still trusted: the kernel's / glibc's behaviour behind each system call",
        "vlib/gen/loopskel.py (clang-14 JSON AST -> Generated/LoopSkel.lean: statement skeletons of every function of EventLoop.cc, EventLoopThread.cc, EventLoopThreadPool.cc, Acceptor.cc and Channel::Channel / ~Channel; what it leaves out is listed in the generated header) and the reading Model/LoopSkelDecl.lean; C09 depends on channel_lifecycle_statement_order_tied (EventLoop constructor / destructor around the wake-up channel, Channel constructor / destructor, the updateChannel / removeChannel / hasChannel forwarders)",
        "hand-written Model/Poller.lean (control flow between the extracted guards), tied by the differential run",
        "harness/poller_drv.cc, harness/loopstep.h (link-level interposition of poll, epoll_wait, epoll_ctl, eventfd, write)",
        "Linux: epoll_ctl fails with EEXIST/ENOENT exactly on present/absent descriptors; poll ignores negative fds; "
        "EPOLL_CTL_ADD/DEL/MOD = 1/2/3; std::map, std::vector behave as documented",
    ]
    assumptions = [
        "readiness (revents per descriptor per poll) is input",
        "epEnvOk (no_abort_epoll, dispatch_reported_epoll, and inside simEnvOk/permEnvOk): epoll_wait returns as many events as "
        "it says, at most as many as the array holds, and only for descriptors in the interest list",
        "simEnvOk (same_callbacks_partial, same_watch_partial): epEnvOk, each descriptor reported at most once, and in every "
        "iteration both pollers return the same active list (epoll_wait lists the descriptors in the order PollPoller scans)",
        "permEnvOk (same_callbacks_unordered_partial, same_watch_unordered_partial): epEnvOk, each descriptor reported at most "
        "once, both pollers return the same channels in any order, and no operation is scripted inside a callback",
        "pollCount <= nret (all_ready_called_poll): poll(2) returns at least the number of pollfds_ entries it marked with a "
        "non-zero revents, so that PollPoller::fillActiveChannels does not stop its scan early",
        "epWait / order (all_ready_called_epoll_bound): the R descriptors of rdy are in the kernel's interest list, are ready and stay "
        "ready over the consecutive waits considered (level-triggered: what a wait did not report is still ready at the next); the "
        "kernel may keep its ready list in any order from wait to wait (order j is a permutation of rdy - e.g. reported entries go "
        "to the tail); each epoll_wait reports the first min(R, events_.size()) entries and returns their number; no operation is "
        "pending inside a callback and none happens between these waits",
        "documented preconditions: remove() only with no interest, during dispatch only of the current or an inactive "
        "channel; one Channel object per descriptor; a Channel object is destroyed only when unregistered (the harness and the "
        "model reject other requests)",
        "descriptors are abstract in the model (channel c owns descriptor c); the code uses them only as map keys and "
        "through the -fd-1 encoding",
    ]
    partial_theorems = []   # F21 is repaired (known_findings/C09.json `fixed`): every theorem is stated for all histories

    def signature(self, case, kind, desc):
        return kind

    # ------------------------------------------------------------------ oracle (implementation trace only)
    def oracle(self, lines, blocks, backend):
        ops = [l for l in lines if l.strip()]
        fails = []
        kindof, ev, reg, pending_in, peer_open, quirk = {}, {}, {}, {}, {}, {}
        hooks = []            # (j, kind, i, what) pending
        last_iteration = 0
        run = None            # current run of consecutive iters: dict(start ready set, served, count)

        def fail(kind, msg):
            fails.append((kind, msg))

        for step, op in enumerate(ops):
            if fails:
                break
            if step >= len(blocks):
                fail("trace", "no output for step %d `%s`" % (step, op))
                break
            blk = blocks[step]
            crash = [l for l in blk if l.startswith("<<") or l == "crash"]
            if crash:
                fail("crash", "step %d `%s`: %s" % (step, op, crash[0]))
                break
            obs = [l for l in blk if not l.startswith("<") and not l.startswith("#")]
            for l in obs:
                if l in ("abort", "fatal", "syserr"):
                    why = next((x for x in blk if x.startswith("# ")), "")
                    wq = op.split()
                    if l == "abort" and wq[0] == "op" and wq[2] == "remove" and quirk.get(int(wq[1])):
                        fail("blind-abort", "step %d `%s`: %s removing a channel that was registered by an update without interest (F21)" % (step, op, why))
                        break
                    fail(l, "step %d `%s`: %s %s in a history that respects the documented preconditions" % (step, op, l, why))
                if l.startswith("ctl ") and not l.endswith(" ok"):
                    fail("ctl-failure", "step %d `%s`: %s" % (step, op, l))
            if fails:
                break
            w = op.split()
            if w[0] != "iter":
                run = None

            def exec_op(i, what, in_cb, cur, active, line):
                """evaluate one executed operation against the preconditions and update the spec state"""
                if what == "remove":
                    ok = reg.get(i, False) and ev.get(i, 0) == 0 and (not in_cb or cur == i or i not in active)
                elif what == "recreate":
                    ok = not reg.get(i, False) and not in_cb
                else:
                    ok = True
                exp = ("op %d %s " % (i, what)) if ok else ("reject %d %s" % (i, what))
                if not line.startswith(exp):
                    fail("precondition", "step %d: expected `%s...`, trace has `%s`" % (step, exp, line))
                    return
                if not ok:
                    return
                if what == "remove":
                    reg[i] = False
                    quirk[i] = False
                elif what == "recreate":
                    ev[i] = 0
                else:
                    ev[i] = UPDATES[what](ev.get(i, 0))
                    quirk[i] = (not reg.get(i, False)) and ev[i] == 0
                    reg[i] = True
                m = re.search(r"ev=(-?\d+)", line)
                if m and int(m.group(1)) != ev.get(i, 0):
                    fail("interest", "step %d `%s`: channel reports events=%s, history says %d" % (step, line, m.group(1), ev.get(i, 0)))

            if w[0] == "chan":
                kindof[int(w[1])] = w[2]
                ev[int(w[1])], reg[int(w[1])] = 0, False
            elif w[0] == "op" and len(w) == 6:
                hooks.append((int(w[4]), w[5], int(w[1]), w[2]))
            elif w[0] == "op":
                line = next((l for l in obs if l.startswith("op ") or l.startswith("reject ")), "")
                exec_op(int(w[1]), w[2], False, None, set(), line)
            elif w[0] == "peer":
                i = int(w[1])
                if w[2] == "write" and kindof.get(i) in ("sock", "pipe") and peer_open.get(i, True):
                    pending_in[i] = True
                elif w[2] == "consume":
                    pending_in[i] = False
                elif w[2] in ("close", "reset"):
                    peer_open[i] = False
            elif w[0] == "iter":
                env = next((l for l in blk if l.startswith("< poll")), None)
                wait = next((l for l in obs if l.startswith("wait ")), None)
                watch = next((l for l in obs if l.startswith("watch")), None)
                wakes = next((l for l in blk if l.startswith("# wakes=")), None)
                st = next((l for l in obs if l.startswith("st iteration=")), None)
                if env is None or wait is None or watch is None or st is None:
                    fail("trace", "step %d: incomplete iteration block %r" % (step, blk[:6]))
                    break
                ew = env.split()
                reported = {}
                for tok in ew[3:]:
                    a, b = tok.split(":")
                    reported[a] = int(b)
                # -- idle_blocks: nothing but a subscribed channel (or the explicit wake-up of the stepper) ends a poll
                if int(wait.split()[2]) <= 0:
                    fail("zero-timeout", "step %d: poll called with time-out %s" % (step, wait.split()[2]))
                if wakes is not None and int(wakes.split("=")[1]) != 1:
                    fail("self-wake", "step %d: the wake-up descriptor was written %s times before this poll (the stepper writes it once)" % (step, wakes.split("=")[1]))
                it = int(st.split("=")[1])
                if it != last_iteration + 1:
                    fail("iteration-jump", "step %d: iteration() went from %d to %d in one step" % (step, last_iteration, it))
                last_iteration = it
                for a, r in reported.items():
                    if a in ("w", "t"):
                        continue
                    i = int(a)
                    if quirk.get(i):
                        fail("blind-spin", "step %d: the kernel reports channel %d (revents %d), registered by an update without interest (F21) - the loop cannot block" % (step, i, r))
                    elif not reg.get(i, False) or ev.get(i, 0) == 0:
                        fail("reported-without-interest", "step %d: the kernel reported channel %d (revents %d) although it is %s - the loop cannot block" % (
                            step, i, r, "not registered" if not reg.get(i, False) else "registered without interest"))
                # -- refinement evaluated on the implementation: what the kernel was asked to watch
                asked = {}
                for tok in watch.split()[1:]:
                    a, b = tok.split(":")
                    if not a.startswith("~"):
                        asked[a] = int(b)
                spec = {"t": READ_EV, "w": READ_EV}
                for i in reg:
                    if reg[i] and ev.get(i, 0) != 0:
                        spec[str(i)] = ev[i]
                specq = dict(spec)
                for i in quirk:
                    if quirk[i]:
                        specq[str(i)] = 0
                if asked != spec and asked == specq and not fails:
                    fail("blind-watch", "step %d: channels %s were registered by an update without interest and are watched with an empty mask (F21)" % (
                        step, sorted(i for i in quirk if quirk[i])[:5]))
                elif asked != spec:
                    diff = sorted(set(asked.items()) ^ set(spec.items()))
                    fail("watch-differs", "step %d: the kernel is asked to watch %s, the history says %s (differences %s)" % (
                        step, sorted(asked.items())[:8], sorted(spec.items())[:8], diff[:6]))
                if fails:
                    break
                # -- dispatch: soundness per callback, in trace order, with operations executed inside callbacks
                active = set(int(a) for a in reported if a not in ("w", "t"))
                called = {}
                touched = set()
                ev_at_poll = dict(ev)
                cur, cur_kind, mine = None, None, []
                for l in obs:
                    lw = l.split()
                    if lw[0] == "cb":
                        i, kind = int(lw[1]), lw[2]
                        if mine:
                            fail("hook-missing", "step %d: scripted operation %r did not run in its callback" % (step, mine[0]))
                        cur, cur_kind = i, kind
                        mine = [h for h in hooks if h[0] == i and h[1] == kind]
                        hooks = [h for h in hooks if not (h[0] == i and h[1] == kind)]
                        called.setdefault(i, []).append(kind)
                        rev = reported.get(str(i))
                        if rev is None:
                            fail("callback-not-reported", "step %d: `%s` but the kernel reported nothing for channel %d in this iteration" % (step, l, i))
                        elif not bits_ok(kind, rev):
                            fail("callback-wrong-bits", "step %d: `%s` but revents=%d has no bits for a %s callback" % (step, l, rev, kind))
                        elif not reg.get(i, False):
                            fail("callback-removed-channel", "step %d: `%s` on a channel that is not registered" % (step, l))
                        elif not subscribed(kind, ev.get(i, 0)):
                            fail("stale-callback", "step %d: `%s` but the channel's interest is %d now (it was %d when poll returned)" % (
                                step, l, ev.get(i, 0), ev_at_poll.get(i, 0)))
                    elif lw[0] in ("op", "reject"):
                        if not mine:
                            fail("trace", "step %d: unscripted operation line `%s` inside an iteration" % (step, l))
                        else:
                            h = mine.pop(0)
                            touched.add(h[2])
                            exec_op(h[2], h[3], True, cur, active, l)
                    if fails:
                        break
                if fails:
                    break
                if mine:
                    fail("hook-missing", "step %d: scripted operation %r did not run in its callback" % (step, mine[0]))
                # -- completeness: a reported, subscribed channel nobody touched during the dispatch gets exactly its callbacks
                for i in sorted(active):
                    if i in touched or not reg.get(i, False):
                        continue
                    rev = reported[str(i)]
                    want = [k for k in KINDS if bits_ok(k, rev) and subscribed(k, ev_at_poll.get(i, 0))]
                    if called.get(i, []) != want:
                        fail("missed-callback", "step %d: channel %d reported revents=%d with interest %d: callbacks %s, expected %s" % (
                            step, i, rev, ev_at_poll.get(i, 0), called.get(i, []), want))
                # -- all_served: pending input on subscribed channels is served within the doubling bound
                sure = set(i for i in reg if reg[i] and (ev.get(i, 0) & READ_EV) and pending_in.get(i) and i not in touched)
                if run is None:
                    run = {"need": set(sure), "count": 0, "size": 1 + sum(1 for i in reg if reg[i] and ev.get(i, 0) != 0)}
                run["count"] += 1
                run["need"] &= sure
                run["need"] -= set(i for i in called if "read" in called[i])
                bound = served_bound(run["size"], backend)
                if run["count"] >= bound and run["need"]:
                    fail("not-served", "step %d: %d channels with pending input and read interest were not called within %d iterations (e.g. %s)" % (
                        step, len(run["need"]), bound, sorted(run["need"])[:5]))
                if touched:
                    run = None
        return fails

    # ------------------------------------------------------------------ generators
    def random_case(self, rng, nchan, nsteps, hooks=True):
        lines = []
        kinds = {}
        for i in range(nchan):
            kinds[i] = rng.choice(["sock", "sock", "pipe", "pipew"])
            lines.append("chan %d %s" % (i, kinds[i]))
        ev = {i: 0 for i in range(nchan)}
        reg = {i: False for i in range(nchan)}
        cross = False
        for _ in range(nsteps):
            r = rng.random()
            i = rng.randrange(nchan)
            if r < 0.34:
                what = rng.choice(["enableR", "enableR", "enableW", "disableR", "disableW", "disableAll", "disableAll"])
                lines.append("op %d %s" % (i, what))
                ev[i] = UPDATES[what](ev[i])
                reg[i] = True
            elif r < 0.44:
                # removal, preferably legal; then often re-register / recreate (F14) or update again (F15)
                if reg[i] and ev[i] != 0 and rng.random() < 0.8:
                    lines.append("op %d disableAll" % i)
                    ev[i] = 0
                lines.append("op %d remove" % i)
                if reg[i] and ev[i] == 0:
                    reg[i] = False
                t = rng.random()
                if t < 0.3:
                    lines.append("op %d recreate" % i)
                if t < 0.6 and not reg[i]:
                    what = rng.choice(["enableR", "enableW"])
                    lines.append("op %d %s" % (i, what))
                    ev[i] = UPDATES[what](ev[i])
                    reg[i] = True
            elif r < 0.50:
                # a second update without interest (F15)
                if not reg[i]:
                    lines.append("op %d enableR" % i)
                lines.append("op %d disableAll" % i)
                lines.append("op %d %s" % (i, rng.choice(["disableAll", "disableR", "disableW"])))
                ev[i] = 0
                reg[i] = True
            elif r < 0.66:
                a = rng.choice(["write 1", "write 5", "consume", "fill", "drain", "shutWr", "close", "reset", "write 1", "consume"])
                lines.append("peer %d %s" % (i, a))
            elif r < 0.76 and hooks:
                j = rng.randrange(nchan)
                if rng.random() < 0.45:
                    j = i
                what = rng.choice(["enableR", "enableW", "disableR", "disableW", "disableAll", "disableAll", "remove"])
                if not reg[i] and what.startswith("disable"):
                    what = rng.choice(["enableR", "enableW"])
                lines.append("op %d %s in %d %s" % (i, what, j, rng.choice(["read", "read", "write", "close", "error"])))
                if i != j:
                    cross = True
                # the tracked interest is only a generation heuristic from here on
            else:
                lines.append("iter")
                if rng.random() < 0.3:
                    lines.append("iter")
        lines.append("iter")
        return lines, cross

    def burst_case(self, rng, n, backend_bound_extra=1):
        lines = []
        for i in range(n):
            lines.append("chan %d %s" % (i, rng.choice(["sock", "pipe"])))
        order = list(range(n))
        rng.shuffle(order)
        for i in order:
            lines.append("op %d enableR" % i)
        for i in order:
            lines.append("peer %d write 1" % i)
        k = served_bound(n + 1, "epoll") + backend_bound_extra
        lines += ["iter"] * k
        # remove a shuffled half (swap-with-last in every position), serve the rest again
        rng.shuffle(order)
        for i in order[: n // 2]:
            lines.append("op %d disableAll" % i)
            if rng.random() < 0.7:
                lines.append("op %d remove" % i)
        lines += ["iter"] * k
        return lines

    def swap_case(self, rng, rounds=None):
        """histories aimed at PollPoller's swap-with-last removal: several channels registered in a random order, the
        LAST array entry disabled but not removed (stored as -fd-1), an earlier entry removed (the disabled entry is
        moved into the hole), optionally another channel registered afterwards (it gets the slot one past the old end),
        then the moved channel is updated / removed and both are made ready"""
        n = rng.choice([2, 3, 3, 4, 5, 6])
        spare = rng.choice([1, 2, 3])
        lines = ["chan %d %s" % (i, rng.choice(["sock", "sock", "pipe"])) for i in range(n + spare)]
        kinds = {i: lines[i].split()[2] for i in range(n + spare)}
        order = list(range(n))
        rng.shuffle(order)
        arr, ev = [], {}
        free = list(range(n, n + spare))

        def enable(i):
            what = "enableW" if (kinds[i] == "sock" and rng.random() < 0.2) else "enableR"
            lines.append("op %d %s" % (i, what))
            ev[i] = UPDATES[what](ev.get(i, 0))
            if i not in arr:
                arr.append(i)

        for i in order:
            enable(i)
        if rng.random() < 0.3:
            lines.append("iter")
        for _ in range(rounds or rng.choice([1, 1, 2, 3])):
            if len(arr) < 2:
                if not free:
                    break
                enable(free.pop(0))
                continue
            last = arr[-1]
            if rng.random() < 0.85:
                # the last entry: without interest, still registered
                lines.append("op %d %s" % (last, "disableAll" if ev[last] != READ_EV or rng.random() < 0.7 else "disableR"))
                ev[last] = 0
            victim = rng.choice(arr[:-1]) if rng.random() < 0.9 else last
            if ev[victim] != 0:
                lines.append("op %d disableAll" % victim)
                ev[victim] = 0
            lines.append("op %d remove" % victim)
            k = arr.index(victim)
            arr[k] = arr[-1]
            arr.pop()
            if rng.random() < 0.2:
                lines.append("iter")
            fresh = None
            t = rng.random()
            if t < 0.55 and free:
                fresh = free.pop(0)
            elif t < 0.75:
                fresh = victim
                if rng.random() < 0.5:
                    lines.append("op %d recreate" % victim)
            if fresh is not None:
                enable(fresh)
            touched = [last] if last in arr else []
            if touched:
                t = rng.random()
                if t < 0.7:
                    enable(last)
                elif t < 0.85:
                    if ev[last] != 0:
                        lines.append("op %d disableAll" % last)
                        ev[last] = 0
                    lines.append("op %d remove" % last)
                    k = arr.index(last)
                    arr[k] = arr[-1]
                    arr.pop()
                else:
                    lines.append("op %d disableAll" % last)
                    ev[last] = 0
            for i in set(touched + ([fresh] if fresh is not None else []) + [rng.choice(arr)] if arr else []):
                lines.append("peer %d write 1" % i)
            lines.append("iter")
            if rng.random() < 0.5:
                lines.append("iter")
        lines.append("iter")
        return lines

    EXH_ALPHA = ["enableR", "disableR", "enableW", "disableW", "disableAll", "remove", "recreate"]

    def exhaustive_cases(self, depth, per_case=30):
        """every operation sequence of the given depth on a channel whose peer has closed (hang-up is reported
        whenever the descriptor is watched at all), an `iter` after every operation; a second channel sits behind
        it in the array; fresh channels per sequence, several sequences per process"""
        import itertools
        cases, cur, k, nseq = [], [], 0, 0
        for seq in itertools.product(self.EXH_ALPHA, repeat=depth):
            e, r, blind = 0, False, False
            for what in seq:
                if what in UPDATES:
                    e = UPDATES[what](e)
                    blind = blind or (not r and e == 0)
                    r = True
                elif what == "remove" and r and e == 0:
                    r = False
            a, b = k, k + 1
            k += 2
            cur += ["chan %d sock" % a, "chan %d pipe" % b, "peer %d close" % a, "op %d enableR" % b]
            for what in seq:
                cur += ["op %d %s" % (a, what), "iter"]
            # clean up (a channel that the sequence left unregistered is not touched: an update without interest
            # on it would be finding F21 and, asserts on, end the process before the remaining sequences)
            cur += (["op %d disableAll" % a, "op %d remove" % a] if r else []) + ["op %d disableAll" % b, "op %d remove" % b, "iter"]
            nseq += 1
            if nseq % per_case == 0:
                cases.append(cur)
                cur, k = [], 0
        if cur:
            cases.append(cur)
        return cases

    # ------------------------------------------------------------------ running
    def run_backend(self, ctx, exe, lines, backend, with_model=True):
        case = Case("poller", lines, meta={"argv": [backend]})
        impl, _ = ctx.run_impl(exe, case, timeout=300)
        fails = self.oracle(lines, impl, backend)
        mismatch = None
        if with_model and ctx.model_ok:
            rc, out, err = leanside.run_driver("poller", ctx.model_input(case, impl), timeout=300, args=[backend])
            model = split_blocks(out)
            if rc != 0:
                model.append(["<<driver exit %d>> %s" % (rc, err.strip()[:200])])
            # after an abort/fatal both sides stop; otherwise block for block
            impl_c = impl
            if self.flavour.endswith("ndebug"):
                # the model stops where an assertion of the code fails; a build without assertions goes on: the
                # comparison ends there (the asserts-on flavour reports that history: `abort` / F21 `blind-abort`)
                k = next((i for i, b in enumerate(model) if "abort" in b), None)
                if k is not None:
                    ctx.count("ndebug:failed-assertion-of-the-model-not-observable")
                    impl_c, model = impl[:k], model[:k]
            mismatch = ctx.compare(case, impl_c, model)
        return impl, fails, mismatch

    @staticmethod
    def normalise(impl, lines):
        """per `iter` step: (set of reported (chan, revents), sorted callbacks, watched map) - for the cross-back-end comparison"""
        ops = [l for l in lines if l.strip()]
        res = []
        for i, op in enumerate(ops):
            if op != "iter" or i >= len(impl):
                continue
            blk = impl[i]
            env = next((l for l in blk if l.startswith("< poll")), "< poll 0")
            rep = sorted(t for t in env.split()[3:] if not t.startswith("w:") and not t.startswith("t:"))
            cbs = sorted(l for l in blk if l.startswith("cb "))
            watch = next((l for l in blk if l.startswith("watch")), "watch")
            wm = sorted(t for t in watch.split()[1:] if not t.startswith("~"))
            res.append((i, rep, cbs, wm))
        return res

    def cross_compare(self, ctx, lines, impls):
        a, b = self.normalise(impls["epoll"], lines), self.normalise(impls["poll"], lines)
        for (i, rep_e, cb_e, w_e), (_, rep_p, cb_p, w_p) in zip(a, b):
            if w_e != w_p:
                return "step %d: epoll is asked to watch %s, poll %s" % (i, w_e[:10], w_p[:10])
            if rep_e == rep_p:
                ctx.count("cross_compared_iterations")
                if cb_e != cb_p:
                    return "step %d: same readiness %s, epoll callbacks %s, poll callbacks %s" % (i, rep_e[:8], cb_e[:8], cb_p[:8])
            else:
                ctx.count("cross_skipped_iterations(different kernel report)")
        return None

    def check_case(self, ctx, exes, lines, origin, cross=True, shrink=True, with_model=True):
        """run one history under both back-ends; returns True if something was reported"""
        impls = {}
        for be in BACKENDS:
            impl, fails, mismatch = self.run_backend(ctx, exes, lines, be, with_model=with_model)
            impls[be] = impl
            ncb = sum(1 for b in impl for l in b if l.startswith("cb "))
            for b in impl:
                for l in b:
                    if l.startswith("cb "):
                        ctx.count("cb:" + l.split()[2])
                    elif l.startswith("reject"):
                        ctx.count("rejected")
                    elif l.startswith("ctl "):
                        ctx.count("ctl:" + l.split()[1])
            ctx.record(Case("poller", lines, origin, {"argv": [be]}), impl, nontrivial=ncb > 0,
                       sample={"backend": be, "ops": lines[:10], "last": ([l for l in impl[-1] if l.startswith("st ")] or ["?"])[0] if impl else "?"})
            if fails and fails[0][0] in self.KNOWN_KINDS:
                # a known finding: report it once, keep exploring
                kind = fails[0][0]
                ctx.count("known:" + kind)
                if kind not in self.known_seen:
                    self.known_seen.add(kind)
                    self.known_failures.append((Case("poller", ["# backend=%s flavour=%s" % (be, self.flavour)] + lines, origin, {"argv": [be]}),
                                                kind, "[%s, %s] %s" % (be, self.flavour, fails[0][1])))
                continue
            if fails:
                kind = fails[0][0]
                small = lines
                if shrink:
                    def still(ls, be=be, kind=kind):
                        im, f, _ = self.run_backend(ctx, exes, ls, be, with_model=False)
                        return bool(f) and f[0][0] == kind
                    small = ddmin(lines, still, budget=250)
                    im, f, _ = self.run_backend(ctx, exes, small, be, with_model=False)
                    desc = f[0][1] if f else fails[0][1]
                else:
                    desc = fails[0][1]
                ctx.oracle_failures.append((Case("poller", ["# backend=%s flavour=%s" % (be, self.flavour)] + small, origin, {"argv": [be]}),
                                            kind, "[%s, %s] %s" % (be, self.flavour, desc)))
                return True
            if mismatch:
                small = lines
                if shrink:
                    def still2(ls, be=be):
                        _, f, mm = self.run_backend(ctx, exes, ls, be)
                        return mm is not None and not f
                    small = ddmin(lines, still2, budget=120)
                    _, _, mm = self.run_backend(ctx, exes, small, be)
                    mismatch = mm or mismatch
                # the model and the implementation disagree while the oracle still accepts the trace: look for a
                # continuation of this very history on which the implementation violates the property (DESIGN 2.5)
                if self.extend_divergence(ctx, exes, small, be, cross):
                    return True
                ctx.mismatches.append((Case("poller", ["# backend=%s flavour=%s" % (be, self.flavour)] + small, origin, {"argv": [be]}),
                                       "[%s, %s] %s" % (be, self.flavour, mismatch)))
                return True
        if cross:
            d = self.cross_compare(ctx, lines, impls)
            if d:
                small = lines
                if shrink:
                    def still3(ls):
                        ims = {be: self.run_backend(ctx, exes, ls, be, with_model=False)[0] for be in BACKENDS}
                        return self.cross_compare(ctx, ls, ims) is not None
                    small = ddmin(lines, still3, budget=200)
                    ims = {be: self.run_backend(ctx, exes, small, be, with_model=False)[0] for be in BACKENDS}
                    d = self.cross_compare(ctx, small, ims) or d
                ctx.oracle_failures.append((Case("poller", ["# both back-ends, flavour=%s" % self.flavour] + small, origin), "backends-differ",
                                            "[%s] %s" % (self.flavour, d)))
                return True
        return False

    def diverging_channels(self, ctx, exes, lines, be):
        """channels named in the first block where model and implementation differ (tokens `c:v`, `op c ..`, `cb c ..`)"""
        case = Case("poller", lines, meta={"argv": [be]})
        impl, _ = ctx.run_impl(exes, case, timeout=300)
        rc, out, err = leanside.run_driver("poller", ctx.model_input(case, impl), timeout=300, args=[be])
        model = split_blocks(out)
        chans = []
        for i in range(min(len(impl), len(model))):
            a, b = ctx.observable(impl[i]), ctx.observable(model[i])
            if a == b:
                continue
            ta = set(t for l in a for t in l.split())
            tb = set(t for l in b for t in l.split())
            for t in sorted(ta ^ tb):
                m = re.match(r"~?(\d+):-?\d+$", t)
                if m and int(m.group(1)) not in chans:
                    chans.append(int(m.group(1)))
            for l in a + b:
                w = l.split()
                if len(w) >= 2 and w[0] in ("op", "cb", "reject") and w[1].isdigit() and (l not in a or l not in b) and int(w[1]) not in chans:
                    chans.append(int(w[1]))
            break
        return chans

    def extend_divergence(self, ctx, exes, lines, be, cross):
        """the history `lines` makes the model and the implementation differ without violating the property yet
        (typically internal state: a slot number): continue it with operations on the channels of the diverging
        line - update / remove them, register another channel in between, make them ready, iterate - and evaluate the
        oracle alone on every continuation.  True when a concrete failing input was reported."""
        declared = [int(l.split()[1]) for l in lines if l.startswith("chan ")]
        if not declared:
            return False
        involved = self.diverging_channels(ctx, exes, lines, be)[:3] or declared[:3]
        reg, ev = {}, {}
        for l in lines:
            w = l.split()
            if w[0] == "op" and len(w) == 3:
                i = int(w[1])
                if w[2] in UPDATES:
                    ev[i] = UPDATES[w[2]](ev.get(i, 0))
                    reg[i] = True
                elif w[2] == "remove" and reg.get(i) and ev.get(i, 0) == 0:
                    reg[i] = False
        base = list(lines)
        while base and base[-1] == "iter":
            base.pop()
        fresh = max(declared) + 1
        unreg = [i for i in declared if not reg.get(i)][:1]
        tails = []
        for c in involved:
            for other in [None, "fresh"] + unreg:
                pre, d = [], None
                if other == "fresh":
                    pre, d = ["chan %d sock" % fresh, "op %d enableR" % fresh], fresh
                elif other is not None and other != c:
                    pre, d = ["op %d enableR" % other], other
                for touch in ("enableR", "enableW", "disableAll", "remove"):
                    t = list(pre)
                    if touch == "remove":
                        if not reg.get(c):
                            continue
                        if ev.get(c, 0) != 0:
                            t.append("op %d disableAll" % c)
                    t.append("op %d %s" % (c, touch))
                    t += ["peer %d write 1" % c] + (["peer %d write 1" % d] if d is not None else []) + ["iter", "iter"]
                    tails.append(t)
        # the difference may be the size of EPollPoller's result array (`wait <size>` / `grow`): many more descriptors
        # become ready at once, for as many iterations as the doubling bound allows (evsize_growth,
        # all_ready_called_epoll_bound) - first, because a handful of these decide the question
        bursts = []
        for m in (24, 48, 96):
            ids = list(range(fresh, fresh + m))
            t = ["chan %d %s" % (i, "sock" if i % 2 else "pipe") for i in ids] + ["op %d enableR" % i for i in ids]
            t += ["peer %d write 1" % i for i in ids]
            bursts.append(t + ["iter"] * (served_bound(m + len(declared) + 1, "epoll") + 1))
        tails = bursts + tails
        for k in range(40 if ctx.quick() else 150):
            # random continuations on the involved channels and their neighbours
            pool = list(dict.fromkeys(involved + declared[:4]))
            t = []
            if ctx.rng.random() < 0.5:
                t += ["chan %d sock" % fresh, "op %d enableR" % fresh, "peer %d write 1" % fresh]
            for _ in range(ctx.rng.randrange(1, 8)):
                i = ctx.rng.choice(pool)
                r = ctx.rng.random()
                if r < 0.5:
                    t.append("op %d %s" % (i, ctx.rng.choice(["enableR", "enableR", "enableW", "disableAll"])))
                elif r < 0.65:
                    t += ["op %d disableAll" % i, "op %d remove" % i]
                elif r < 0.85:
                    t.append("peer %d write 1" % i)
                else:
                    t.append("iter")
            tails.append(t + ["iter", "iter"])
        ctx.count("divergence_extensions", len(tails))
        for t in tails:
            if self.check_case(ctx, exes, base + t, "search:continuation-of-divergence", cross=cross, with_model=False):
                return True
        return False

    def enough(self, ctx):
        """one concrete violation ends the exploration; disagreements with the model alone do not end a search"""
        if ctx.oracle_failures:
            return True
        return len(ctx.mismatches) >= (6 if ctx.search_mode else 2)

    flavour = "dbg"
    KNOWN_KINDS = ()   # F21 (blind-watch/-spin/-abort) is repaired: these oracle kinds are ordinary violations again

    @staticmethod
    def read_case(path):
        with open(path) as f:
            raw = [l.rstrip("\n") for l in f]
        lines = [l for l in raw if l.strip() and not l.startswith("#") and not l.startswith("engine=")]
        cross = not any(l.startswith("# order-sensitive") for l in raw)
        return lines, cross

    def correspondence(self, ctx, replay=None):
        self.known_seen, self.known_failures = set(), []
        try:
            self.correspondence_(ctx, replay)
        finally:
            # known findings are reported (KNOWN-FINDING lines) without hiding other violations
            ctx.oracle_failures += self.known_failures

    def correspondence_(self, ctx, replay=None):
        flavours = (["dbg", "ndebug"] if ctx.search_mode else ["dbg"]) if ctx.quick() else ["dbg", "ndebug", "asan-ndebug"]
        ctx.extra["flavours"] = flavours
        ctx.extra["pollers"] = list(BACKENDS)
        if replay:
            lines, cross = self.read_case(replay)
            for fl in flavours:
                self.flavour = fl
                exe = ctx.exe("poller_drv", fl)
                for be in BACKENDS:
                    impl, fails, mismatch = self.run_backend(ctx, exe, lines, be)
                    print("== %s %s: oracle %s; model %s" % (fl, be, fails[:1] or "ok", mismatch or "agrees"))
                    ops = [l for l in lines if l.strip()]
                    for i, b in enumerate(impl):
                        print("  %-28s %s" % (ops[i] if i < len(ops) else "?", " | ".join(b)[:400]))
                self.check_case(ctx, exe, lines, "replay", cross=cross, shrink=False)
            return
        for fl in flavours:
            self.flavour = fl
            exe = ctx.exe("poller_drv", fl)
            first = fl == flavours[0]
            # corpus first
            for p in sorted(glob.glob(os.path.join(CORPUS, "C09", "*.case"))):
                lines, cross = self.read_case(p)
                ctx.count("corpus_cases")
                if self.check_case(ctx, exe, lines, "corpus:" + os.path.basename(p), cross=cross) and self.enough(ctx):
                    return
            thorough = (not ctx.quick()) or ctx.search_mode
            # removals that move a disabled last entry of PollPoller's array, then updates of the moved channel
            for k in range((400 if first else 150) if thorough else 60):
                ctx.count("swap_cases")
                if self.check_case(ctx, exe, self.swap_case(ctx.rng), "swap-with-last") and self.enough(ctx):
                    return
            # exhaustive small depth (on the first flavour; depth 3 in the other flavours of the thorough tier)
            depth = (4 if first else 3) if thorough else 3
            cases = self.exhaustive_cases(depth)
            if first:
                ctx.extra["exhaustive_part"] = {"depth": depth, "alphabet": len(self.EXH_ALPHA), "sequences": len(self.EXH_ALPHA) ** depth,
                                                "processes": len(cases)}
            for ls in cases:
                if self.check_case(ctx, exe, ls, "exhaustive-depth-%d" % depth) and self.enough(ctx):
                    return
            # bursts of simultaneously ready descriptors around the array sizes
            sizes = [1, 14, 15, 16, 17, 33, 70] if not thorough else [1, 2, 14, 15, 16, 17, 30, 31, 32, 33, 47, 48, 49, 64, 100, 111, 112, 113, 200, 300]
            if not first:
                sizes = [15, 16, 47, 300]
            for n in sizes:
                ctx.count("burst_cases")
                if self.check_case(ctx, exe, self.burst_case(ctx.rng, n), "burst-%d" % n) and self.enough(ctx):
                    return
            # random histories
            nrand = (1500 if first else 400) if thorough else 220
            for k in range(nrand):
                big = k % 10 == 0
                nchan = ctx.rng.choice([1, 2, 3, 4, 6, 9]) if not big else ctx.rng.choice([12, 20, 40])
                lines, cross_sensitive = self.random_case(ctx.rng, nchan, ctx.rng.randrange(10, 60 if not big else 160), hooks=(k % 3 != 0))
                ctx.count("random_cases")
                if cross_sensitive:
                    ctx.count("order_sensitive_cases")
                if self.check_case(ctx, exe, lines, "random", cross=not cross_sensitive) and self.enough(ctx):
                    return


PROP = Prop()
