"""C11 - transient socket faults delay service but never corrupt, wedge or leak.

Theorems: lean/MuduoVerif/Props/C11.lean (errno classifications by evaluation of the T1 tables; what each fault
does to a connection for every state; `fault_cost`; the C01/C02/C13 guarantees restated over `pre ++ faults ++ post`;
the listener model: descriptor accounting, the EMFILE branch, silence / obliviousness / resumption).

Correspondence, three engines, all with faults injected at the socket boundary by link-level interposition:
  conn      harness/conn_drv.cc      real TcpConnection on a socketpair   vs drv_conn      (write / readv / poll faults)
  client    harness/client_drv.cc    real TcpClient + Connector            vs drv_client    (connect / SO_ERROR / poll faults)
  acceptor  harness/acceptor_drv.cc  real Acceptor on 127.0.0.1:<kernel>   vs drv_acceptor  (accept / poll faults, real EMFILE
                                                                                             through RLIMIT_NOFILE)
The oracles below are evaluated on the implementation's own trace and never consult the model."""
import glob
import itertools
import os

from .. import conn_oracle
from ..common import CORPUS
from ..conn_common import ConnProp, parse_bytes, random_case as conn_random_case
from ..runner import Case, ddmin, split_blocks
from . import c12
from ._conn_texts import ASSUME as CONN_ASSUME, TRUSTED as CONN_TRUSTED

# =====================================================================================================================
# part 1: connection engine

W_FAULTS = ["EAGAIN", "EINTR", "1"]        # write: would block, interrupted, short count
R_FAULTS = ["EAGAIN", "EINTR", "1"]        # readv: the same


def fault_combos(maxlen):
    """fault sequences up to `maxlen` at one position, up to the order between the three independent injection
    sites: (write sequence, readv sequence, number of interrupted polls)"""
    res = []
    for a in range(maxlen + 1):
        for b in range(maxlen + 1 - a):
            for c in range(maxlen + 1 - a - b):
                if a + b + c == 0:
                    continue
                for ws in itertools.product(W_FAULTS, repeat=a):
                    for rs in itertools.product(R_FAULTS, repeat=b):
                        res.append((list(ws), list(rs), c))
    return res


CONN_BASES = {
    # request / response: the message callback answers, a later send, a second message
    "echo": ["config 1 1 65536", "hook msg send g:11:300 piece", "establish", "peerWrite g:1:200", "iter", "iter",
             "peerWrite g:3:100", "act L send g:4:100 piece", "iter", "act F send g:5:50 ptr", "iter", "iter"],
    # bulk send with a backlog: the kernel takes 1000 bytes, the rest drains later; sends from two threads pile up
    "bulk": ["config 1 1 4096", "establish", "script write 1000", "act L send g:7:9000 piece", "act F send g:8:3000 buf",
             "act L send g:9:10 piece", "iter", "iter", "act L send g:10:10 piece", "iter", "iter"],
    # half-close with a backlog: FIN only after the data; the peer answers and closes
    "halfclose": ["config 1 1 65536", "establish", "script write 10", "act L send g:1:5000 piece", "act L shutdown",
                  "iter", "iter", "iter", "peerWrite g:2:50", "iter", "peerClose", "iter", "iter", "iter"],
}


def inject(base, pos, combo):
    ws, rs, np = combo
    ins = []
    if ws:
        ins.append("script write " + " ".join(ws))
    if rs:
        ins.append("script readv " + " ".join(rs))
    if np:
        ins.append("script poll " + " ".join(["EINTR"] * np))
    return base[:pos] + ins + base[pos:] + ["iter"] * (len(ws) + len(rs) + np + 2)


def conn_positions(base):
    e = base.index("establish")
    return list(range(e + 1, len(base) + 1))


def dense_conn_case(rng):
    """a random history of the connection engine with faults at about every third position"""
    lines = conn_random_case(rng, maxlen=30, faults=True, foreign=True, closes=rng.random() < 0.5)
    out = []
    for l in lines:
        if out and l.split()[0] in ("iter", "act", "peerWrite") and rng.random() < 0.35:
            k = rng.random()
            n = rng.choice([1, 1, 2, 3])
            if k < 0.45:
                out.append("script write " + " ".join(rng.choice(W_FAULTS + ["EAGAIN", str(rng.choice([2, 7, 100, 4096]))]) for _ in range(n)))
            elif k < 0.8:
                out.append("script readv " + " ".join(rng.choice(R_FAULTS + [str(rng.choice([2, 3, 100]))]) for _ in range(n)))
            else:
                out.append("script poll " + " ".join(["EINTR"] * n))
        out.append(l)
    return out + ["iter"] * 4


def _script_used_up(o, site):
    """step after which every scripted result of `site` (write / readv) has been consumed by a call (the script is a
    FIFO that calls consume one entry each), or None"""
    q, done_at = 0, None
    last_script = max([i for i, op in enumerate(o.ops) if op.startswith("script " + site)] + [-1])
    if last_script < 0:
        return -1
    for i in range(o.n):
        if o.ops[i].startswith("script " + site):
            q += len(o.ops[i].split()) - 2
        for _ in o.env(i, site):
            if q > 0:
                q -= 1
        if done_at is None and i >= last_script and q == 0:
            done_at = i
    return done_at


def resume_oracle(o):
    """C11 `resume`: once the injected faults are used up, the very next iteration makes the progress a fault-free
    run makes: the whole backlog reaches the peer, everything the peer wrote is delivered"""
    fails = []
    if o.crash or o.n == 0:
        return fails
    cut, _ = conn_oracle.cut_step(o)
    st = o.st[o.n - 1]
    if cut is not None or not st or st.get("state") not in ("C", "X"):
        return fails
    if any(w[3] in conn_oracle.FATAL for i in range(o.n) for w in o.env(i, "write")):
        return fails
    # write side: position where the scripted write results are used up
    done_at = _script_used_up(o, "write")
    last_act = max([a.step for a in o.acts] + [0])
    if done_at is not None:
        start = max(done_at, last_act)
        its = [i for i in range(start + 1, o.n) if o.ops[i] == "iter" and not any(l == "# poll EINTR" for l in o.blocks[i])]
        if len(its) >= 2:
            L, F, _ = conn_oracle.classify_sends(o)
            total = sum(len(d) for _, d in L + F)
            if int(st["backlog"]) != 0 or len(o.received[-1]) != total:
                fails.append(("no-resume-write", "the injected write faults were used up at step %d; %d fault-free iterations later "
                              "%s bytes are still buffered and the peer has %d of %d bytes" % (done_at, len(its), st["backlog"], len(o.received[-1]), total)))
    # read side
    if not any(a.name in ("stopRead", "startRead") for a in o.acts) and not any(op.startswith("hook") and "stopRead" in op for op in o.ops):
        done_at = _script_used_up(o, "readv")
        wrote, got = 0, 0
        for i in range(o.n):
            pending_before = wrote - got
            for pw in o.env(i, "peerWrote"):
                wrote += int(pw[2])
            got_here = sum(int(r[2]) for r in o.env(i, "readv") if r[2].isdigit())
            got += got_here
            # a fault-free iteration after the scripted read results are used up, with unread bytes waiting: it must read
            if done_at is not None and i > done_at and o.ops[i] == "iter" and not any(l == "# poll EINTR" for l in o.blocks[i]) \
                    and pending_before > 0 and got_here == 0:
                fails.append(("no-resume-read", "the injected read faults were used up at step %d; the fault-free iteration at step %d "
                              "read nothing although %d bytes the peer wrote are waiting" % (done_at, i, pending_before)))
                break
    return fails


def down_cause_oracle(o):
    """C11: a transient fault never takes a connection down: DOWN needs a cause - the peer closed or half-closed
    (read returned 0 / hang-up reported), the user forced a close, the owner destroyed the connection, or a write
    failed with EPIPE/ECONNRESET"""
    fails = []
    cause = False
    for i in range(len(o.blocks)):
        if i < o.n:
            w = o.ops[i].split()
            if w[0] in ("peerClose", "peerShutWr", "ownerDestroy", "peerReset"):
                cause = True
        for a in o.acts:
            if a.step == i and a.name in ("forceClose", "forceCloseDelay"):
                cause = True
        if i < o.n:
            for r in o.env(i, "readv"):
                if r[2] == "0":
                    cause = True
            for r in o.env(i, "write"):
                if r[3] in conn_oracle.FATAL:
                    cause = True
        for l in o.events(i):
            if l.startswith("abort") or l.startswith("uaf"):
                return fails
            if l == "cb DOWN" and not cause:
                faults = [" ".join(x[1:]) for x in (o.env(i, "write") + o.env(i, "readv")) if not x[-1].lstrip("-").isdigit()]
                fails.append(("down-without-cause", "step %d `%s`: the connection went down although the peer did not close, nobody "
                              "forced a close and no fatal write error occurred (faults in this step: %s)" % (i, o.ops[i] if i < o.n else "?", faults or "none")))
                return fails
    return fails


class ConnPart(ConnProp):
    id = "C11"
    oracles = [conn_oracle.stream_oracle, conn_oracle.read_oracle, conn_oracle.updown_oracle, conn_oracle.callback_oracle,
               conn_oracle.spin_oracle, resume_oracle, down_cause_oracle]


CONN = ConnPart()


# =====================================================================================================================
# part 2: client engine (connect faults)

C_RETRY = ["ECONNREFUSED", "ENETUNREACH", "EAGAIN", "EADDRINUSE", "EADDRNOTAVAIL"]
C_PROCEED = ["EINPROGRESS", "EINTR", "EISCONN"]
# a fault of the client engine: the attempt fails at once with a retry-class errno, or proceeds and fails later
# (SO_ERROR) - both must lead to a scheduled retry
CLIENT_FAULTS = [("R", e) for e in C_RETRY] + [("P", e) for e in C_PROCEED]


def client_case(seq, poll_eintr_at=(), final="ok", who="L"):
    """connect-retry scenario: the attempts fail as `seq` says, then one succeeds.  `poll_eintr_at`: indexes of
    attempts whose first following iteration is hit by an interrupted poll"""
    toks, soerr = [], []
    for kind, e in seq:
        toks.append(c12.tok(e))
        if kind == "P":
            soerr.append("ECONNREFUSED")
    toks.append(c12.tok(final) if final != "ok" else "ok")
    soerr.append("0")
    lines = ["script connect " + " ".join(toks), "script soerr " + " ".join(soerr), "connect " + who, "iter"]
    for i, (kind, e) in enumerate(seq):
        if kind == "P":
            # the attempt is in progress: the next iteration reports writability and SO_ERROR
            if i in poll_eintr_at:
                lines += ["script poll EINTR", "iter"]
            lines.append("iter")
        lines.append("advance %d" % (c12.spec_delay_ms(i) * 1000))
        if i in poll_eintr_at and kind == "R":
            lines += ["script poll EINTR", "iter"]
        lines += ["iter", "iter"]
    lines += ["iter", "iter"]
    return lines


def client_fault_oracle(lines, blocks):
    """C11 on the client's trace: no abort; every failed attempt's socket is closed exactly once and a retry is
    scheduled; descriptors in use = sockets open or handed over; the attempt that succeeds reports UP once; an
    interrupted poll changes nothing"""
    tr = c12.Trace(lines, blocks)
    fails = []
    socks = {}
    ups = 0
    n_attempts = 0
    for i, s in enumerate(tr.steps):
        eintr = i < len(blocks) and any(l == "# poll EINTR" for l in blocks[i])
        for e in s["events"]:
            t = e.split()
            if e.startswith("abort "):
                fails.append(("client-abort", "step %d `%s`: %s" % (i, s["op"], e)))
                return fails
            if eintr:
                fails.append(("eintr-not-silent", "step %d: the poll call was interrupted, yet `%s` happened" % (i, e)))
                return fails
            if e.startswith("sock created"):
                socks[int(t[2])] = "open"
            elif e.startswith("attempt "):
                n_attempts += 1
            elif e.startswith("sock closed"):
                if socks.get(int(t[2])) != "open":
                    fails.append(("client-socket-closed-%s" % socks.get(int(t[2]), "unknown"), "step %d: %s" % (i, e)))
                socks[int(t[2])] = "closed"
            elif e.startswith("sock handedOver"):
                if socks.get(int(t[2])) != "open":
                    fails.append(("client-socket-handed-%s" % socks.get(int(t[2]), "unknown"), "step %d: %s" % (i, e)))
                socks[int(t[2])] = "handed"
            elif e.startswith("cb UP"):
                ups += 1
        st = s["st"]
        if st is not None:
            n_open = sum(1 for v in socks.values() if v in ("open", "handed"))
            if int(st.get("fds", "0")) != n_open:
                fails.append(("client-fd-population", "step %d `%s`: %s descriptors open, %d accounted for" % (i, s["op"], st.get("fds"), n_open)))
            failed_here = [e for e in s["events"] if e.startswith("sock closed")]
            if failed_here and st.get("alarm") in (None, "-") and not any(e.startswith("attempt") for e in s["events"][s["events"].index(failed_here[-1]):]):
                fails.append(("client-no-retry", "step %d `%s`: the attempt failed with a transient error and no retry is scheduled" % (i, s["op"])))
    if tr.crash:
        fails.append(("crash", "step %d: %s" % tr.crash))
        return fails
    want = sum(len(l.split()) - 2 for l in lines if l.startswith("script connect"))
    if not fails and lines and lines[-2:] == ["iter", "iter"]:
        if ups != 1:
            fails.append(("client-no-resume", "%d faulty attempts followed by a good one: UP was reported %d times" % (want - 1, ups)))
        elif n_attempts != want:
            fails.append(("client-attempts", "%d attempts were made, the script provides for %d" % (n_attempts, want)))
        if sum(1 for v in socks.values() if v == "open") != 0:
            fails.append(("client-socket-leak", "a socket of a failed attempt was never closed"))
    return fails


# =====================================================================================================================
# part 3: acceptor engine

A_SILENT = ["EAGAIN", "ECONNABORTED", "EINTR"]
A_FAULTS = A_SILENT + ["EMFILE"]
EXPECTED = set(A_FAULTS) | {"E71", "E1"}      # + EPROTO, EPERM: also "expected errors" of sockets::accept

ACC_BASE = ["config 1", "listen", "client", "client", "iter", "client", "iter", "iter", "userClose 1", "client", "iter", "iter"]


def acc_inject(base, pos, seq):
    acc = [t for t in seq if t != "pEINTR"]
    ins = []
    if acc:
        ins.append("script accept " + " ".join(acc))
    np = len(seq) - len(acc)
    if np:
        ins.append("script poll " + " ".join(["EINTR"] * np))
    return base[:pos] + ins + base[pos:] + ["iter"] * (len(seq) + 5)


def acc_random_case(rng):
    lines = ["config %d" % (1 if rng.random() < 0.8 else 0), "listen"]
    nclients, nfaults = 0, 0
    for _ in range(rng.randrange(4, 28)):
        k = rng.random()
        if k < 0.30:
            lines.append("client")
            nclients += 1
        elif k < 0.62:
            lines.append("iter")
        elif k < 0.80:
            n = rng.choice([1, 1, 2, 3])
            toks = []
            for _ in range(n):
                t = rng.choice(A_FAULTS + ["EMFILE", "EAGAIN"])
                toks.append(t)
                if t == "EMFILE" and rng.random() < 0.25:
                    toks.append(rng.choice(["EAGAIN", "ok", "EINTR"]))   # what the raw accept of the EMFILE branch returns
            lines.append("script accept " + " ".join(toks))
            nfaults += len(toks)
        elif k < 0.86:
            lines.append("script poll EINTR")
            nfaults += 1
        elif k < 0.92 and nclients:
            lines.append("userClose %d" % rng.randrange(1, nclients + 1))
        elif k < 0.95 and nclients:
            lines.append("clientClose %d" % rng.randrange(1, nclients + 1))
        elif k < 0.97:
            lines.append("config %d" % rng.choice([0, 1]))
        else:
            lines.append("iter")
    lines += ["iter"] * (nclients + nfaults + 2)
    if rng.random() < 0.3:
        lines += ["destroy", "iter"]
    return lines


def acc_real_emfile_case(rng):
    """descriptor exhaustion produced for real: RLIMIT_NOFILE is lowered to the lowest free descriptor"""
    n = rng.randrange(1, 5)
    lines = ["config %d" % rng.choice([1, 1, 0]), "listen"]
    pre = rng.randrange(0, 2)
    lines += ["client", "iter"] * pre
    lines += ["client"] * n + ["limit"] + ["iter"] * (n + 2) + ["unlimit", "client", "iter", "iter"]
    return lines


class AccTrace:
    def __init__(self, lines, blocks):
        self.ops = [l for l in lines if l.strip()]
        self.blocks = blocks
        self.crash = None
        self.steps = []
        for i, b in enumerate(blocks):
            ev, env, st, it, clients, eintr = [], [], None, None, None, False
            for l in b:
                if l.startswith("<<"):
                    self.crash = (i, l)
                elif l.startswith("< "):
                    env.append(l[2:])
                elif l.startswith("st "):
                    st = dict(kv.split("=", 1) for kv in l.split()[1:])
                elif l.startswith("# it "):
                    it = int(l.split()[2])
                elif l.startswith("# clients"):
                    clients = dict(t.split(":") for t in l.split()[2:])
                elif l == "# poll EINTR":
                    eintr = True
                elif not l.startswith("#"):
                    ev.append(l)
            self.steps.append({"op": self.ops[i] if i < len(self.ops) else "?", "events": ev, "env": env, "st": st,
                               "it": it, "clients": clients, "eintr": eintr})


def acceptor_oracle(lines, blocks):
    tr = AccTrace(lines, blocks)
    fails = []

    def fail(kind, i, text):
        fails.append((kind, "step %d `%s`: %s" % (i, tr.steps[i]["op"], text)))

    scripted = [t for l in tr.ops if l.startswith("script accept") for t in l.split()[2:]]
    in_scope = all(t in EXPECTED or t == "ok" for t in scripted)
    has_cb, alive, listening = True, True, False
    open_conn = {}       # k -> "held" | "acc" (accepted, not yet handed or closed)
    idle_open = True
    iters = 0
    n_clients_ok = 0     # successfully connected clients, in order: the k-th accepted connection is the k-th of them
    client_of = {}       # k -> j
    connected = []       # j of successfully connected clients
    closed_conn = set()
    accepted = 0
    client_addr = {}     # j -> `ip:port` the harness's client socket got from the kernel (getsockname after connect)
    claimed = {}         # client address -> k of the connection whose callback was given it as peer address
    for i, s in enumerate(tr.steps):
        w = s["op"].split()
        evs = s["events"]
        if w[0] == "config":
            has_cb = w[1] == "1"
        elif w[0] == "listen":
            listening = alive
        elif w[0] == "destroy":
            if alive:
                alive, listening = False, False
        elif w[0] == "client":
            j = len([x for x in tr.ops[:i + 1] if x == "client"])
            if not any(l.startswith("# client failed") for l in blocks[i]):
                connected.append(j)
            for l in blocks[i]:
                t = l.split()
                if l.startswith("# client ") and len(t) == 5 and t[3] == "local":
                    client_addr[int(t[2])] = t[4]
        # ---- the peer address handed to the new-connection callback (Socket::accept / sockets::accept fill it in)
        for l in (blocks[i] if i < len(blocks) else []):
            t = l.split()
            if not (l.startswith("# peer ") and len(t) == 6 and t[4] == "kernel"):
                continue
            k, given, kernel = t[2], t[3], t[5]
            if kernel != "?" and given != kernel:
                fail("accept-peer-address", i, "the callback of connection %s was given the peer address %s, the kernel says the peer of that "
                     "descriptor is %s" % (k, given, kernel))
            elif given not in client_addr.values():
                fail("accept-peer-address", i, "the callback of connection %s was given the peer address %s, which is the local address of "
                     "none of the clients that connected (%s)" % (k, given, " ".join(sorted(client_addr.values())) or "none"))
            elif given in claimed and int(claimed[given]) in open_conn:       # (a closed connection's port may be reused)
                fail("accept-peer-address", i, "connections %s and %s were both given the peer address %s" % (claimed[given], k, given))
            else:
                claimed[given] = k
        if w[0] == "iter":
            iters += 1
        if s["it"] is not None and s["it"] != iters:
            fail("iteration-count", i, "EventLoop::iteration() is %d after %d `iter` steps (the loop spins or has exited)" % (s["it"], iters))
            return fails
        for e in evs:
            if e.startswith("abort"):
                if in_scope:
                    fail("acceptor-abort", i, "the process aborted (%s) although only expected accept errors occurred" % e)
                return fails
        acc_env = [e.split()[1] for e in s["env"] if e.startswith("accept ")]
        poll_listen = any(e.startswith("poll") and "listen" in e.split()[1:] for e in s["env"])
        if s["eintr"] and (evs or acc_env):
            fail("eintr-not-silent", i, "the poll call was interrupted, yet %r happened" % (evs + acc_env))
        # ---- what must happen in this step, from the results accept returned
        exp = []
        if w[0] == "iter" and acc_env:
            r0 = acc_env[0]
            if r0 == "ok":
                k = accepted + 1
                exp = ["accepted %d" % k, ("cb newConn %d" % k) if has_cb else ("closed %d" % k)]
                if len(acc_env) > 1:
                    fail("accept-twice", i, "a second accept call after a successful one: %r" % acc_env)
            elif r0 == "EMFILE":
                if len(acc_env) < 2:
                    fail("emfile-left-pending", i, "accept failed for lack of descriptors and the pending connection was not taken and "
                         "closed: the level-triggered listening socket stays readable and the loop spins")
                    return fails
                if acc_env[1] == "ok":
                    k = accepted + 1
                    exp = ["idle closed", "accepted %d" % k, "closed %d" % k, "idle opened"]
                else:
                    exp = ["idle closed", "idle opened"]
            elif r0 in EXPECTED:
                exp = []
                if len(acc_env) > 1:
                    fail("accept-twice", i, "accept was called again after %s in one iteration: %r" % (r0, acc_env))
        if w[0] == "iter" and poll_listen and not acc_env and listening:
            fail("readable-not-accepted", i, "the listening socket was reported readable and accept was not called")
        if w[0] == "iter" and in_scope and evs != exp and not fails:
            fail("accept-events", i, "accept returned %r (callback %s): expected %r, the implementation did %r" % (acc_env, "set" if has_cb else "unset", exp, evs))
        # ---- descriptor accounting from the events
        for e in evs:
            t = e.split()
            if e.startswith("accepted "):
                accepted += 1
                k = int(t[1])
                if k != accepted:
                    fail("accept-order", i, e)
                open_conn[k] = "acc"
                if len(client_of) < len(connected):
                    client_of[k] = connected[len(client_of)]
            elif e.startswith("cb newConn "):
                if open_conn.get(int(t[2])) != "acc":
                    fail("callback-on-%s" % open_conn.get(int(t[2]), "unknown"), i, e)
                open_conn[int(t[2])] = "held"
            elif e.startswith("closed ") or e.startswith("user closed "):
                k = int(t[-1])
                if k not in open_conn:
                    fail("double-close", i, e)
                open_conn.pop(k, None)
                closed_conn.add(k)
            elif e == "idle closed":
                if not idle_open:
                    fail("idle-double-close", i, e)
                idle_open = False
            elif e == "idle opened":
                if idle_open:
                    fail("idle-leak", i, "the spare descriptor was re-opened while the old one is still open")
                idle_open = True
            elif e == "stale close":
                fail("stale-close", i, "close() on a descriptor number the acceptor no longer owns")
            elif e.startswith("idle open failed"):
                fail("idle-open-failed", i, e)
        leftover = [k for k, v in open_conn.items() if v == "acc"]
        if leftover and in_scope:
            fail("accepted-descriptor-leak", i, "connection %s was accepted and neither handed to the callback nor closed" % leftover)
        st = s["st"]
        if st is not None:
            want = (1 if alive else 0) + (1 if idle_open else 0) + len(open_conn)
            if int(st["fds"]) != want:
                fail("fd-population", i, "%s descriptors are open beyond the baseline, the events account for %d" % (st["fds"], want))
            if int(st["listening"]) != (1 if listening else 0):
                fail("listening", i, "listening() is %s, expected %d" % (st["listening"], 1 if listening else 0))
        # ---- the clients' view
        if s["clients"] is not None and in_scope:
            for k, j in client_of.items():
                state = s["clients"].get(str(j))
                if state == "closed":
                    continue
                if k in closed_conn and state not in ("eof", "rst"):
                    fail("client-not-closed", i, "connection %d (client %d) was closed by the server side, the client sees `%s`" % (k, j, state))
                if open_conn.get(k) == "held" and state != "open":
                    fail("client-cut", i, "connection %d (client %d) is held by the callback's owner, the client sees `%s`" % (k, j, state))
            for j in connected[len(client_of):]:
                state = s["clients"].get(str(j))
                if state not in ("open", "closed"):
                    fail("pending-client-cut", i, "client %d is still waiting in the listen queue but sees `%s`" % (j, state))
        if fails:
            return fails
    if tr.crash:
        fails.append(("crash", "step %d: %s" % tr.crash))
        return fails
    # ---- resume: the history ends with fault-free iterations, one per waiting client and then some
    if in_scope and alive and listening and tr.steps:
        tail = 0
        for s in reversed(tr.steps):
            if s["op"] == "iter" and not s["eintr"] and not any(e.startswith("accept E") for e in s["env"]):
                tail += 1
            else:
                break
        waiting = len(connected) - len(client_of)
        if waiting > 0 and tail >= waiting + 1:
            fails.append(("no-resume-accept", "%d clients are still waiting after %d fault-free iterations at the end of the history" % (waiting, tail)))
        last = tr.steps[-1]
        if tail >= 1 and any(e.startswith("poll") and "listen" in e.split()[1:] for e in last["env"]) and not any(e.startswith("accept ok") for e in last["env"]):
            fails.append(("listener-wedged", "the listening socket is still readable in the last iteration and nothing was accepted"))
    return fails


# =====================================================================================================================
# the plug-in

def read_c11_case(path):
    """(engine, lines, argv, flavour)"""
    engine, argv, flavour, lines = "conn", [], None, []
    with open(path) as f:
        for l in f:
            l = l.rstrip("\n")
            if l.startswith("engine="):
                for tok in l.split():
                    k, _, v = tok.partition("=")
                    if k == "engine":
                        engine = v
                    elif k == "argv" and v:
                        argv = [v]
                    elif k == "flavour":
                        flavour = v
                continue
            if l.startswith("# flavour="):
                for tok in l[2:].split():
                    k, _, v = tok.partition("=")
                    if k == "argv" and v:
                        argv = [v]
                    elif k == "flavour":
                        flavour = v
                continue
            if not l.strip() or l.startswith("#"):
                continue
            lines.append(l)
    return engine, lines, argv, flavour


class Prop:
    id = "C11"
    lean_module = "MuduoVerif.Props.C11"
    gen_engines = ["Conn", "Client", "Acceptor", "SysSkel", "LoopSkel"]
    drivers = ["conn", "client", "acceptor"]
    technique = ("Lean 4: errno classifications by kernel evaluation of tables re-extracted from sockets::accept / "
                 "Acceptor::handleRead / Connector::connect / the pollers (T1); handler-level fault theorems for all states, "
                 "fault_cost by induction over fault sequences, a no-discard invariant and the C01/C02/C13 invariants over "
                 "all histories with faults inserted anywhere; a listener model interpreting the extracted EMFILE statement "
                 "sequence with a descriptor-accounting invariant + differential runs of the real TcpConnection, "
                 "TcpClient/Connector and Acceptor under faults injected at write/readv/connect/accept/poll by link-level "
                 "interposition (and real EMFILE through RLIMIT_NOFILE), with independent trace oracles")
    level_text = ("Kernel-checked theorems: (1) EAGAIN/ECONNABORTED/EINTR/EMFILE are non-fatal 'expected' errnos of sockets::accept, "
                  "ECONNREFUSED/ENETUNREACH/EAGAIN/EADDRINUSE/EADDRNOTAVAIL lead to retry and EINPROGRESS/EINTR/EISCONN to "
                  "connecting in Connector::connect, both pollers are silent on EINTR and contain no process-ending statement "
                  "(tables and guards re-extracted from /repo on every run, so a re-classified errno breaks the build of the "
                  "theorem); (2) for EVERY connection state a failed write/readv changes nothing but consuming and recording the "
                  "result, a failed or short direct write queues exactly the unsent rest and enables write interest, an "
                  "interrupted poll on an idle loop is the identity; k fault iterations leave the connection bit-for-bit "
                  "unchanged except k system-call records (no callback, no close, no abort) - the next iteration resumes from the "
                  "same state; (3) over ALL histories with any finite sequence of transient faults inserted at any position: no "
                  "data is ever discarded, bytes written ++ backlog = accepted blocks in order, per-thread FIFO, write interest "
                  "iff backlog, delivered ++ unread = what the peer wrote, exactly one UP / at most one DOWN / descriptor closed "
                  "once / nothing aborts, write-complete callbacks never outnumber sends; (4) listener: over all accept-result "
                  "sequences opened = closed + live and no stale close (no descriptor leak), EMFILE accepts-and-closes exactly one "
                  "pending connection and restores the spare descriptor, the other faults are exact no-ops, the listener keeps "
                  "listening, never aborts under expected errnos and accepts again at the first success. The three models are "
                  "tied to the real classes by differential runs under injected faults; independent oracles check the raw peer's "
                  "byte stream, callbacks, /proc-style descriptor population, EventLoop::iteration() growth and what the raw "
                  "clients of the listener observe")
    level_note = ("Proofs are about the models; ties = T1 extraction + differential testing bounded by the generators "
                  "(exhaustive fault sequences up to length 3 at every position of fixed base scenarios in the thorough tier). "
                  "'The loop does not spin' is decided per controlled iteration: iteration() grows by exactly one per step and "
                  "each EMFILE iteration takes one connection off the listen queue; CPU time is not measured. The reopen of the "
                  "spare descriptor is assumed to succeed (single-threaded process): with other threads opening descriptors "
                  "concurrently the idiom can lose its spare descriptor - outside this model.")
    rule = ("conn: faults {write: EAGAIN, EINTR, short; readv: EAGAIN, EINTR, short; poll: EINTR} - every combination up to "
            "length 3 at every position of the base scenarios echo / bulk-send-with-backlog / half-close (thorough; sampled in "
            "quick) plus random 40-operation histories with a fault before about every third operation, asserts-on/NDEBUG x "
            "epoll/poll; client: every sequence up to length 3 over {ECONNREFUSED, ENETUNREACH, EAGAIN, EADDRINUSE, "
            "EADDRNOTAVAIL at connect; EINPROGRESS/EINTR/EISCONN followed by SO_ERROR=ECONNREFUSED} before a successful attempt, "
            "with interrupted polls, plus C12's random histories; acceptor: every sequence up to length 3 over {EAGAIN, "
            "ECONNABORTED, EINTR, EMFILE, poll-EINTR} at every position of an accept-burst scenario, random histories with "
            "clients arriving/closing, callback set/unset, owner closes, destruction, and real descriptor exhaustion by "
            "RLIMIT_NOFILE; non-trivial = a callback ran / an attempt was made / a connection was accepted; distinct = distinct "
            "observation traces")
    trusted_base = CONN_TRUSTED + [
        "vlib/gen/sysskel.py (clang-14 JSON AST -> Generated/SysSkel.lean: statement skeletons of every function of SocketsOps.cc, Socket.cc/.h, InetAddress.cc/.h, Endian.h, Poller.cc, poller/DefaultPoller.cc, the poller constructors/destructors, Channel::tie, createEventfd, createTimerfd; what it leaves out is listed in the generated header) and the reading Model/SysSkelDecl.lean of what the "
        "models assume of each primitive (one system call, arguments passed through, result returned unchanged, failures only logged - or exactly the declared extra work); C11 depends on io_primitives_are_single_syscalls (sockets::write/read/readv/connect/close/shutdownWrite/getSocketError/accept, Socket::accept; the accept switch is cross-checked with Generated/Acceptor.lean's table); still trusted: the kernel's / glibc's behaviour behind each system call",
        "vlib/gen/loopskel.py (clang-14 JSON AST -> Generated/LoopSkel.lean: statement skeletons of every function of EventLoop.cc, EventLoopThread.cc, EventLoopThreadPool.cc, Acceptor.cc and Channel::Channel / ~Channel; what it leaves out is listed in the generated header) and the reading Model/LoopSkelDecl.lean; C11 depends on acceptor_statement_order_tied (Acceptor constructor, destructor, listen: listen() before enableReading(), handleRead: accept / callback-or-close / the EMFILE sequence)",
        "vlib/gen/acceptor.py, vlib/gen/client.py (clang-14 JSON AST -> Generated/Acceptor.lean, Generated/Client.lean)",
        "hand-written Model/Acceptor.lean and Model/Client.lean, tied by the differential runs (harness/acceptor_drv.cc vs "
        "drv_acceptor, harness/client_drv.cc vs drv_client)",
        "harness/interpose.h: link-level interposition of write/readv/poll/epoll_wait/accept4/accept/connect/getsockopt/close/open; "
        "an injected failure does not perform the call; a short count performs a real transfer of that many bytes",
        "the kernel's accept queue is FIFO for sequential loopback connects (used only by the client-visible-outcome oracle)",
    ]
    assumptions = CONN_ASSUME + [
        "faults are the listed transient ones; EPIPE/ECONNRESET on write and the unexpected/unknown errnos of accept are "
        "outside the property (the code drops data / aborts by design)",
        "open(\"/dev/null\") right after close(idleFd_) succeeds (no other thread takes the freed descriptor)",
    ]
    partial_theorems = []

    def signature(self, case, kind, desc):
        return kind

    # ------------------------------------------------------------------------------------------------ engines
    def run_client(self, ctx, exe, flavour, lines, origin, eintr=False):
        """differential run + both oracles (C12's complete one unless polls are interrupted, which it does not know)"""
        case = Case("client", lines, origin, meta={"argv": []})
        impl, err = ctx.run_impl(exe, case, timeout=120)
        # the C11 oracle speaks about connect-retry histories (script / connect / advance / iter only)
        grid_form = all(l.split()[0] in ("script", "connect", "advance", "iter") for l in lines)

        def judge(ls, blocks):
            f = client_fault_oracle(ls, blocks) if grid_form else []
            if not f and not eintr:
                f = c12.oracle(c12.Trace(ls, blocks))
            return f
        fails = judge(lines, impl)
        mismatch = None
        margs = ["ndebug"] if "ndebug" in flavour else []
        if ctx.model_ok:
            from .. import leanside
            rc, out, e2 = leanside.run_driver("client", ctx.model_input(case, impl), timeout=300, args=margs)
            model = split_blocks(out)
            if rc != 0:
                model.append(["<<driver exit %d>> %s" % (rc, e2.strip()[:200])])
            mismatch = ctx.compare(case, impl, model)
        tr = c12.Trace(lines, impl)
        for s in tr.steps:
            for e in s["env"]:
                if e.startswith("connect ") or e.startswith("soerr "):
                    ctx.count("client:" + " ".join(e.split()[:2]))
        ctx.count("client_cases")
        attempts = sum(1 for s in tr.steps for e in s["events"] if e.startswith("attempt"))
        ctx.record(case, impl, nontrivial=attempts > 0, sample=None)
        head = "# flavour=%s argv=" % flavour
        if fails:
            kind = fails[0][0]

            def still(ls):
                b, _ = ctx.run_impl(exe, Case("client", ls, meta={"argv": []}), timeout=60)
                f = judge(ls, b)
                return bool(f) and f[0][0] == kind
            small = ddmin(lines, still, budget=80) if origin != "replay" else lines
            bs, _ = ctx.run_impl(exe, Case("client", small, meta={"argv": []}), timeout=60)
            f2 = [f for f in judge(small, bs) if f[0] == kind] or fails
            ctx.oracle_failures.append((Case("client", [head] + small, origin), kind, f2[0][1] + " [client/%s]" % flavour))
        elif mismatch:
            ctx.mismatches.append((Case("client", [head] + lines, origin), mismatch + " [client/%s]" % flavour))
        return fails, mismatch, impl

    def run_acceptor(self, ctx, exe, flavour, be, lines, origin):
        case = Case("acceptor", lines, origin, meta={"argv": [be]})
        impl, err = ctx.run_impl(exe, case, timeout=120)
        fails = acceptor_oracle(lines, impl)
        mismatch = None
        if ctx.model_ok:
            from .. import leanside
            rc, out, e2 = leanside.run_driver("acceptor", ctx.model_input(case, impl), timeout=300, args=[])
            model = split_blocks(out)
            if rc != 0:
                model.append(["<<driver exit %d>> %s" % (rc, e2.strip()[:200])])
            mismatch = ctx.compare(case, impl, model)
        tr = AccTrace(lines, impl)
        for s in tr.steps:
            for e in s["env"]:
                if e.startswith("accept "):
                    ctx.count("accept:" + e.split()[1])
            if s["eintr"]:
                ctx.count("acceptor:poll-EINTR")
            for e in s["events"]:
                ctx.count("acceptor-ev:" + " ".join(e.split()[:-1] if e[-1].isdigit() else e.split()))
        if "limit" in lines:
            ctx.count("acceptor:real-RLIMIT_NOFILE-cases")
        ctx.count("acceptor_cases")
        ctx.record(case, impl, nontrivial=any(e.startswith("accepted") for s in tr.steps for e in s["events"]),
                   sample={"engine": "acceptor", "flavour": flavour, "poller": be, "ops": lines[:16],
                           "events": [e for s in tr.steps for e in s["events"]][:12]})
        head = "# flavour=%s argv=%s" % (flavour, be)
        if fails:
            kind = fails[0][0]

            def still(ls):
                b, _ = ctx.run_impl(exe, Case("acceptor", ls, meta={"argv": [be]}), timeout=60)
                f = acceptor_oracle(ls, b)
                return bool(f) and f[0][0] == kind
            # keep `config` / `listen`: an acceptor that is destroyed without ever listening is another story
            keep = 2 if len(lines) > 1 and lines[1] == "listen" else (1 if lines and lines[0] == "listen" else 0)
            small = ddmin(lines, still, keep_prefix=keep, budget=100) if origin != "replay" else lines
            bs, _ = ctx.run_impl(exe, Case("acceptor", small, meta={"argv": [be]}), timeout=60)
            f2 = [f for f in acceptor_oracle(small, bs) if f[0] == kind] or fails
            ctx.oracle_failures.append((Case("acceptor", [head] + small, origin), kind, f2[0][1] + " [acceptor/%s/%s]" % (flavour, be)))
        elif mismatch:
            ctx.mismatches.append((Case("acceptor", [head] + lines, origin), mismatch + " [acceptor/%s/%s]" % (flavour, be)))
        return fails, mismatch, impl

    # ------------------------------------------------------------------------------------------------ correspondence
    def replay(self, ctx, path):
        engine, lines, argv, flavour = read_c11_case(path)
        flavs = [flavour] if flavour else ["dbg", "ndebug"]
        for fl in flavs:
            if engine == "conn":
                be = argv[0] if argv else "epoll"
                exe = ctx.exe("conn_drv", fl)
                CONN.one(ctx, exe, lines, "replay", be, fl)
                b, _ = ctx.run_impl(exe, Case("conn", lines, meta={"argv": [be]}))
            elif engine == "client":
                exe = ctx.exe("client_drv", fl)
                _, _, b = self.run_client(ctx, exe, fl, lines, "replay", eintr=any(l.startswith("script poll") for l in lines))
            else:
                be = argv[0] if argv else "epoll"
                exe = ctx.exe("acceptor_drv", fl)
                _, _, b = self.run_acceptor(ctx, exe, fl, be, lines, "replay")
            for op, blk in zip([l for l in lines if l.strip()], b):
                print("[%s/%s] %-34s %s" % (engine, fl, op, " | ".join(l for l in blk if not l.startswith("# peer"))))

    def correspondence(self, ctx, replay=None):
        if replay:
            return self.replay(ctx, replay)
        quick = ctx.quick() and not ctx.search_mode
        rng = ctx.rng
        conn_cfgs = [("dbg", "epoll"), ("ndebug", "poll")] if quick else [("dbg", "epoll"), ("ndebug", "poll"), ("dbg", "poll"), ("asan", "epoll")]
        acc_cfgs = [("dbg", "epoll"), ("ndebug", "poll")] if quick else [("dbg", "epoll"), ("ndebug", "poll"), ("asan", "epoll")]
        cl_flavs = ["dbg", "ndebug"]
        ctx.extra["flavours"] = sorted(set(f for f, _ in conn_cfgs + acc_cfgs) | set(cl_flavs))
        ctx.extra["pollers"] = ["epoll", "poll"]
        exes = {}

        def exe(name, fl):
            if (name, fl) not in exes:
                exes[(name, fl)] = ctx.exe(name, fl)
            return exes[(name, fl)]

        # ---- corpus first
        for p in ([] if os.environ.get("VERIF_C11_SKIP_CORPUS") else sorted(glob.glob(os.path.join(CORPUS, "C11", "*.case")))):
            engine, lines, argv, flavour = read_c11_case(p)
            origin = "corpus:" + os.path.basename(p)
            for fl in ([flavour] if flavour else ["dbg", "ndebug"]):
                if engine == "conn":
                    for be in (argv or ["epoll", "poll"]):
                        CONN.one(ctx, exe("conn_drv", fl), lines, origin, be, fl)
                elif engine == "client":
                    self.run_client(ctx, exe("client_drv", fl), fl, lines, origin, eintr=any(l.startswith("script poll") for l in lines))
                else:
                    for be in (argv or ["epoll", "poll"]):
                        self.run_acceptor(ctx, exe("acceptor_drv", fl), fl, be, lines, origin)
            ctx.count("corpus_cases")
            if ctx.stop():
                return

        # ---- part 3: acceptor
        pos_a = list(range(2, len(ACC_BASE) + 1))
        seqs = [list(s) for n in (1, 2, 3) for s in itertools.product(A_FAULTS + ["pEINTR"], repeat=n)]
        grid = [(p, s) for p in pos_a for s in seqs]
        ctx.extra["acceptor_fault_grid"] = {"positions": len(pos_a), "sequences": len(seqs), "cases": len(grid), "exhaustive": not quick}
        for ci, (fl, be) in enumerate(acc_cfgs):
            x = exe("acceptor_drv", fl)
            if quick:
                todo = rng.sample(grid, 140)
            else:
                todo = grid if ci == 0 else rng.sample(grid, 400)
            for p, s in todo:
                self.run_acceptor(ctx, x, fl, be, acc_inject(ACC_BASE, p, s), "grid:accept-burst")
                if ctx.stop():
                    return
            for i in range(60 if quick else 500):
                self.run_acceptor(ctx, x, fl, be, acc_random_case(rng), "random")
                if ctx.stop():
                    return
            for i in range(4 if quick else 25):
                self.run_acceptor(ctx, x, fl, be, acc_real_emfile_case(rng), "real-EMFILE")
                if ctx.stop():
                    return

        # ---- part 2: client
        cseqs = [list(s) for n in (1, 2, 3) for s in itertools.product(CLIENT_FAULTS, repeat=n)]
        ctx.extra["client_fault_sequences"] = {"sequences": len(cseqs), "exhaustive": not quick}
        for ci, fl in enumerate(cl_flavs):
            x = exe("client_drv", fl)
            todo = rng.sample(cseqs, 60) if quick else (cseqs if ci == 0 else rng.sample(cseqs, 150))
            for s in todo:
                ei = tuple(i for i in range(len(s)) if rng.random() < 0.3)
                self.run_client(ctx, x, fl, client_case(s, ei, final=rng.choice(["ok", "EINPROGRESS", "EINTR"]), who=rng.choice("LLF")),
                                "grid:connect-retry", eintr=bool(ei))
                if ctx.stop():
                    return
            for i in range(15 if quick else 150):
                self.run_client(ctx, x, fl, c12.random_case(rng, 30), "random-c12")
                if ctx.stop():
                    return

        # ---- part 1: connection
        combos = fault_combos(3)
        cgrid = [(name, p, c) for name, base in sorted(CONN_BASES.items()) for p in conn_positions(base) for c in combos]
        ctx.extra["conn_fault_grid"] = {"scenarios": sorted(CONN_BASES), "combinations_per_position": len(combos),
                                        "cases": len(cgrid), "exhaustive": not quick}
        for ci, (fl, be) in enumerate(conn_cfgs):
            x = exe("conn_drv", fl)
            if quick:
                todo = rng.sample(cgrid, 160)
            else:
                todo = cgrid if ci == 0 else rng.sample(cgrid, 400)
            for name, p, c in todo:
                CONN.one(ctx, x, inject(CONN_BASES[name], p, c), "grid:" + name, be, fl)
                ctx.count("conn_cases")
                if ctx.stop():
                    return
            for i in range(90 if quick else 500):
                CONN.one(ctx, x, dense_conn_case(rng), "random-dense", be, fl)
                ctx.count("conn_cases")
                if ctx.stop():
                    return


PROP = Prop()
