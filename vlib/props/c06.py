"""C06 — timers never early, as often as scheduled, in deadline order, none lost: invariant theorems over the
timer-engine model (Props/C06.lean), T1 extraction of every constant and guard, differential run of the real
EventLoop/TimerQueue under a virtual clock against the model, and an independent oracle on the implementation's trace."""
from .. import timer_common


class Prop:
    id = "C06"
    lean_module = "MuduoVerif.Props.C06"
    gen_engines = ["Timer"]
    drivers = ["timer"]
    technique = ("Lean 4 invariant proofs over a transition-system model of TimerQueue (all operation sequences, clock "
                 "readings, allocation orders) + T1 extraction of constants/guards from the clang AST + differential run of the "
                 "real EventLoop/TimerQueue under a virtual clock + independent trace oracle")
    level_text = ("Kernel-checked theorems for every operation sequence of the model (adds from the loop thread, from "
                  "callbacks and from foreign threads, cancels, expiry batches with every clock reading and every allocation "
                  "address as input): no callback runs before its deadline and the k-th repetition not before the first deadline "
                  "plus k-1 intervals; a one-shot timer runs at most once; batches run in deadline order; timers_ and "
                  "activeTimers_ hold the same timers; whenever the loop goes back to poll with a pending timer the timerfd is "
                  "readable or armed no later than max(earliest deadline, arm time + 100 us); the model's constants and branch "
                  "guards are re-extracted from /repo on every run and the model is tied to the real classes by a differential run")
    level_note = ("Trusted: Lean kernel (propext, Classical.choice, Quot.sound only), vlib/extract.py + vlib/gen/timer.py, the "
                  "hand-written parts of Model/Timer.lean as far as the differential run exercises them, the harness "
                  "(virtual clock and virtual timerfd of interpose.h), std::set/std::function/glibc malloc. Liveness is stated "
                  "under the named hypothesis EnvTimerfdFires (the kernel makes an armed timerfd readable).")
    rule = ("random timer programs (up to 200 adds: runAt/runAfter/runEvery, delays from -5 ms to 300 ms around the 100 us "
            "floor, many equal deadlines, repeating intervals from sub-microsecond to 150 ms) issued from the loop thread, from "
            "timer callbacks (scripts, nested) and from joined foreign threads, interleaved with cancels, clock advances that hit "
            "deadlines exactly / one off, clock jitter between two reads, and loop iterations; each case ends with drain rounds; "
            "a case is non-trivial when at least one callback ran; distinct = distinct event traces")
    trusted_base = [
        "Lean 4.33.0 kernel; axioms allowed: propext, Classical.choice, Quot.sound",
        "vlib/extract.py + vlib/gen/timer.py (clang-14 JSON AST -> Generated/Timer.lean: howMuchTimeFromNow incl. the floor, addTime, "
        "Timer::restart, the getExpired sentinel, the guards of insert/addTimerInLoop/cancelInLoop/reset, order of sequence read and hand-over in addTimer)",
        "hand-written Model/Timer.lean (std::set as sorted list, the EventLoop API wrappers, the functor queue), tied by the differential run "
        "(harness/timer_drv.cc vs lean/Driver/TimerDrv.lean) on every event, every armed value and the timerfd state after every step",
        "harness/interpose.h virtual clock / virtual timerfd; harness/loopstep.h",
        "std::set, std::function, operator new/delete behave as documented",
    ]
    assumptions = [
        "EnvTimerfdFires: an armed timerfd becomes readable once its alarm time is reached and poll reports it (kernel)",
        "Timer addresses are below UINTPTR_MAX and non-null (the getExpired sentinel); `new` returns an address that is not live",
        "intervals/delays are passed as doubles whose product with 1e6 truncates to the stated integer (the generator only uses such values)",
    ]
    partial_theorems = []

    def signature(self, case, kind, desc):
        return kind

    def correspondence(self, ctx, replay=None):
        timer_common.correspondence(self, ctx, replay, "c06")


PROP = Prop()
