"""C06 — timers never early, as often as scheduled, in deadline order, none lost: invariant theorems over the
timer-engine model (Props/C06.lean), T1 extraction of every constant and guard, differential run of the real
EventLoop/TimerQueue under a virtual clock against the model, and an independent oracle on the implementation's trace."""
from .. import timer_common


class Prop:
    id = "C06"
    lean_module = "MuduoVerif.Props.C06"
    gen_engines = ["Timer", "TimerSkel", "LoopSkel"]
    drivers = ["timer"]
    technique = ("Lean 4 invariant proofs over a transition-system model of TimerQueue (all operation sequences, clock "
                 "readings, allocation orders) + T1 extraction of constants/guards from the clang AST + differential run of the "
                 "real EventLoop/TimerQueue under a virtual clock + independent trace oracle")
    level_text = ("Kernel-checked theorems (Props/C06.lean) for every input list of the model (adds from the loop thread, from "
                  "callbacks nested to any depth and from foreign threads incl. the split at the hand-over point, cancels from "
                  "all three places, every clock reading, every allocation address and every firing of the timerfd as input; "
                  "unbounded length): never_early (every recorded callback run happens in a batch whose clock reading has "
                  "reached the deadline it was queued under; that deadline is the creation deadline for the first run and at "
                  "least first + (k-1)*interval for the k-th run; same_timer: all runs of one sequence number carry the same "
                  "timer data; numbering: the k-th run carries k); once (a one-shot timer has at most one run in any "
                  "history) and fires_due (a loop iteration with the timerfd readable runs every pending timer whose deadline "
                  "is <= the reading handleRead makes, as a new run, whatever earlier callbacks of the batch do); batch_order "
                  "(the runs of one iteration are exactly the due timers, in (deadline, address) order, none left out; "
                  "only_iter_runs: no other step runs a callback); sets_agree (timers_/activeTimers_ hold the same timers, "
                  "timers_ strictly sorted, no duplicates in either, same size; preserved inside batches too); armed (for "
                  "histories whose registered/restarted deadlines are valid Timestamps: whenever the loop may poll with a "
                  "pending timer the timerfd is readable or armed no later than max(earliest deadline, arm time + 100 us)); "
                  "eventually_runs (one-step liveness: clock reading >= deadline, then the timerfd fires, then one "
                  "iteration runs the timer); addTime_exact_in_range (the deadline arithmetic, translated with the C type "
                  "of every intermediate value - 32-bit ones wrap at 2^31 - is exactly timestamp + delay for every delay "
                  "and sum representable as int64_t microseconds, also when the 64-bit operations are wrapped; "
                  "delay_deadline: runAfter/runEvery/restart deadlines are reading + delay for delays of any size) and "
                  "arm_exact_in_range (the timespec for timerfd_settime is computed without wrap-around whenever "
                  "deadline - reading fits an int64_t). Constants and guards are re-extracted from /repo on every run (T1) "
                  "and the model is tied to the real classes by the differential run")
    level_note = ("Trusted: Lean kernel (propext, Classical.choice, Quot.sound only), vlib/extract.py + vlib/gen/timer.py, the "
                  "hand-written parts of Model/Timer.lean as far as the differential run exercises them (ghost fields of the "
                  "events — addr, rep, first, delta, k, found — and the ghost event `restarted` are not compared), the harness "
                  "(virtual clock and virtual timerfd of interpose.h), std::set/std::function/glibc malloc. armed and "
                  "eventually_runs carry the explicit hypothesis ValidTr (every deadline put into timers_ is > 0 us since the "
                  "epoch); the excluded branch is described by armed_excluded_branch (reset() does not re-arm) and shown to "
                  "matter by armed_needs_valid_deadlines (deadline -5 us, clock -10 us: the queue stays unarmed; it needs a reading "
                  "before 1970 - under a real clock runAt(Timestamp::invalid()) from outside or inside a callback is armed by "
                  "addTimerInLoop with the 100 us floor and runs in the next batch although reset() skips it: tested by corpus "
                  "W4 and the generator's zero/negative deadlines, oracle `disarmed`, not proved). "
                  "eventually_runs is a progress step under the environment inputs now/expire/iter (EnvTimerfdFires = the "
                  "kernel makes an armed timerfd readable), not a fairness theorem over infinite runs. Not proved: that the "
                  "clock reading at the moment of the callback is >= the batch reading (needs a monotone-clock hypothesis); "
                  "the cross-batch ordering is only given through batch_order's completeness clause (a due timer is never "
                  "left for a later batch); 'on the loop thread' is not part of this model (C08).")
    rule = ("random timer programs (up to 200 adds: runAt/runAfter/runEvery, delays from -5 ms to 300 ms around the 100 us "
            "floor, many equal deadlines, repeating intervals from sub-microsecond to 150 ms) issued from the loop thread, from "
            "timer callbacks (scripts, nested) and from joined foreign threads, interleaved with cancels, clock advances that hit "
            "deadlines exactly / one off, clock jitter between two reads, and loop iterations; histories in which every pending "
            "timer is cancelled from outside a callback (loop thread, foreign thread) while the descriptor is armed, then the "
            "old expiry passes and the loop iterates with nothing due (oracle: an iteration woken by the timer descriptor leaves "
            "it drained unless an alarm set in that iteration expired - `timerfd-not-drained`); each case ends with drain rounds; "
            "histories with delays / intervals / deadlines beyond the widths of the 32-bit types under the virtual clock "
            "(2147 s, 2^31 us, 2^32 us, an hour, a day, 30 days, a year, ten years, 2^31 s, 2^32 s for runAfter and runEvery - "
            "the k-th run followed through several intervals - and runAt; deadlines at the ends of a 32-bit time_t (2038), an "
            "unsigned one (2106), an int64_t count of nanoseconds (2262), the year 2500 and the last microsecond of the "
            "int64_t range; optionally after a jump of the clock to just before those instants; the clock stops just before "
            "each far deadline - nothing may run - and then on it); the same far values are mixed into the random programs; "
            "a case is non-trivial when at least one callback ran; distinct = distinct event traces")
    trusted_base = [
        "Lean 4.33.0 kernel; axioms allowed: propext, Classical.choice, Quot.sound",
        "vlib/extract.py + vlib/gen/timer.py (clang-14 JSON AST -> Generated/Timer.lean: howMuchTimeFromNow incl. the floor, addTime, "
        "Timer::restart, the getExpired sentinel, the guards of insert/addTimerInLoop/cancelInLoop/reset, order of sequence read and hand-over in addTimer; "
        "addTime and howMuchTimeFromNow statement by statement with the C type of every intermediate value: 32-bit integer results are "
        "wrapped (two's complement, what g++ computes on x86-64), 64-bit ones exact in the definitions the model uses and wrapped in the "
        "`...W` variants, a double is an exact rational, double -> integer truncates towards zero)",
        "vlib/gen/timerskel.py (clang-14 JSON AST -> Generated/TimerSkel.lean: statement skeletons of the 12 modelled functions of "
        "TimerQueue.cc/Timer.cc) and the reading of Model/Timer.lean written down in Model/TimerSkelDecl.lean; the two are proved equal "
        "(statement_order_tied)",
        "vlib/gen/loopskel.py (clang-14 JSON AST -> Generated/LoopSkel.lean: statement skeletons of every function of EventLoop.cc, here "
        "runAt / runAfter / runEvery / cancel) and the reading Model/LoopSkelDecl.lean of what Timer.deadlineOf assumes of them; proved equal "
        "(timer_api_statement_order_tied)",
        "hand-written Model/Timer.lean (std::set as sorted list, the EventLoop API wrappers, the functor queue), tied by the differential run "
        "(harness/timer_drv.cc vs lean/Driver/TimerDrv.lean) on every event, every armed value and the timerfd state after every step",
        "harness/interpose.h virtual clock / virtual timerfd; harness/loopstep.h",
        "std::set, std::function, operator new/delete behave as documented",
    ]
    assumptions = [
        "EnvTimerfdFires: an armed timerfd becomes readable once its alarm time is reached and poll reports it (kernel); in "
        "eventually_runs it appears as the explicit inputs In.expire / In.iter",
        "ValidTr (armed, eventually_runs): deadlines put into timers_ are valid Timestamps (> 0 us since the epoch)",
        "Timer addresses are below UINTPTR_MAX and non-null (the getExpired sentinel); `new` returns an address that is not live",
        "intervals/delays are passed as doubles whose product with 1e6 truncates to the stated integer (the generator only uses such values; "
        "the harness refuses others: `inexact-interval`); inside addTime a double stands for the exact rational us / 10^6 and double "
        "arithmetic for exact rational arithmetic (addTime_exact_in_range is relative to this)",
        "microsecond counts (clock readings, deadlines, clock + delay) stay representable as int64_t (until the year 294247): the model "
        "computes them as exact integers; addTime_exact_in_range / arm_exact_in_range show that the machine's wrapped 64-bit arithmetic "
        "gives the same values there; relative times handed to timerfd_settime stay below 292 years (limit of the harness' report in "
        "nanoseconds, not of muduo)",
    ]
    partial_theorems = []

    def signature(self, case, kind, desc):
        return kind

    def correspondence(self, ctx, replay=None):
        timer_common.correspondence(self, ctx, replay, "c06")


PROP = Prop()
