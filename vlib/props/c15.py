"""C15 — ThreadPool runs each accepted task once, applies back-pressure, always stops.

Proof side: Props/C15.lean over the transition system of Model/TPool.lean, which interprets the method
skeletons, guards and `isFull` T1 extracts from ThreadPool.cc.  Correspondence (T3): the real ThreadPool
under harness/sched/detsched.h (workers T1..Tn, callers behind them, the unlocked read of running_ at the
named point ThreadPool::runInThread:beforeRunningTest), the Lean system under the same scheduler rules;
an independent oracle judges the implementation's own trace (execution counts and order, computed queue
length, the monitor snapshots printed at every release of the pool's mutex, the scheduler's all-blocked report).
Tasks can depend on one another through a gate (`waits` / `opens` ids, caller operation `open`)."""
from .. import monitor_common as mc
sched = mc.random_schedule


def gen_case(rng, nsched):
    nthreads = rng.choice([0, 1, 1, 2, 2, 3])
    maxq = rng.choice([0, 1, 1, 2])
    callers = rng.randint(1, 3)
    threads = []
    v = 0
    for _ in range(callers):
        ops = []
        for _ in range(rng.randint(0, 4)):
            v += 1
            ops.append("run %d" % v)
        threads.append(ops)
    mode = rng.random()
    if mode < 0.55:
        t = rng.randrange(callers)
        threads[t].insert(rng.randint(0, len(threads[t])), "stop")
    elif mode < 0.9:
        threads.append(["stop"])           # a thread of its own: stop() races with everything
    # dependent tasks (a quarter of the pools that have threads): some tasks wait inside task() for the gate, later
    # ones - or a caller - open it; such a program may dead-lock by itself (every worker inside a waiting task),
    # which the oracle tells from a task left queued while a worker is idle
    waits, opens = [], []
    if nthreads > 0 and v >= 2 and rng.random() < 0.25:
        ids = list(range(1, v + 1))
        waits = sorted(rng.sample(ids, rng.randint(1, min(2, v - 1))))
        rest = [i for i in ids if i not in waits]
        r = rng.random()
        if r < 0.6:
            opens = [rng.choice([i for i in rest if i > waits[0]] or rest)]
        if r >= 0.4:
            if rng.random() < 0.5:
                threads.append(["open"])
            else:
                t = rng.randrange(len(threads))
                threads[t].insert(rng.randint(0, len(threads[t])), "open")
    scheds = [[]] if rng.random() < 0.2 else []
    while len(scheds) < nsched:
        scheds.append(sched(rng, rng.randint(1, 60), rng.random() < 0.5))
    return mc.MCase("pool %d %d" % (nthreads, maxq), threads, scheds, spurious=rng.random() < 0.35, waits=waits, opens=opens)


SMALL = [
    # (object, threads, spurious, preemption bound); the first three are also explored in the quick tier
    ("pool 1 1", [["run 1", "run 2", "stop"]], True, 3),
    ("pool 1 0", [["run 1", "run 2"], ["stop"]], False, 2),
    ("pool 1 2", [["run 1", "run 2", "run 3", "run 4"], ["stop"]], False, 2),
    ("pool 0 1", [["run 1", "stop", "run 2"], ["run 3"]], False, 2),
    ("pool 1 1", [["run 1", "run 2"], ["run 3"], ["stop"]], False, 2),
    ("pool 2 2", [["run 1", "run 2", "run 3"], ["stop"]], True, 2),
    ("pool 2 1", [["run 1", "run 2"], ["stop"]], False, 1),
    ("pool 2 1", [["run 1"], ["run 2", "stop", "run 3"]], False, 1),
    ("pool 3 0", [["run 1"], ["stop"]], False, 0),
    ("pool 2 1", [["run 1", "run 2"], ["stop"]], False, 2),
]


# back-pressure with several producers: maxQueueSize >= 2, two or more producers parked on notFull_ at once, a worker
# that takes twice in a row before a woken producer re-appends (every pop must signal notFull_, not only the pop that
# leaves a full queue); no stop() in the programs: stop() would release whoever is stuck.  The first one is explored
# in the quick tier as well; when an obligation or tie broke they are explored before everything else.
SMALL_BP = [
    ("pool 1 2", [["run 1", "run 2"], ["run 3"], ["run 4"]], False, 1),
    ("pool 1 2", [["run 1"], ["run 2"], ["run 3"], ["run 4"]], False, 0),
    ("pool 2 2", [["run 1", "run 2"], ["run 3"], ["run 4", "run 5"]], False, 0),
    ("pool 1 3", [["run 1", "run 2", "run 3"], ["run 4"], ["run 5"], ["run 6"]], False, 0),
    ("pool 1 2", [["run 1", "run 2"], ["run 3", "run 5"], ["run 4"]], True, 1),
]


# stop() against everything it has to release at once, and tasks that depend on later tasks (entries carry a fifth
# element: the ids of the tasks that wait for the gate / that open it).
#  - a worker held inside a task, a full queue, producers asleep in run() on notFull_, then stop() (and only then the
#    gate is opened): every run() must come back without having queued anything more;
#  - two (three) idle workers and a burst of run() calls whose first task waits for a later one: a free worker has to
#    take the later task up, whatever the notify policy - with every wake-up delivered nobody stays asleep beside a
#    queued task.
# The first two are explored in the quick tier as well (the first one without preemptions there: QUICK_DEP); when an
# obligation or tie broke all of them are explored before everything else.
SMALL_DEP = [
    ("pool 1 1", [["run 1", "run 2", "run 3"], ["stop"], ["open"]], False, 1, {"waits": [1]}),
    ("pool 2 0", [["run 1", "run 2"]], False, 1, {"waits": [1], "opens": [2]}),
    ("pool 1 1", [["run 1", "run 2"], ["run 3"], ["stop", "open"]], False, 1, {"waits": [1]}),
    ("pool 2 2", [["run 1", "run 2", "run 3"]], False, 1, {"waits": [1], "opens": [3]}),
    ("pool 3 0", [["run 1", "run 2", "run 3"]], False, 1, {"waits": [1, 2], "opens": [3]}),
    ("pool 2 0", [["run 1", "run 2"], ["stop"]], True, 1, {"waits": [1], "opens": [2]}),
    ("pool 2 1", [["run 1"], ["run 2"], ["open"]], False, 1, {"waits": [1, 2]}),
    ("pool 1 2", [["run 1", "run 2", "run 3", "run 4"], ["stop"], ["open"]], False, 1, {"waits": [1]}),
]


QUICK_DEP = [SMALL_DEP[0][:3] + (0,) + SMALL_DEP[0][4:], SMALL_DEP[1]]


def small_case(entry):
    obj, threads, spur, bound = entry[:4]
    kinds = entry[4] if len(entry) > 4 else {}
    return mc.MCase(obj, threads, [], spur, "systematic", waits=kinds.get("waits", ()), opens=kinds.get("opens", ())), bound


class Prop:
    id = "C15"
    lean_module = "MuduoVerif.Props.C15"
    gen_engines = ["Monitor", "ThreadSkel"]
    drivers = ["monitor"]
    technique = ("Lean 4 invariant proofs over a thread-indexed transition system of ThreadPool (workers, callers, stop split "
                 "into flag store / broadcasts / joins, unlocked read of running_, task execution as its own step, tasks that wait "
                 "inside task() for a gate opened by a later task or a caller) whose "
                 "statement skeletons, guards and isFull are T1-extracted + schedule-controlled differential runs of the real "
                 "ThreadPool + independent execution-count/order/bound/no-lost-signal/deadlock oracle (monitor state snapshot at every "
                 "release of the pool's mutex) + exhaustive schedules under a preemption bound; oracle-only search before any "
                 "model comparison when an obligation or tie broke")
    level_text = ("Kernel-checked theorems for every number of workers (including none), every number of callers with any "
                  "programs of run()/stop(), every maxQueueSize and every interleaving (spurious wake-ups, every notify choice): "
                  "no task instance starts twice; taken ++ queued = accepted in order (FIFO take-up); queue length <= "
                  "maxQueueSize; tasks start on pool threads, inline exactly when the pool has no threads; while the pool runs no "
                  "wake-up is lost (a worker asleep unnotified => queued tasks <= notified workers on their way; same for "
                  "producers and free places); in every reachable state where no thread can step every accepted task has "
                  "started or is still queued with the flag cleared or with EVERY worker inside a task that waits for the closed "
                  "gate (tasks may rely on later tasks: a free worker takes them up); once stop() cleared the flag no reachable "
                  "state leaves anybody parked (idle and busy workers, producers on a full queue, the stopper in join) except "
                  "workers inside a waiting task while the gate is closed and the stop() joining them; after stop() returned on a pool with threads no step starts or enqueues a "
                  "task.  Skeletons/guards are re-extracted from /repo on every run and tied by decide-lemmas; the model is tied "
                  "to the real class by identical-schedule runs")
    level_note = ("Trusted: Lean kernel (axioms propext, Classical.choice, Quot.sound only), vlib/extract.py + vlib/gen/monitor.py, "
                  "the hand-written parts of Model/TPool.lean as far as the differential runs exercise them, pthread "
                  "mutex/condition/join semantics as modelled, std::deque/std::function, harness/sched/detsched.h.")
    rule = ("pools with 0..3 threads, maxQueueSize 0..2, 1..3 callers with 0..4 run() each, a stop() inside a caller's program "
            "(55%), as a thread of its own (35%) or absent (10%); 35% of the cases offer spurious wake-ups; a quarter of the "
            "pools with threads have dependent tasks (1..2 task ids wait inside task() for the gate; a later task and/or a "
            "caller's `open` opens it); random schedules "
            "of 0..60 decisions plus, for the small configurations listed in the plug-in, every schedule within the "
            "preemption bound (among them bounded queues of size >= 2 with three or four producers and no stop(), so that "
            "several producers are parked on notFull_ at once; a worker held inside a task + full queue + producers asleep in "
            "run() + stop(); bursts of run() onto 2..3 idle workers whose first task waits for a later one); when an obligation "
            "or tie broke all listed configurations and 2500 random programs run under the oracle alone first; a program on which model and implementation differ is "
            "explored again (with and without its stop()) under the oracle alone; a run is non-trivial when the scheduler "
            "had at least one real decision or the run ended "
            "all-blocked; distinct = distinct observable traces")
    trusted_base = [
        "Lean 4.33.0 kernel; axioms allowed: propext, Classical.choice, Quot.sound",
        "vlib/extract.py + vlib/gen/monitor.py (clang-14 JSON AST -> Generated/Monitor.lean: skeletons, loop guards, isFull)",
        "hand-written Model/TPool.lean (interpretation of the skeletons), tied by identical-schedule differential runs",
        "vlib/gen/threadskel.py + vlib/logskel_common.py (same AST -> Generated/ThreadSkel.lean: statement skeletons of MutexLock / MutexLockGuard / UnassignGuard (Mutex.h), Condition (Condition.h), Thread::start / join / ~Thread, detail::startThread, ThreadData::runInThread (Thread.cc)) and the hand-written reading Model/ThreadSkelDecl.lean (which atomic step of the model stands for which statements): that the code calls pthread in the modelled order is tied by decide; what the pthread / libc functions do stays trusted (POSIX)",
        "harness/sched/detsched.h + the named point ThreadPool::runInThread:beforeRunningTest (MUDUO_VERIF_POINT)",
        "pthread mutex/condition/join semantics (Mesa monitors, spurious wake-ups); std::deque, std::function copy/move",
    ]
    assumptions = [
        "start() is called once before any run(); stop() is called at most once (a second stop() would join joined threads)",
        "tasks do not call back into the pool; a task terminates by itself or waits for the gate (then the theorems say exactly "
        "who may be left parked); the thread-init callback is empty",
        "running_ is read atomically (C08 covers the race; /repo 483a7d4 made it std::atomic)",
    ]
    partial_theorems = []

    def signature(self, case, kind, desc):
        return kind

    def correspondence(self, ctx, replay=None):
        r = mc.Runner(ctx, self, mc.oracle_c15)
        flavours = ["dbg"] if ctx.quick() else ["dbg", "asan"]
        ctx.extra["flavours"] = flavours
        if replay:
            exe = mc.monitor_exe(ctx, "dbg")
            cases = mc.read_case_file(replay)
            for c, (ib, mb, bad) in zip(cases, r.run(exe, cases)):
                for i, blk in enumerate(ib or []):
                    print("schedule %s" % " ".join(map(str, c.schedules[i])))
                    print("  impl : %s" % ctx.observable(blk))
                    print("  model: %s" % (ctx.observable(mb[i]) if mb else None))
                    print("  oracle: %s" % (mc.oracle_c15(c, blk) or "ok"))
            r.judge(exe, cases)
            return
        if ctx.search_mode:
            # an obligation or tie no longer checks: the model (it interprets skeletons that are not the declared ones
            # any more) is no reference, and two disagreements with it would end the run.  Look for a concrete failing
            # input under the oracle alone first: corpus, every listed configuration, random programs.
            exe = mc.monitor_exe(ctx, "dbg")
            r.searching = True
            try:
                self.search(ctx, r, exe)
            finally:
                r.searching = False
            if ctx.stop() or ctx.extra.get("anon_sync"):
                return          # (fallback build of the harness: its traces do not compare with the model's)
        for fl in flavours:
            exe = mc.monitor_exe(ctx, fl)
            cases = mc.corpus_cases("C15")
            r.judge(exe, cases)
            ctx.count("corpus_cases", len(cases))
            if ctx.stop():
                return
            heavy = not ctx.quick()
            if fl == "dbg":
                plan = (SMALL_DEP + SMALL_BP + SMALL) if heavy else (SMALL[:3] + SMALL_BP[:1] + QUICK_DEP)
                if not self.systematic(ctx, r, exe, plan, 12000 if heavy else 2500):
                    return
            ncases = (4000 if fl == "dbg" else 600) if heavy else 600
            if not self.random_cases(ctx, r, exe, ncases, 6 if heavy else 3):
                return

    def systematic(self, ctx, r, exe, plan, limit):
        total, complete = 0, ctx.extra.get("systematic", [])
        for entry in plan:
            c, bound = small_case(entry)
            n, done = r.explore(exe, c, bound, limit)
            total += n
            complete.append({"object": c.obj, "threads": c.threads, "waits": c.waits, "opens": c.opens, "spurious": c.spurious,
                             "preemption_bound": bound, "schedules": n, "complete": done, "oracle_only": r.searching})
            if ctx.stop():
                return False
        ctx.extra["systematic"] = complete
        ctx.count("systematic_runs", total)
        return True

    def random_cases(self, ctx, r, exe, ncases, nsched):
        batch = []
        for i in range(ncases):
            batch.append(gen_case(ctx.rng, nsched))
            if len(batch) >= 150:
                r.judge(exe, batch)
                batch = []
                if ctx.stop():
                    return False
        if batch:
            r.judge(exe, batch)
        return not ctx.stop()

    def search(self, ctx, r, exe):
        ctx.count("oracle_only_searches")
        r.judge(exe, mc.corpus_cases("C15"))
        if ctx.stop():
            return
        if not self.systematic(ctx, r, exe, SMALL_DEP + SMALL_BP + SMALL, 12000):
            return
        self.random_cases(ctx, r, exe, 2500, 6)


PROP = Prop()
