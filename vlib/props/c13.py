"""C13 - write-complete and high-water-mark callbacks track the unsent backlog exactly"""
from .. import conn_oracle
from ..conn_common import ConnProp
from ._conn_texts import ASSUME, TRUSTED


class Prop(ConnProp):
    id = "C13"
    lean_module = "MuduoVerif.Props.C13"
    technique = ("Lean 4 proofs of the exact scheduling conditions of both callbacks for all states/blocks/kernel answers + "
                 "counting invariant over all histories + T1 extraction of the crossing/drain guards + differential run with "
                 "an injected acceptance pattern and an independent backlog replay")
    level_text = ("Kernel-checked theorems: for EVERY state, block and write() result, sendInLoop schedules a write-complete "
                  "callback iff one is set and the direct write took the whole block, and a high-water callback iff one is set "
                  "and this send raised the backlog from below the mark to at least the mark, with the resulting backlog as "
                  "argument; handleWrite schedules a write-complete callback iff this write emptied a non-empty backlog; nothing "
                  "else schedules or runs them; user operations never run them synchronously; over all histories the "
                  "write-complete callbacks run + queued (+1 for a pending backlog) never exceed the accepted sends; the "
                  "callback a notification delivers is the one that was installed when it was SCHEDULED "
                  "(delivered_is_scheduled_callback: the functor carries a copy - `wcBindSend/wcBindDrain/hwmBind = byValue` "
                  "is extracted from the three std::bind sites - so set{WriteComplete,HighWaterMark}Callback calls between "
                  "scheduling and delivery, also from inside the callback itself, change nothing that is already queued), and a "
                  "crossing is judged against the mark in force at that send (hwm_uses_current_mark). The guards "
                  "are re-extracted from TcpConnection.cc on every run and re-proved equivalent to their meaning (`<` vs `<=` "
                  "breaks the build)")
    level_note = ("'not again until the backlog has fallen below the mark' is the local statement hwm_not_again + send_schedules; "
                  "thread affinity of the callbacks is by construction of the model and observed in the harness.")
    rule = ("histories of <= 40 operations biased towards sends with scripted acceptance patterns (full/short/relative short/"
            "EAGAIN), marks 0,1,10,100,1000,4096,65536,64Mi, callbacks set or unset and RE-ASSIGNED at run time (`setwc <id>`, "
            "`sethwm <id> <mark>`, id 0 = empty, from the loop thread and from inside callbacks; the harness prints which "
            "callback identity ran); 22% of the histories contain a crossing block (a send that crosses the mark while the "
            "kernel takes only its head, optionally over an existing backlog, with a callback script on the high-water callback: "
            "send / shutdown / forceClose / re-assign), 12% a re-bind block (notification scheduled, callback replaced or "
            "cleared before delivery), 40% are free of callback scripts; oracle: exact backlog replay incl. callback identity "
            "up to the first operation made inside a callback, on all histories: neither callback ever runs inside a user "
            "operation (only while the loop iterates) and never after the connection object is gone (6% of the histories end "
            "with an outlive block: notifications / foreign sends still queued when the owner destroys the connection), "
            "identities installed before, argument >= a mark in force; "
            "asserts-on/NDEBUG x epoll/poll")
    trusted_base = TRUSTED
    assumptions = ASSUME
    oracles = [conn_oracle.callback_oracle]
    profile = {"closes": False, "hookfree": 0.4}


PROP = Prop()
