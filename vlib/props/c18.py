"""C18 - stream decoders: kernel-checked theorems (Props/C18.lean) + differential run of the Lean models
against the real ProtobufCodecLite / RpcCodec / example ProtobufCodec and the real HttpContext + an
independent Python oracle (segmentation invariance and a reference decoding, both evaluated on the
implementation's own outputs)."""
import glob
import itertools
import os
import struct
import zlib

from ..common import CORPUS, load_known
from ..runner import Case, ddmin

MASK = (1 << 64) - 1
KMAX = 64 * 1024 * 1024   # the frame format's limit, as documented in ProtobufCodecLite.h (independent of T1)


def fnv64(b):
    h = 14695981039346656037
    for c in b:
        h = ((h ^ c) * 1099511628211) & MASK
    return h


def gen_bytes(seed, n):
    x = seed & MASK
    out = bytearray()
    for _ in range(n):
        x = (x * 6364136223846793005 + 1442695040888963407) & MASK
        out.append(x >> 56)
    return bytes(out)


def parse_bytes(tok):
    if tok.startswith("h:"):
        return bytes.fromhex(tok[2:])
    _, seed, n = tok.split(":")
    return gen_bytes(int(seed), int(n))


def hx(b):
    return "h:" + bytes(b).hex()


def read_case_file(path):
    engine, lines = None, []
    with open(path) as f:
        for l in f:
            l = l.rstrip("\n")
            if not l.strip() or l.startswith("#"):
                continue
            if l.startswith("engine="):
                engine = l.split()[0].split("=", 1)[1]
                continue
            lines.append(l)
    return engine, lines


# ============================================================================ segmentations

def all_segmentations(n):
    """every cut set of a stream of n bytes: 2^(n-1) of them"""
    for mask in range(1 << max(n - 1, 0)):
        yield [i + 1 for i in range(n - 1) if mask >> i & 1]


def chunks_of(stream, cuts):
    res, prev = [], 0
    for c in sorted(set(cuts)):
        if 0 < c < len(stream):
            res.append(stream[prev:c])
            prev = c
    res.append(stream[prev:])
    return res


def segmentations(rng, stream, marks, exh_limit, nrandom, count):
    """cut sets for one stream. marks = offsets where a cut is interesting (inside a length field, between CR and
    LF, unit boundaries). Short streams: every segmentation. Long: byte-by-byte, every single cut near a mark,
    all marks at once, random cut sets, empty chunks in between."""
    n = len(stream)
    if n < 2 and exh_limit == 0:
        yield []
        return
    if n <= exh_limit:
        count("seg:exhaustive", 1 << max(n - 1, 0))
        for cuts in all_segmentations(n):
            yield cuts
        return
    if n <= 600:
        count("seg:byte-by-byte")
        yield list(range(1, n))
    marks = sorted(set(m for m in marks if 0 < m < n))
    single = marks if len(marks) <= 40 else rng.sample(marks, 40)
    for m in single:
        count("seg:single-cut-at-mark")
        yield [m]
    if marks:
        count("seg:all-marks")
        yield marks
    for _ in range(nrandom):
        k = rng.choice([1, 1, 2, 3, 5, 8, min(n - 1, 20)])
        cuts = sorted(set(rng.randrange(1, n) for _ in range(k)))
        if marks and rng.random() < 0.5:
            cuts = sorted(set(cuts + [rng.choice(marks)]))
        count("seg:random-cuts")
        yield cuts


# ============================================================================ codec

def adler(b):
    return zlib.adler32(b) & 0xffffffff


def ref_frame(tag, payload):
    """the frame format of ProtobufCodecLite.h, written from its comment"""
    body = tag + payload + struct.pack(">I", adler(tag + payload))
    return struct.pack(">i", len(body)) + body


def ref_decode(tag, raw, stream, verdicts):
    """reference decoder of a whole stream. returns (events, left, dead, problem)"""
    evs, pos, n = [], 0, len(stream)
    minlen = len(tag) + 4
    while n - pos >= minlen + 4:
        (ln,) = struct.unpack(">i", stream[pos:pos + 4])
        if ln > KMAX or ln < minlen:
            return evs + ["err InvalidLength"], n - pos, 1, None
        if n - pos < 4 + ln:
            break
        body = stream[pos + 4:pos + 4 + ln]
        if raw == 2 and body[-1] & 1:
            pos += 4 + ln
            continue
        if struct.unpack(">I", body[-4:])[0] != adler(body[:-4]):
            return evs + ["err CheckSumError"], n - pos, 1, None
        if body[:len(tag)] != tag:
            return evs + ["err UnknownMessageType"], n - pos, 1, None
        payload = body[len(tag):-4]
        key = (fnv64(payload), len(payload))
        if key not in verdicts:
            return evs, n - pos, 0, "the implementation never handed payload %s to protobuf" % payload[:24].hex()
        if not verdicts[key]:
            return evs + ["err ParseError"], n - pos, 1, None
        evs.append("msg %d %d" % key[::-1])
        pos += 4 + ln
    return evs, n - pos, 0, None


EX_MIN = 10   # codec.h: kMinMessageLen = 2*kHeaderLen + 2 (nameLen, a one-character name with its NUL, checksum)


def ex_prefix(tn):
    """what stands between the length field and the payload in the example codec's frame: nameLen, typeName, NUL"""
    return struct.pack(">i", len(tn) + 1) + tn + b"\x00"


def ref_frame_ex(tn, payload):
    """the frame format of examples/protobuf/codec/codec.h, written from its comment: the example codec's frame is the
    Lite frame whose `tag` is nameLen + typeName + NUL"""
    return ref_frame(ex_prefix(tn), payload)


def ref_decode_ex(stream, known, verdicts):
    """reference decoder of the example codec. returns (events, left, dead, problem)"""
    evs, pos, n = [], 0, len(stream)
    while n - pos >= EX_MIN + 4:
        (ln,) = struct.unpack(">i", stream[pos:pos + 4])
        if ln > KMAX or ln < EX_MIN:
            return evs + ["err InvalidLength"], n - pos, 1, None
        if n - pos < 4 + ln:
            break
        body = stream[pos + 4:pos + 4 + ln]
        if struct.unpack(">I", body[-4:])[0] != adler(body[:-4]):
            return evs + ["err CheckSumError"], n - pos, 1, None
        (nl,) = struct.unpack(">i", body[:4])
        if not (2 <= nl <= ln - 8):
            return evs + ["err InvalidNameLen"], n - pos, 1, None
        tn, payload = body[4:4 + nl - 1], body[4 + nl:-4]
        k = (fnv64(tn), len(tn))
        if k not in known:
            return evs, n - pos, 0, "the driver never asked protobuf about the type name %r" % tn[:40]
        if not known[k]:
            return evs + ["err UnknownMessageType"], n - pos, 1, None
        key = tn + b"\x00" + payload
        k = (fnv64(key), len(key))
        if k not in verdicts:
            return evs, n - pos, 0, "the driver never handed payload %s to protobuf" % payload[:24].hex()
        if not verdicts[k]:
            return evs + ["err ParseError"], n - pos, 1, None
        evs.append("msg %s %d %d" % (tn.hex(), len(payload), fnv64(payload)))
        pos += 4 + ln
    return evs, n - pos, 0, None


class CodecCfg:
    def __init__(self, kind, tag=b"RPC0", raw=0):
        self.kind, self.tag, self.raw = kind, tag, raw

    def new_line(self):
        if self.kind == "ex":
            return "new ex"
        return "new rpc %d" % self.raw if self.kind == "rpc" else "new lite %s %d" % (hx(self.tag), self.raw)

    @staticmethod
    def of_line(line):
        w = line.split()
        if w[1] == "rpc":
            return CodecCfg("rpc", b"RPC0", int(w[2]))
        if w[1] == "lite":
            return CodecCfg("lite", parse_bytes(w[2]), int(w[3]))
        return CodecCfg("ex", b"", 0)


class CodecSide:
    engine = "codec"
    harness = "codec_drv"

    # ---------------------------------------------------------------- oracle (implementation's outputs only)
    def oracle(self, lines, blocks):
        fails = []
        ops = [l for l in lines if l.strip()]
        cfg = None
        verdicts = {}
        known = {}           # example codec: type names protobuf's registry was asked about
        groups = []          # per delivery group: [bytes fed, events, last st]
        encoded = []         # (fields string, payload, frame)
        cur = None
        for i, op in enumerate(ops):
            if i >= len(blocks):
                fails.append(("crash", "no output for step %d `%s`" % (i, op[:60])))
                break
            blk = blocks[i]
            if any(l.startswith("<<") for l in blk):
                fails.append(("crash", "step %d `%s`: %s" % (i, op[:60], blk[-1])))
                break
            w = op.split()
            obs = [l for l in blk if not l.startswith("<") and not l.startswith("#")]
            for l in blk:
                if l.startswith("< verdict "):
                    _, _, h, n, v = l.split()
                    key = (int(h), int(n))
                    if verdicts.get(key, v == "1") != (v == "1"):
                        fails.append(("codec-verdict", "step %d: protobuf changed its verdict on one payload" % i))
                    verdicts[key] = v == "1"
                elif l.startswith("< known "):
                    _, _, h, n, v = l.split()
                    known[(int(h), int(n))] = v == "1"
                elif l.startswith("# libverdict "):
                    x = l.split()
                    fails.append(("codec-parse-verdict", "step %d `%s`: the codec says a payload of %s bytes %s, protobuf's "
                                  "ParseFromArray on the whole payload says it %s: a payload that does not parse must be reported "
                                  "as a parse error and never delivered (and one that parses must be delivered)"
                                  % (i, op[:60], x[6], "parses" if x[2] == "1" else "does not parse",
                                     "parses" if x[4] == "1" else "does not parse")))
            if w[0] == "new":
                cfg = CodecCfg.of_line(op)
                verdicts, known, groups, encoded, cur = {}, {}, [], [], None
                want = "ok tag=" + cfg.tag.hex()
                if cfg.kind != "ex" and obs != [want]:
                    fails.append(("codec-tag", "step %d `%s`: %r, expected %r" % (i, op, obs, want)))
            elif cfg is None or obs == ["bad-op"]:
                continue
            elif w[0] == "reset":
                cur = None
            elif w[0] == "encode" and cfg.kind != "ex":
                pay = next((parse_bytes(l.split()[2]) for l in blk if l.startswith("< payload ")), None)
                fr = next((bytes.fromhex(l.split()[1]) if len(l.split()) > 1 else b"" for l in obs if l.startswith("frame")), None)
                if pay is None or fr is None:
                    fails.append(("codec-encode", "step %d `%s`: no frame" % (i, op[:60])))
                elif fr != ref_frame(cfg.tag, pay):
                    fails.append(("codec-encode", "step %d `%s`: fillEmptyBuffer produced %s, the frame format says %s" % (
                        i, op[:60], fr.hex()[:80], ref_frame(cfg.tag, pay).hex()[:80])))
                else:
                    encoded.append((self.fields_of_encode(cfg, w), pay, fr))
            elif w[0] == "encode":
                # the example codec: ProtobufCodec::fillEmptyBuffer against the frame format of codec.h
                pay = next((parse_bytes(l.split()[2]) for l in blk if l.startswith("< payload ")), None)
                tn = next((parse_bytes(l.split()[2]) for l in blk if l.startswith("< typename ")), None)
                fr = next((bytes.fromhex(l.split()[1]) if len(l.split()) > 1 else b"" for l in obs if l.startswith("frame")), None)
                if pay is None or tn is None or fr is None:
                    fails.append(("codec-encode", "step %d `%s`: no frame" % (i, op[:60])))
                elif fr != ref_frame_ex(tn, pay):
                    want = ref_frame_ex(tn, pay)
                    d = next((j for j in range(min(len(fr), len(want))) if fr[j] != want[j]), min(len(fr), len(want)))
                    fails.append(("codec-encode", "step %d `%s`: ProtobufCodec::fillEmptyBuffer produced a %d-byte frame that differs from "
                                  "the frame format's %d bytes from offset %d on (%s.. instead of %s..) for a %d-byte %s" % (
                                      i, op[:60], len(fr), len(want), d, fr[d:d + 16].hex(), want[d:d + 16].hex(), len(pay), tn.decode("latin1"))))
                else:
                    encoded.append(("ser %d %d" % (len(pay), fnv64(pay)), pay, fr))
            elif w[0] in ("feed", "poke"):
                if cur is None:
                    cur = [b"", [], None, [], i]
                    groups.append(cur)
                if w[0] == "feed":
                    cur[0] += parse_bytes(w[1])
                st = [l for l in obs if l.startswith("st ")]
                if len(st) != 1 or obs[-1] != st[0]:
                    fails.append(("crash", "step %d `%s`: malformed output %r" % (i, op[:60], obs[:3])))
                    break
                if cfg.kind != "ex":
                    bad = self.retained(i, op, obs)
                    if bad:
                        fails.append(bad)
                cur[1] += [l for l in obs if not l.startswith(("st ", "kept ", "distinct "))]
                cur[2] = st[0]
                cur[3] += [l for l in blk if l.startswith(("# fields", "# ser"))]
                if w[0] == "poke":
                    cur[2] = None   # not a delivery: excluded from the comparisons below
            elif w[0] == "bigframe":
                info = next((l for l in blk if l.startswith("# big ")), None)
                if info is None:
                    fails.append(("crash", "step %d `%s`: no result" % (i, op)))
                    continue
                kv = dict(x.split("=", 1) for x in info.split()[2:] if "=" in x)
                body, res = int(kv["body"]), info.split("result=", 1)[1]
                if body <= KMAX and not res.startswith("msg %s" % w[1]):
                    fails.append(("codec-roundtrip", "step %d: a %d-byte frame body (within the limit) came back as `%s`" % (i, body, res)))
                elif body > KMAX and res.startswith("msg"):
                    fails.append(("codec-reference", "step %d: a %d-byte frame body (above 64 MiB) was accepted" % (i, body)))
                elif body > KMAX:
                    fails.append(("codec-oversize", "step %d: the library encoded a message into a %d-byte frame body and "
                                  "its own decoder answers `%s`" % (i, body, res)))
            if fails and fails[-1][0] == "crash":
                break
        # segmentation invariance: every delivery of the same bytes gives the same events and the same rest
        first = {}
        for g in groups:
            if g[2] is None:
                continue
            k = g[0]
            out = (g[1], g[2])
            if k not in first:
                first[k] = (out, g[4])
            elif first[k][0] != out:
                fails.append(("codec-segmentation", "the deliveries starting at steps %d and %d carry the same %d bytes but give %r / %r" % (
                    first[k][1], g[4], len(k), first[k][0], out)))
                break
        # the reference decoding
        if cfg is not None and cfg.kind != "ex":
            by_payload = {}
            for f, pay, fr in encoded:
                by_payload.setdefault((len(pay), fnv64(pay)), set()).add(f)
            for g in groups:
                if g[2] is None:
                    continue
                evs, left, dead, problem = ref_decode(cfg.tag, cfg.raw, g[0], verdicts)
                got = (g[1], g[2])
                if problem or got != (evs, "st left=%d dead=%d" % (left, dead)):
                    fails.append(("codec-reference", "delivery at step %d (%d bytes): implementation %r, reference decoder %r%s" % (
                        g[4], len(g[0]), got, (evs, "st left=%d dead=%d" % (left, dead)), " (" + problem + ")" if problem else "")))
                    break
                # a delivered message equals the message that was encoded (field by field, as protobuf reports them)
                msgs = [e for e in g[1] if e.startswith("msg ")]
                if len(msgs) == len(g[3]):
                    for e, f in zip(msgs, g[3]):
                        k = (int(e.split()[1]), int(e.split()[2]))
                        if k in by_payload and f[len("# fields "):] not in by_payload[k]:
                            fails.append(("codec-roundtrip", "delivery at step %d: decoded `%s`, encoded %r" % (g[4], f, sorted(by_payload[k]))))
                            break
        if cfg is not None and cfg.kind == "ex":
            frames = dict(((len(pay), fnv64(pay)), f) for f, pay, fr in encoded)
            for g in groups:
                if g[2] is None:
                    continue
                evs, left, dead, problem = ref_decode_ex(g[0], known, verdicts)
                got = (g[1], g[2])
                if problem or got != (evs, "st left=%d dead=%d" % (left, dead)):
                    fails.append(("codec-reference", "delivery at step %d (%d bytes): implementation %r, reference decoder %r%s" % (
                        g[4], len(g[0]), got, (evs, "st left=%d dead=%d" % (left, dead)), " (" + problem + ")" if problem else "")))
                    break
                # a message the library encoded decodes to an equal message (its serialisation is the encoded payload)
                msgs = [e for e in g[1] if e.startswith("msg ")]
                if len(msgs) == len(g[3]):
                    for e, f in zip(msgs, g[3]):
                        k = (int(e.split()[2]), int(e.split()[3]))
                        if k in frames and f[2:] != frames[k]:
                            fails.append(("codec-roundtrip", "delivery at step %d: decoded `%s`, encoded `%s`" % (g[4], f, frames[k])))
                            break
        return fails

    @staticmethod
    def retained(i, op, obs):
        """one onMessage() call: the consumer keeps every shared_ptr it is handed; after the call has returned each kept
        pointer must still hold the message it was delivered with (`kept` lines, printed from the kept pointers, against
        the `msg` lines, printed inside the callbacks), and the pointers of one call must be distinct objects"""
        msgs = [l.split()[1:3] for l in obs if l.startswith("msg ")]
        kept = [l.split() for l in obs if l.startswith("kept ")]
        dist = [l.split() for l in obs if l.startswith("distinct ")]
        if len(dist) != 1 or len(kept) != len(msgs) or any(len(k) not in (5, 6) for k in kept):
            return ("crash", "step %d `%s`: %d messages delivered, %d retained, %d `distinct` lines" % (i, op[:60], len(msgs), len(kept), len(dist)))
        for n, (m, k) in enumerate(zip(msgs, kept)):
            if k[3] == "changed" or k[-2:] != m:
                return ("codec-retained", "step %d `%s`: message %d of this onMessage() call was delivered as `msg %s` but the pointer the "
                        "consumer kept holds `%s` after the call returned (%d messages in this call): a message handed out did not "
                        "stay the message" % (i, op[:60], n, " ".join(m), " ".join(k[3:]), len(msgs)))
        objs = [k[2] for k in kept]
        if dist[0][1] != ("1" if len(set(objs)) == len(objs) else "0") or dist[0][2] != "n=%d" % len(kept):
            return ("crash", "step %d `%s`: `%s` contradicts the object identities %r" % (i, op[:60], " ".join(dist[0]), objs))
        if dist[0][1] != "1":
            return ("codec-shared-object", "step %d `%s`: the %d messages delivered by this onMessage() call are not distinct objects "
                    "(object identities %r)" % (i, op[:60], len(kept), objs))
        return None

    @staticmethod
    def fields_of_encode(cfg, w):
        def b(tok):
            return "-" if tok == "-" else "h:" + parse_bytes(tok).hex()
        if cfg.kind == "rpc":
            return "rpc t=%d id=%d s=%s m=%s rq=%s rs=%s e=%s" % (int(w[1]), int(w[2]), b(w[3]), b(w[4]), b(w[5]), b(w[6]), w[7])
        return "list n=%s l=%s" % (b(w[1]), w[2])

    # ---------------------------------------------------------------- generators
    def configs(self, rng, quick):
        cs = [CodecCfg("rpc", raw=0), CodecCfg("rpc", raw=1), CodecCfg("rpc", raw=2),
              CodecCfg("lite", b"", 0), CodecCfg("lite", b"A", 0), CodecCfg("lite", b"LIST", 2),
              CodecCfg("lite", bytes([0xff, 0x00]), 1), CodecCfg("lite", b"0123456789ab", 0),
              CodecCfg("ex")]   # the example ProtobufCodec: both directions, as the Lite codecs
        return cs

    # A fresh muduo::net::Buffer has 1024 writable bytes; an encoder that appends more makes it grow (reallocate).  Sizes
    # of the variable part of a message that put the frame just below, at and above that boundary (whatever the fixed
    # overhead of the codec and message type: every size from 960 to 1040 occurs), the next powers of two, and large.
    GROWTH_SIZES = [0, 1, 2, 100, 500] + list(range(960, 1041, 4)) + [1023, 1025, 2040, 2048, 2060, 4096, 8192, 65535, 65536, 70000]

    def boundary_encode_lines(self, rng, cfg, quick):
        sizes = self.GROWTH_SIZES if not quick else [n for j, n in enumerate(self.GROWTH_SIZES) if j % 2 == 0 or n in (1023, 1025, 4096, 65536)]
        out = []
        for n in sizes:
            blob = "g:%d:%d" % (rng.randrange(1 << 30), n)
            if cfg.kind == "rpc":
                out.append("encode 1 %d - - %s - -" % (n, blob))
            elif cfg.kind == "ex":
                out.append("encode %s %d %s" % (rng.choice("qa"), n, blob))
            else:
                out.append("encode %s -" % blob)
        return out

    def encode_line(self, rng, cfg):
        def text():
            return rng.choice([b"", b"a", b"Echo", b"muduo.EchoService", bytes([0xe4, 0xb8, 0xad]), b"x" * 127, b"y" * 128])

        def blob():
            r = rng.random()
            if r < 0.5:
                n = rng.choice([0, 1, 2, 3, 5, 8, 13])
            elif r < 0.8:
                n = rng.choice([31, 64, 100, 126, 127, 128, 129, 255, 256, 300])
            elif r < 0.9:
                n = rng.randrange(900, 1101)          # around the first growth of the encoder's Buffer
            elif r < 0.985:
                n = rng.choice([1000, 4096, 16383, 16384])
            else:
                n = rng.choice([65535, 70000])
            return gen_bytes(rng.randrange(1 << 30), n)

        def opt(v):
            return "-" if rng.random() < 0.35 else hx(v)
        if cfg.kind == "ex":
            # encode <q|a|e> <id> <text>: muduo.Query / muduo.Answer (text in one / two string fields) / muduo.Empty
            t = rng.choice("qqaae")
            ident = rng.choice([0, 1, 127, 128, (1 << 31) - 1, rng.randrange(1 << 31)])
            if t == "e":
                return "encode e %s h:" % rng.choice(["-", str(ident)])
            return "encode %s %d %s" % (t, ident, hx(text()) if rng.random() < 0.3 else "g:%d:%d" % (rng.randrange(1 << 30), len(blob())))
        if cfg.kind == "rpc":
            ident = rng.choice([0, 1, 255, 256, (1 << 63) - 1, 1 << 63, (1 << 64) - 1, rng.randrange(1 << 64)])
            err = "-" if rng.random() < 0.6 else str(rng.randrange(0, 7))
            return "encode %d %d %s %s %s %s %s" % (rng.choice([1, 1, 2, 2, 3]), ident, opt(text()), opt(text()),
                                                    opt(blob()), opt(blob()), err)
        return "encode %s %s" % (opt(text() if rng.random() < 0.7 else blob()), rng.choice(["-", "0", "1"]))

    LEN_ATTACKS = ["neg1", "min32", "zero", "min-1", "min", "min+1", "max", "max+1", "max32", "len-1", "len+1", "random"]

    def attack_len(self, rng, cfg, kind, true_len):
        m = EX_MIN if cfg.kind == "ex" else len(cfg.tag) + 4
        v = {"neg1": -1, "min32": -(1 << 31), "zero": 0, "min-1": m - 1, "min": m, "min+1": m + 1, "max": KMAX,
             "max+1": KMAX + 1, "max32": (1 << 31) - 1, "len-1": true_len - 1, "len+1": true_len + 1,
             "random": rng.randrange(-(1 << 31), 1 << 31)}[kind]
        return struct.pack(">i", v)

    def make_stream(self, rng, cfg, pool, cls):
        """returns (stream bytes, marks, ends of the frames as built - before a truncation)"""
        tag = cfg.tag
        k = rng.choice([1, 2, 2, 3, 3, 5])
        small = [f for f in pool if len(f[1]) <= 400] or pool
        frames = [rng.choice(pool if rng.random() < 0.15 else small) for _ in range(k)]
        parts = [f[1] for f in frames]
        j = rng.randrange(len(parts))
        pay = frames[j][0]
        if len(frames[j]) > 2:
            tag = frames[j][2]

        def rebuild(newtag, newpay, ck=None, ln=None):
            body = newtag + newpay
            body += struct.pack(">I", adler(body) if ck is None else ck)
            return struct.pack(">i", len(body) if ln is None else ln) + body
        if cls == "valid":
            pass
        elif cls == "truncated":
            pass
        elif cls == "bitflip":
            f = bytearray(parts[j])
            r = rng.random()
            if r < 0.3:
                p = rng.randrange(0, 4)
            elif r < 0.5 and tag:
                p = 4 + rng.randrange(len(tag))
            elif r < 0.7:
                p = len(f) - 1 - rng.randrange(4)
            else:
                p = rng.randrange(len(f))
            f[p] ^= 1 << rng.randrange(8)
            parts[j] = bytes(f)
        elif cls == "multibyte":
            f = bytearray(parts[j])
            p = rng.randrange(len(f))
            for q in range(p, min(len(f), p + rng.randrange(2, 9))):
                f[q] = rng.randrange(256)
            parts[j] = bytes(f)
        elif cls == "tag-recomputed":
            t = bytearray(tag)
            if cfg.kind == "ex" and rng.random() < 0.6:
                # the example codec's "tag" starts with nameLen: adversarial values with a right checksum behind them
                true = len(t) - 4
                body = len(t) + len(pay) + 4
                v = rng.choice([0, 1, 2, true - 1, true + 1, body - 8, body - 7, body, -1, -(1 << 31), (1 << 31) - 1])
                t[0:4] = struct.pack(">i", v)
            elif t:
                t[rng.randrange(len(t))] ^= 1 << rng.randrange(8)
            else:
                t = bytearray(b"")
            parts[j] = rebuild(bytes(t), pay)
        elif cls == "payload-recomputed":
            p = bytearray(pay)
            r = rng.random()
            if r < 0.3 and p:
                p[rng.randrange(len(p))] ^= 1 << rng.randrange(8)
            elif r < 0.5 and p:
                p = p[:rng.randrange(len(p))]
            elif r < 0.7:
                p = bytearray(gen_bytes(rng.randrange(1 << 30), rng.choice([0, 1, 2, 5, 20])))
            elif r < 0.85:
                p = bytearray(b"")
            else:
                # something after a complete message: a zero tag / a stray END_GROUP tag (where a stream parser that is not
                # asked to consume everything stops "cleanly"), any byte, then more bytes; the checksum is right
                p += bytes([rng.choice([0, 0, 0x0c, 0x04, rng.randrange(256)])]) + gen_bytes(rng.randrange(1 << 30), rng.choice([0, 0, 1, 5, 30]))
            parts[j] = rebuild(tag, bytes(p))
        elif cls == "length-field":
            kind = rng.choice(self.LEN_ATTACKS)
            true_len = len(parts[j]) - 4
            parts[j] = self.attack_len(rng, cfg, kind, true_len) + parts[j][4:]
            if kind in ("min", "min+1") and rng.random() < 0.5:
                # a frame that really is that short, with a right checksum
                parts[j] = rebuild(tag, b"" if kind == "min" else bytes([rng.randrange(256)]))
        elif cls == "checksum-only":
            parts[j] = rebuild(tag, pay, ck=rng.choice([0, 1, 0xffffffff, adler(tag + pay) ^ (1 << rng.randrange(32)), adler(pay)]))
        elif cls == "garbage":
            parts = [gen_bytes(rng.randrange(1 << 30), rng.choice([0, 1, 3, 4, 7, 8, 9, 11, 12, 16, 40, 100]))]
            if rng.random() < 0.5:
                # plausible length field in front of garbage
                n = rng.choice([len(tag) + 4, len(tag) + 5, 16, 30])
                parts = [struct.pack(">i", n) + gen_bytes(rng.randrange(1 << 30), rng.choice([n, n - 1, n + 3]))]
        marks, ends, pos = [], [], 0
        for p in parts:
            marks += [pos + 1, pos + 2, pos + 3, pos + 4, pos + 4 + len(tag), pos + len(p) - 4, pos + len(p) - 1, pos + len(p)]
            pos += len(p)
            ends.append(pos)
        stream = b"".join(parts)
        if cls == "truncated" or (cls != "valid" and rng.random() < 0.15):
            r = rng.random()
            last = len(stream) - len(parts[-1])
            if r < 0.35:
                cut = last + rng.randrange(0, 5)            # inside the last length field
            elif r < 0.6:
                cut = len(stream) - 1 - rng.randrange(0, 4)  # inside the checksum
            elif r < 0.75:
                cut = last + min(len(tag) + 7, len(parts[-1]) - 1)   # one byte short of header+minimal frame
            else:
                cut = rng.randrange(0, len(stream) + 1)
            stream = stream[:max(cut, 0)]
        elif rng.random() < 0.2:
            stream += gen_bytes(rng.randrange(1 << 30), rng.choice([1, 2, 3, 4, 5, 8]))
        return stream, marks, ends

    @staticmethod
    def large_chunk_cuts(rng, n, ends, count):
        """cut sets that leave SEVERAL complete frames in one delivery (one onMessage() call decodes >= 2 of them): groups
        of 2 and of 3 whole frames, and two whole frames plus the beginning of the next"""
        ends = [e for e in ends if 0 < e < n]
        res = []
        for g in (2, 3):
            cuts = ends[g - 1::g]
            if cuts and len(ends) + 1 > g:
                count("seg:groups-of-%d-frames" % g)
                res.append(cuts)
        if len(ends) >= 2:
            c = min(n - 1, ends[1] + rng.choice([1, 2, 3, 4, 5, 9]))
            count("seg:two-frames-and-a-bit")
            res.append([c] + [e for e in ends[3::2] if e > c])
        return res

    CLASSES_VALID = ["valid", "valid", "valid", "truncated", "truncated"]
    CLASSES_BAD = ["bitflip", "bitflip", "multibyte", "tag-recomputed", "payload-recomputed", "payload-recomputed",
                   "length-field", "length-field", "checksum-only", "garbage"]

    def scenario(self, cfg, stream, cutsets):
        lines = [cfg.new_line(), "feed " + hx(stream)]
        for cuts in cutsets:
            lines.append("reset")
            cs = chunks_of(stream, cuts)
            for c in cs:
                lines.append("feed " + hx(c))
        return lines

    def short_streams(self, rng):
        """streams short enough for every segmentation: minimal frames of codecs with a short tag"""
        out = []
        c0 = CodecCfg("lite", b"", 0)
        c1 = CodecCfg("lite", b"A", 0)
        c2 = CodecCfg("lite", b"A", 2)
        out.append((c0, ref_frame(b"", b"")))                         # 8 bytes: one empty message
        out.append((c0, ref_frame(b"", b"\x10\x01")))                 # 10 bytes: list_method = true
        out.append((c1, ref_frame(b"A", b"\x10\x00")))                # 11 bytes
        out.append((c1, ref_frame(b"A", b"")[:-1] + b"\x00"))         # checksum error
        out.append((c1, ref_frame(b"B", b"")))                        # unknown tag, checksum right
        out.append((c0, ref_frame(b"", b"\x0a\x05")))                 # truncated string field: ParseError
        out.append((c0, struct.pack(">i", 3) + b"\x00" * 7))          # below the minimum
        out.append((c0, struct.pack(">i", -1) + b"\x00" * 4))
        out.append((c0, struct.pack(">i", KMAX + 1) + b"\x00" * 5))
        out.append((c0, struct.pack(">i", KMAX) + b"\x00" * 6))       # at the maximum: waits
        out.append((c2, ref_frame(b"A", b"")))                        # raw callback decides by the last byte
        out.append((c0, ref_frame(b"", b"")[:7]))
        out.append((c0, ref_frame(b"", b"") + b"\x00\x00\x00"))
        return out

    def two_frame_streams(self):
        c0 = CodecCfg("lite", b"", 0)
        a, b = ref_frame(b"", b""), ref_frame(b"", b"\x10\x01")
        return [(c0, a + a), (c0, a + b[:9]), (c0, a + struct.pack(">i", 2) + b"\x00\x00\x00\x00")]



# ============================================================================ http

import re

# request-target: non-empty, no SP, no CTL, and not beginning with "?" (the path is not empty)
REQ_LINE = re.compile(rb"(GET|POST|HEAD|PUT|DELETE) ([^\x00-\x20\x7f?][^\x00-\x20\x7f]*) HTTP/1\.([01])", re.S)
# the three relaxations below are NOT part of the reference: they only name the kind of a disagreement (the defects F19
# that were repaired in /repo; if one of them comes back it is reported as a violation with that kind)
REQ_LINE_EMPTY_TARGET = re.compile(rb"(GET|POST|HEAD|PUT|DELETE) () HTTP/1\.([01])", re.S)
REQ_LINE_EMPTY_PATH = re.compile(rb"(GET|POST|HEAD|PUT|DELETE) (\?[^\x00-\x20\x7f]*) HTTP/1\.([01])", re.S)
REQ_LINE_CTL = re.compile(rb"(GET|POST|HEAD|PUT|DELETE) ([^ ]+) HTTP/1\.([01])", re.S)
C_SPACE = b" \t\n\v\f\r"


def req_text(method, ver, path, query, headers):
    o = "%s %s h:%s h:%s" % (method, ver, path.hex(), query.hex())
    for k in sorted(headers):
        o += " h:%s=h:%s" % (k.hex(), headers[k].hex())
    return o


def ref_http(stream, lenient=()):
    """reference decoding of a request stream, written from the HTTP/1.x grammar: request line =
    METHOD SP request-target SP "HTTP/1." ("0"|"1") with a non-empty target free of SP and CTL whose path (the part in
    front of the first "?") is not empty; header lines
    `field: value` (value trimmed) up to the first line without a colon; lines end with CR LF.
    returns (events, left, dead, partial)"""
    evs, pos, n = [], 0, len(stream)
    none = "UNKNOWN ? h: h:"
    while True:
        idx = stream.find(b"\r\n", pos)
        if idx < 0:
            return evs, n - pos, 0, none
        line = stream[pos:idx]
        m = REQ_LINE.fullmatch(line)
        if m is None and "empty-target" in lenient:
            m = REQ_LINE_EMPTY_TARGET.fullmatch(line)
        if m is None and "empty-path" in lenient:
            m = REQ_LINE_EMPTY_PATH.fullmatch(line)
        if m is None and "ctl" in lenient:
            m = REQ_LINE_CTL.fullmatch(line)
        if m is None:
            return evs + ["bad"], n - pos, 1, "-"
        target = m.group(2)
        q = target.find(b"?")
        path, query = (target, b"") if q < 0 else (target[:q], target[q:])
        method, ver = m.group(1).decode(), "1." + m.group(3).decode()
        headers = {}
        pos = idx + 2
        while True:
            idx = stream.find(b"\r\n", pos)
            if idx < 0:
                return evs, n - pos, 0, req_text(method, ver, path, query, headers)
            line = stream[pos:idx]
            pos = idx + 2
            c = line.find(b":")
            if c < 0:
                break
            headers[line[:c]] = line[c + 1:].strip(C_SPACE)
        evs.append("req " + req_text(method, ver, path, query, headers))


class HttpSide:
    engine = "http"
    harness = "http_drv"

    def oracle(self, lines, blocks):
        fails = []
        ops = [l for l in lines if l.strip()]
        groups, cur = [], None
        for i, op in enumerate(ops):
            if i >= len(blocks):
                fails.append(("crash", "no output for step %d `%s`" % (i, op[:60])))
                break
            blk = blocks[i]
            if any(l.startswith("<<") for l in blk):
                fails.append(("crash", "step %d `%s`: %s" % (i, op[:60], blk[-1])))
                break
            w = op.split()
            obs = [l for l in blk if not l.startswith("<") and not l.startswith("#")]
            if w[0] in ("new", "reset"):
                cur = None
            elif w[0] == "feed" and obs != ["bad-op"]:
                if cur is None:
                    cur = [b"", [], None, i]
                    groups.append(cur)
                cur[0] += parse_bytes(w[1])
                st = [l for l in obs if l.startswith("st ")]
                if len(st) != 1 or obs[-1] != st[0]:
                    fails.append(("crash", "step %d `%s`: malformed output %r" % (i, op[:60], obs[:3])))
                    break
                cur[1] += [l for l in obs if not l.startswith("st ")]
                cur[2] = st[0]
        first = {}
        for g in groups:
            out = (g[1], g[2])
            if g[0] not in first:
                first[g[0]] = (out, g[3])
            elif first[g[0]][0] != out:
                fails.append(("http-segmentation", "the deliveries starting at steps %d and %d carry the same %d bytes but give %r / %r" % (
                    first[g[0]][1], g[3], len(g[0]), first[g[0]][0], out)))
                break
        for g in groups:
            got = (g[1], g[2])

            def want(lenient):
                evs, left, dead, partial = ref_http(g[0], lenient)
                return (evs, "st left=%d dead=%d partial=%s" % (left, dead, partial))
            if got == want(()):
                continue
            if got == want(("empty-target",)):
                kind = "http-empty-target-accepted"
            elif got == want(("empty-path",)):
                kind = "http-empty-path-accepted"
            elif got == want(("ctl",)) or got == want(("ctl", "empty-target")):
                kind = "http-control-byte-in-target-accepted"
            else:
                kind = "http-reference"
            fails.append((kind, "delivery at step %d (%d bytes %s): implementation %r, reference parser %r" % (
                g[3], len(g[0]), g[0][:48].hex(), got, want(()))))
            break
        return fails

    # ---------------------------------------------------------------- generators
    METHODS = [b"GET", b"POST", b"HEAD", b"PUT", b"DELETE"]
    TARGETS = [b"/", b"/a", b"/index.html", b"/a/b/c", b"/x?y=1", b"/?", b"/a?b?c", b"*", b"http://h/p?q", b"/" + b"p" * 300,
               b"/%20", b"/\xe4\xb8\xad", b"/a:b", b"/;a=1", b"/\x80\xff", b"/~!$&'()*+,=@", b"a"]
    FIELDS = [b"Host", b"Connection", b"Accept", b"X", b"x", b"Content-Length", b"host", b"A-b", b"", b"Z" * 40]
    VALUES = [b"a", b"localhost:8000", b"close", b"Keep-Alive", b"", b"a b", b"a:b", b"*/*", b"v" * 200, b"\xff\x80"]

    def header_line(self, rng):
        f, v = rng.choice(self.FIELDS), rng.choice(self.VALUES)
        pre = rng.choice([b" ", b" ", b"", b"  ", b"\t", b" \t "])
        post = rng.choice([b"", b"", b" ", b"\t", b"  ", b" \r", b"\x0b"])
        return f + b":" + pre + v + post

    def valid_request(self, rng):
        line = rng.choice(self.METHODS) + b" " + rng.choice(self.TARGETS) + b" HTTP/1." + rng.choice([b"0", b"1"])
        hs = [self.header_line(rng) for _ in range(rng.choice([0, 0, 1, 1, 2, 3, 5]))]
        return b"\r\n".join([line] + hs + [b"", b""])

    BAD_LINES = [b"get / HTTP/1.1", b"Get / HTTP/1.1", b"OPTIONS / HTTP/1.1", b"PATCH /x HTTP/1.1", b"GETT / HTTP/1.1", b"GE / HTTP/1.1",
                 b" GET / HTTP/1.1", b"GET / HTTP/1.1 ", b"GET  / HTTP/1.1", b"GET /  HTTP/1.1", b"GET\t/ HTTP/1.1", b"GET /\tHTTP/1.1",
                 b"GET / HTTP/1.2", b"GET / HTTP/1.10", b"GET / HTTP/2.0", b"GET / HTTP/1.", b"GET / HTTP/1", b"GET / http/1.1",
                 b"GET / HTTP/0.9", b"GET / HTTP/1.1x", b"GET / XHTTP/1.1", b"GET /", b"GET / ", b"GET", b"GET ", b"", b" ", b"  ",
                 b"/ GET HTTP/1.1", b"GET /a b HTTP/1.1", b"DELETE", b"PUT /x", b"HEAD / HTTP/1.1\r", b"\x00GET / HTTP/1.1",
                 b"GET / HTTP/1.\x00", b"POST / HTTP/1.\xb1", b"GET / HTTP\x001.1"]
    # the lines the unrepaired parser accepted (F19): empty target, query without a path, control bytes in the target
    F19_LINES = [b"GET  HTTP/1.1", b"POST  HTTP/1.0", b"GET /\x01 HTTP/1.0", b"GET /a\x7fb HTTP/1.1", b"GET \x00 HTTP/1.1", b"PUT /\r HTTP/1.1",
                 b"GET /\n HTTP/1.1", b"DELETE /a\tb HTTP/1.0", b"GET ? HTTP/1.1", b"HEAD ?x HTTP/1.0", b"PUT ?? HTTP/1.1", b"GET /\x1f HTTP/1.1",
                 b"GET \x7f HTTP/1.0", b"POST /a?b\x00c HTTP/1.1", b"GET ?\x01 HTTP/1.1"]

    def make_stream(self, rng, cls):
        if cls == "valid":
            # keep-alive / pipelined: several requests on one connection, the context is reset() between them
            s = b"".join(self.valid_request(rng) for _ in range(rng.choice([1, 2, 2, 3, 4])))
        elif cls == "truncated":
            s = b"".join(self.valid_request(rng) for _ in range(rng.choice([1, 2])))
            r = rng.random()
            crs = [i for i in range(len(s)) if s[i:i + 1] == b"\r"]
            if r < 0.4 and crs:
                s = s[:rng.choice(crs) + 1]          # between CR and LF
            elif r < 0.6 and crs:
                s = s[:rng.choice(crs)]
            else:
                s = s[:rng.randrange(len(s))]
        elif cls == "bad-line":
            pre = b"".join(self.valid_request(rng) for _ in range(rng.choice([0, 0, 1])))
            s = pre + rng.choice(self.BAD_LINES) + b"\r\n" + rng.choice([b"", b"\r\n", b"Host: x\r\n\r\n"])
        elif cls == "f19-line":
            s = rng.choice(self.F19_LINES) + b"\r\n" + rng.choice([b"\r\n", b"Host: x\r\n\r\n"])
        elif cls == "bitflip":
            s = bytearray(b"".join(self.valid_request(rng) for _ in range(rng.choice([1, 2]))))
            first = s.find(b"\r\n")
            p = rng.randrange(first + 2) if rng.random() < 0.6 else rng.randrange(len(s))
            s[p] ^= 1 << rng.randrange(8)
            s = bytes(s)
        elif cls == "line-ends":
            r = self.valid_request(rng)
            s = rng.choice([r.replace(b"\r\n", b"\n"), r.replace(b"\r\n", b"\r"), r.replace(b"\r\n", b"\r\r\n", 1),
                            r.replace(b"\r\n", b"\n\r\n", 1), b"\r\n" + r, r[:-2] + b"\r", r.replace(b"\r\n", b"\r\n ", 1)])
        elif cls == "header-forms":
            line = rng.choice(self.METHODS) + b" / HTTP/1.1"
            hs = [rng.choice([b"NoColonHere", b":", b"::", b": ", b"a:", b":b", b"a:b:c", b" a : b ", b"a: \t \x0b\x0c", b"a:\r", b"k:v1",
                              b"k:v2", b"K:v3", b"\x00:\x00", b"a b: c"]) for _ in range(rng.choice([1, 2, 3, 4]))]
            s = b"\r\n".join([line] + hs + [b"", b""]) + rng.choice([b"", b"GET / HTTP/1.0\r\n\r\n"])
        else:  # garbage
            s = gen_bytes(rng.randrange(1 << 30), rng.choice([0, 1, 2, 5, 17, 60]))
            if rng.random() < 0.5:
                s += b"\r\n"
        marks = []
        for i in range(len(s)):
            c = s[i:i + 1]
            if c == b"\r":
                marks += [i, i + 1, i + 2]
            elif c in (b" ", b":", b"?"):
                marks += [i, i + 1]
        return s, marks

    CLASSES_VALID = ["valid", "valid", "valid", "truncated", "truncated"]
    CLASSES_BAD = ["bad-line", "bad-line", "bad-line", "f19-line", "bitflip", "bitflip", "line-ends", "header-forms", "header-forms", "garbage"]

    def scenario(self, stream, cutsets):
        lines = ["new", "feed " + hx(stream)]
        for cuts in cutsets:
            lines.append("reset")
            for c in chunks_of(stream, cuts):
                lines.append("feed " + hx(c))
        return lines

    def short_streams(self):
        return [b"\r\n", b"GET\r\n", b"GET / H\r\n", b"G\r\r\n\n", b"GET / HTTP/", b"PUT  HTTP/1", b"\r\r\n\r\n", b"A B C\r\n\r\n"]


def small_cut_sets(n, kmax):
    for k in range(kmax + 1):
        for cs in itertools.combinations(range(1, n), k):
            yield list(cs)


# ============================================================================ the property

class Prop:
    id = "C18"
    lean_module = "MuduoVerif.Props.C18"
    gen_engines = ["Codec", "Http", "CodecSkel", "HttpSkel"]   # *Skel: statement skeletons (statement_order_tied)
    drivers = ["codec", "http"]
    technique = ("Lean 4 theorems over incremental-decoder models (generic segmentation theorem by induction over chunks, "
                 "round trip, classification, bounded consumption; HTTP request line against a declarative spec) + T1 "
                 "extraction of constants, guards, offsets and decision trees + differential run vs. the real "
                 "ProtobufCodecLite/RpcCodec/HttpContext + independent Python reference decoders on the implementation's outputs")
    level_text = ("Kernel-checked theorems for all byte streams and all segmentations: feeding any chunks equals feeding the "
                  "concatenation (messages, first error, unconsumed bytes); encode/decode round trip under the explicit size "
                  "guard and the theorem for the excluded branch (F12); classification of malformed frames in the code's "
                  "order; a consumed frame's verdict depends on exactly its 4+len bytes; HTTP request line accepted iff it "
                  "matches the declarative spec METHOD SP target SP HTTP/1.(0|1) with a non-empty, SP- and CTL-free target "
                  "whose path is not empty (line_valid_iff, full strength since the repair of F19) and what an accepted line "
                  "sets (line_valid_result); HTTP segmentation invariance (http_seg_invariant: the nested parseRequest/"
                  "HttpServer driver equals the flattened line loop, then the generic theorem), only complete lines are "
                  "consumed (only_complete_lines), termination under the stated precondition (http_terminates) and the "
                  "non-termination outside it (parse_spins); the messages one onMessage() call hands out are pairwise distinct objects "
                  "that still hold what they were delivered with when the call returns (delivered_messages_are_fresh, over an "
                  "explicit heap model under the extracted allocation site allocPerFrame; shared_object_is_overwritten is the "
                  "witness for the other discipline); the example ProtobufCodec's encoder and decoder round-trip for every type name "
                  "and payload within the size limit (ex_roundtrip). Constants, guards, "
                  "offsets and decision trees of the models are re-extracted from /repo on every run; the loops and slicing are "
                  "tied by the differential run; zlib's Adler-32 and protobuf's verdicts are environment")
    level_note = ("Trusted: Lean kernel (axioms propext, Classical.choice, Quot.sound only), vlib/extract.py + vlib/gen/codec.py, "
                  "vlib/gen/http.py, the hand-written parts of Model/Codec.lean, Model/Http.lean, Model/Stream.lean as far as the "
                  "differential run exercises them, protobuf (its parse verdicts - ParseFromArray of a fresh message on the whole payload, taken by the harness next to the codec's own call, not from it - are recorded and fed to the model), zlib. "
                  "Real pointer arithmetic is watched only by ASan/UBSan (thorough tier).")
    rule = ("byte streams: concatenations of 1-5 frames produced by the real encoder (mostly-valid generator), truncations, "
            "single-bit flips, multi-byte overwrites, tag/payload corruption with recomputed checksum, adversarial length "
            "fields (-1, -2^31, 0, min-1, min, min+1, 64Mi, 64Mi+1, 2^31-1, len+-1, random), wrong checksums, bytes after a complete "
            "message (zero tag / END_GROUP tag / any byte, then more bytes) with a right checksum, garbage (separate "
            "malformed generator); every segmentation (all 2^(n-1)) of streams up to 11 (quick) / 14 (thorough) bytes, "
            "byte-by-byte, every single cut at a mark (inside each length field, around tag and checksum, frame ends; "
            "HTTP: between CR and LF, around separators), all marks at once and random cut sets for longer ones; "
            "all three codecs (RpcCodec, ProtobufCodecLite with several tags, the example ProtobufCodec of examples/protobuf/codec) "
            "in both directions: the real encoders on message sizes 0, 1, 2, 100, 500, every 4th size from 960 to 1040, 1023, 1025, "
            "~2 KiB, 4 KiB, 8 KiB, 64 KiB, 70000 (both sides of every growth of the encoder's Buffer) and random sizes, each frame "
            "compared with the documented frame format, then decoded in arbitrary segmentations (round trip) and corrupted as above "
            "(example codec also: adversarial nameLen with a recomputed checksum, unknown type names); the encoders and streams of "
            "their frames again under ASan+UBSan in the quick tier; "
            "codec: deliveries that hold groups of 2 and of 3 whole frames, and two frames plus the beginning of a third (one "
            "onMessage() call decodes several frames; the harness keeps every MessagePtr and reports object identity and content after "
            "the call returned); HTTP: 1-4 requests per connection with reset() between them; "
            "one evaluation = one stream with all its segmentations; non-trivial = at least one message, request or error; "
            "distinct = distinct implementation traces")
    trusted_base = [
        "Lean 4.33.0 kernel; axioms allowed: propext, Classical.choice, Quot.sound",
        "vlib/extract.py with vlib/gen/codec.py, vlib/gen/http.py (clang-14 JSON AST -> Generated/Codec.lean, Generated/Http.lean)",
        "vlib/gen/codecskel.py, vlib/gen/httpskel.py (statement skeletons -> Generated/CodecSkel.lean, Generated/HttpSkel.lean) and the "
        "reading of the models in Model/CodecSkelDecl.lean, Model/HttpSkelDecl.lean (theorem statement_order_tied)",
        "hand-written Model/Stream.lean, Model/Codec.lean, Model/Http.lean for the loops, slicing, Adler-32, the pointer walk of "
        "processRequestLine, std::map; tied by the differential run (harness/codec_drv.cc, harness/http_drv.cc vs the Lean drivers)",
        "example codec: harness/codec_drv.cc walks the buffer by length fields and asks protobuf's registry / parser directly for the "
        "verdicts the model is parameterised by (ProtobufCodec has no hook)",
        "protobuf's ParseFromArray / serialisation (verdicts recorded from real calls the harness makes itself on each payload; the codec's own answer is compared with them: oracle clause codec-parse-verdict), zlib's adler32 (cross-checked against "
        "the Lean Adler-32 on every generated frame), std::string, std::map, std::find, std::find_if, std::search, isspace",
    ]
    assumptions = [
        "after the first error the stream is abandoned (the default error callback shuts the connection down; HttpServer answers 400 "
        "and shuts down): no further decoder call on that connection",
        "HttpContext::parseRequest is not called in state kGotAll/kExpectBody (HttpServer resets the context first); otherwise the "
        "loop does not terminate (theorem parse_spins)",
        "frames above 64 MiB are compared on the implementation only (too large to ship to the model as text); the model-level "
        "statement is the theorem roundtrip_excluded",
        "real pointer arithmetic is observed only through ASan/UBSan in the thorough tier",
    ]
    partial_theorems = [
        {"theorem": "roundtrip_partial", "hypothesis": "tag.length + payload.length + kChecksumLen <= kMaxMessageLen",
         "finding": "F12: the encoder accepts frames above 64 MiB that the decoder rejects (roundtrip_excluded, roundtrip_full_false)"},
    ]

    def __init__(self):
        self.codec = CodecSide()
        self.http = HttpSide()
        self.sides = {"codec": self.codec, "http": self.http}
        self._known = None

    def known_sigs(self):
        if self._known is None:
            self._known = set(k["signature"] for k in load_known().get("findings", []) if k["property"] == self.id)
        return self._known

    def stop(self, ctx):
        """a known finding does not end the exploration; anything else does"""
        unknown = [f for f in ctx.oracle_failures if self.signature(f[0], f[1], f[2]) not in self.known_sigs()]
        if ctx.search_mode:
            # an obligation or the translation broke: the model may be stale, so its disagreements do not end the
            # search for an input on which the implementation itself violates the property
            return len(unknown) >= 1 or len(ctx.mismatches) >= 40
        return len(unknown) >= 1 or len(ctx.mismatches) >= 2

    def signature(self, case, kind, desc):
        if kind == "codec-oversize":
            return "codec-oversize:encoder-has-no-size-check:decoder-InvalidLength"
        if kind == "http-empty-target-accepted":
            return "http-request-line:empty-request-target-accepted"
        if kind == "http-empty-path-accepted":
            return "http-request-line:empty-path-accepted"
        if kind == "http-control-byte-in-target-accepted":
            return "http-request-line:control-byte-in-request-target-accepted"
        return kind

    # ---------------------------------------------------------------- running scenarios
    def run_scenarios(self, ctx, side, exe, scenarios, origin, record=True):
        """scenarios: list of (lines, meta). One process per batch; oracle and comparison per scenario."""
        if not scenarios:
            return []
        lines = [l for sc, _ in scenarios for l in sc]
        case = Case(side.engine, lines, origin)
        impl, err = ctx.run_impl(exe, case, timeout=1800)
        model = ctx.run_model(case, impl, timeout=3600) if ctx.model_ok else None
        res, pos = [], 0
        for sc, meta in scenarios:
            n = len(sc)
            ib = impl[pos:pos + n]
            if len(ib) < n and impl and any(l.startswith("<<") for l in impl[-1]) and impl[-1] not in ib:
                ib = ib + [impl[-1]]
            mb = model[pos:pos + n] if model is not None else None
            pos += n
            fails = side.oracle(sc, ib)
            c = Case(side.engine, sc, origin)
            mm = ctx.compare(c, ib, mb) if mb is not None else None
            if record:
                evs = [l for b in ib[1:2] for l in ctx.observable(b)]
                ctx.record(c, ib, nontrivial=any(l.startswith(("msg", "err", "req", "bad", "frame")) for b in ib for l in ctx.observable(b)),
                           sample={"engine": side.engine, "class": (meta or {}).get("class"), "input": sc[:3],
                                   "deliveries": sc.count("reset") + 1, "whole_feed_output": evs[:6]})
                self.count_events(ctx, side, sc, ib, meta)
            if fails:
                self.report_oracle(ctx, side, exe, sc, fails[0], origin)
            elif mm:
                self.report_mismatch(ctx, side, exe, sc, mm, origin)
            res.append((fails, mm))
            if self.stop(ctx):
                break
        return res

    def count_events(self, ctx, side, sc, blocks, meta):
        p = side.engine + "."
        if meta and meta.get("class"):
            ctx.count(p + "class:" + meta["class"])
        # outcome of the single-piece delivery
        if len(blocks) > 1 and sc[1].startswith("feed"):
            obs = ctx.observable(blocks[1])
            names = []
            for l in obs:
                w = l.split()
                if w[0] == "msg":
                    names.append("msg")
                elif w[0] == "req":
                    names.append("req")
                elif w[0] in ("err", "bad"):
                    names.append(l)
            nm = sum(1 for x in names if x in ("msg", "req"))
            ctx.count(p + "messages-per-stream:%s" % (nm if nm < 4 else "4+"))
            for x in names:
                if x not in ("msg", "req"):
                    ctx.count(p + "outcome:" + x)
            st = obs[-1] if obs else ""
            if "dead=0" in st:
                ctx.count(p + "outcome:" + ("all-consumed" if "left=0 " in st + " " else "waits-for-more"))
            ctx.count(p + "stream-bytes:" + self.bucket(len(parse_bytes(sc[1].split()[1]))))
        ctx.count(p + "deliveries", sc.count("reset") + 1)
        # how many complete messages / requests ONE call of the decoder produced (what a retained-object slip needs: >= 2)
        for op, b in zip(sc, blocks):
            if op.startswith("feed"):
                n = sum(1 for l in ctx.observable(b) if l.split()[0] in ("msg", "req"))
                ctx.count(p + "messages-per-call:%s" % (n if n < 3 else "3+"))
        ctx.count(p + "chunks", sum(1 for l in sc if l.startswith("feed")))
        for b in blocks:
            for l in b:
                if l.startswith("< verdict"):
                    ctx.count(p + "protobuf-verdict:" + l.split()[-1])

    @staticmethod
    def bucket(n):
        for lim in (0, 8, 16, 32, 64, 128, 256, 1024, 4096, 65536):
            if n <= lim:
                return "<=%d" % lim
        return ">65536"

    def report_oracle(self, ctx, side, exe, sc, fail, origin):
        kind = fail[0]
        sig = self.signature(None, kind, fail[1])
        if sig in self.known_sigs() and any(self.signature(f[0], f[1], f[2]) == sig for f in ctx.oracle_failures):
            ctx.count("known-finding-seen-again:" + kind)
            return

        def still(ls):
            b, _ = ctx.run_impl(exe, Case(side.engine, ls), timeout=120)
            f = side.oracle(ls, b)
            return bool(f) and f[0][0] == kind
        # a long scenario (every segmentation of one stream): first cut it down to the deliveries up to the step the
        # oracle names, then minimise
        m = re.search(r"\bstep (\d+)\b", fail[1])
        if m and int(m.group(1)) + 1 < len(sc):
            ops = [l for l in sc if l.strip()]
            cut = ops[:int(m.group(1)) + 1]
            last_reset = max([j for j, l in enumerate(cut) if l.split()[0] == "reset"] or [0])
            for cand in ([cut[0]] + cut[last_reset + 1:], cut):
                if len(cand) < len(sc) and still(cand):
                    sc = cand
                    break
        small = ddmin(sc, still, keep_prefix=1, budget=120) if len(sc) <= 4000 and still(sc) else sc
        b, _ = ctx.run_impl(exe, Case(side.engine, small), timeout=120)
        f = side.oracle(small, b)
        ctx.oracle_failures.append((Case(side.engine, small, origin), kind, f[0][1] if f else fail[1]))

    def report_mismatch(self, ctx, side, exe, sc, mm, origin):
        if ctx.search_mode and len(ctx.mismatches) >= 2:
            ctx.mismatches.append((Case(side.engine, sc, origin), mm))   # enough minimised examples; keep searching
            return

        def still(ls):
            c = Case(side.engine, ls)
            b, _ = ctx.run_impl(exe, c, timeout=120)
            mo = ctx.run_model(c, b, timeout=300)
            return ctx.compare(c, b, mo) is not None
        small = ddmin(sc, still, keep_prefix=1, budget=120) if len(sc) <= 4000 and still(sc) else sc
        c = Case(side.engine, small, origin)
        b, _ = ctx.run_impl(exe, c, timeout=120)
        mo = ctx.run_model(c, b, timeout=300)
        ctx.mismatches.append((c, ctx.compare(c, b, mo) or mm))

    # ---------------------------------------------------------------- codec campaign
    def codec_campaign(self, ctx, exe, flavour, light=False):
        """`light`: only the encoders (sizes around the Buffer growth boundary) and a few streams built from what they
        produced - what the quick tier runs under the address sanitizer"""
        side, rng = self.codec, ctx.rng
        quick = ctx.quick() and not ctx.search_mode
        count = lambda k, n=1: ctx.count("codec." + k, n)
        if light:
            return self.codec_encoders_and_streams(ctx, exe, flavour, quick, count, light=True)
        exh = 11 if quick else 14
        ctx.extra.setdefault("exhaustive_part", {})["codec"] = {
            "every_segmentation_of_streams_up_to_bytes": exh, "two_frame_streams_16_to_17_bytes": not quick}
        # 1. short streams, every segmentation; first: three different frames that arrive together (pipelined sender), in
        # one piece and cut at / inside the frames - a consumer that keeps the messages must still hold all three
        scs = []
        c0 = CodecCfg("lite", b"", 0)
        fa, fb, fc = ref_frame(b"", b"\x10\x01"), ref_frame(b"", b""), ref_frame(b"", b"\x0a\x01x")
        st3 = fa + fb + fc
        scs.append((side.scenario(c0, st3, [[len(fa)], [len(fa) + len(fb)], [len(fa), len(fa) + len(fb)], [3], [len(fa) + 3],
                                            [len(st3) - 1]]), {"class": "pipelined-frames"}))
        for cfg, stream in side.short_streams(rng):
            if len(stream) <= exh:
                scs.append((side.scenario(cfg, stream, segmentations(rng, stream, [], exh, 0, count)), {"class": "short-exhaustive"}))
        if not quick and flavour == "dbg":
            for cfg, stream in side.two_frame_streams():
                scs.append((side.scenario(cfg, stream, segmentations(rng, stream, [], 17, 0, count)), {"class": "two-frames-exhaustive"}))
        self.run_scenarios(ctx, side, exe, scs, "codec-exhaustive")
        if self.stop(ctx):
            return
        # 2. the F12 boundary on the implementation: 64 MiB exactly, one more
        probe = 67108000
        sc = ["new rpc 0", "bigframe %d" % probe]
        b, _ = ctx.run_impl(exe, Case("codec", sc), timeout=300)
        info = next((l for l in (b[1] if len(b) > 1 else []) if l.startswith("# big ")), None)
        if info:
            over = int(dict(x.split("=", 1) for x in info.split()[2:] if "=" in x)["body"]) - probe
            sc = ["new rpc 0", "bigframe %d" % (KMAX - over), "bigframe %d" % (KMAX - over - 1)]
            self.run_scenarios(ctx, side, exe, [(sc, {"class": "frame-body-at-64MiB"})], "codec-limit")
            sc = ["new rpc 0", "bigframe %d" % (KMAX - over + 1)]
            self.run_scenarios(ctx, side, exe, [(sc, {"class": "frame-body-above-64MiB"})], "codec-limit")
        if self.stop(ctx):
            return
        self.codec_encoders_and_streams(ctx, exe, flavour, quick, count)

    def codec_encoders_and_streams(self, ctx, exe, flavour, quick, count, light=False):
        side, rng = self.codec, ctx.rng
        # 3. pools of real encodings (every codec's encoder, message sizes on both sides of every growth of the encoder's
        # Buffer), then streams built from them
        cfgs = side.configs(rng, quick)
        if light:
            cfgs = [c for c in cfgs if c.kind == "ex" or (c.kind, c.raw) == ("rpc", 0) or c.tag == b"LIST"]
        per_cfg = 6 if light else (24 if quick else 60)
        enc = []
        for cfg in cfgs:
            lines = [cfg.new_line()] + side.boundary_encode_lines(rng, cfg, quick) + [side.encode_line(rng, cfg) for _ in range(per_cfg)]
            if cfg.kind == "rpc":
                lines.append("encode 1 7 - - - - -")
            elif cfg.kind == "ex":
                lines.append("encode e - h:")
            else:
                lines.append("encode - -")
            enc.append((lines, {"class": "encode"}))
        lines = [l for sc, _ in enc for l in sc]
        impl, _ = ctx.run_impl(exe, Case("codec", lines), timeout=600)
        self.run_scenarios(ctx, side, exe, enc, "codec-encode", record=False)
        count("encoded-messages", sum(len(sc) - 1 for sc, _ in enc))
        if self.stop(ctx):
            return
        pools, pos = [], 0
        for (sc, _), cfg in zip(enc, cfgs):
            pool = []
            for blk in impl[pos + 1:pos + len(sc)]:
                pay = next((parse_bytes(l.split()[2]) for l in blk if l.startswith("< payload ")), None)
                fr = next((bytes.fromhex(l.split()[1]) if len(l.split()) > 1 else b"" for l in blk if l.startswith("frame")), None)
                tn = next((parse_bytes(l.split()[2]) for l in blk if l.startswith("< typename ")), None)
                if pay is not None and fr is not None:
                    pool.append((pay, fr) if cfg.kind != "ex" else (pay, fr, ex_prefix(tn or b"")))
                    count("encoded-frame-bytes:" + self.bucket(len(fr)))
            pos += len(sc)
            pools.append(pool or ([(b"", ref_frame_ex(b"muduo.Empty", b""), ex_prefix(b"muduo.Empty"))] if cfg.kind == "ex"
                                  else [(b"", ref_frame(cfg.tag, b""))]))
        nstreams = 40 if light else (300 if quick else 2800)
        if flavour != "dbg" and not light:
            nstreams //= 2
        exi = [j for j, c in enumerate(cfgs) if c.kind == "ex"]
        batch = []
        for i in range(nstreams):
            ci = rng.choice(exi) if exi and rng.random() < 0.15 else rng.randrange(len(cfgs))
            count("streams:" + cfgs[ci].kind)
            cfg, pool = cfgs[ci], pools[ci]
            cls = rng.choice(side.CLASSES_VALID) if rng.random() < 0.45 else rng.choice(side.CLASSES_BAD)
            stream, marks, ends = side.make_stream(rng, cfg, pool, cls)
            nrand = 4 if len(stream) < 3000 else 1
            segs = list(segmentations(rng, stream, marks if len(stream) < 20000 else marks[:8], 0, nrand, count))
            segs += side.large_chunk_cuts(rng, len(stream), ends, count)
            batch.append((side.scenario(cfg, stream, segs), {"class": cls}))
            if sum(len(s) for s, _ in batch) > 60000:
                self.run_scenarios(ctx, side, exe, batch, "codec-random")
                batch = []
                if self.stop(ctx):
                    return
        self.run_scenarios(ctx, side, exe, batch, "codec-random")

    # ---------------------------------------------------------------- http campaign
    def http_campaign(self, ctx, exe, flavour):
        side, rng = self.http, ctx.rng
        quick = ctx.quick() and not ctx.search_mode
        count = lambda k, n=1: ctx.count("http." + k, n)
        exh = 11 if quick else 13
        shortest = b"GET / HTTP/1.0\r\n\r\n"
        ctx.extra.setdefault("exhaustive_part", {})["http"] = {
            "every_segmentation_of_streams_up_to_bytes": exh,
            "shortest_valid_request_18_bytes": "all cut sets of size <= 3" if quick else "all 2^17 segmentations"}
        scs = []
        for s in side.short_streams():
            if len(s) <= exh:
                scs.append((side.scenario(s, segmentations(rng, s, [], exh, 0, count)), {"class": "short-exhaustive"}))
        for s in (shortest, b"GET  HTTP/1.1\r\n\r\n", b"GET ? HTTP/1.0\r\n\r\n", b"GET /\x7f HTTP/1.0\r\n\r\n"):
            if quick or flavour != "dbg" or s is not shortest:
                cs = list(small_cut_sets(len(s), 3))
                count("seg:all-cut-sets-up-to-3", len(cs))
                scs.append((side.scenario(s, cs), {"class": "shortest-request-small-cut-sets"}))
            else:
                scs.append((side.scenario(s, segmentations(rng, s, [], 18, 0, count)), {"class": "shortest-request-exhaustive"}))
        self.run_scenarios(ctx, side, exe, scs, "http-exhaustive")
        if self.stop(ctx):
            return
        nstreams = 400 if quick else 4000
        if flavour != "dbg":
            nstreams //= 2
        batch = []
        for i in range(nstreams):
            cls = rng.choice(side.CLASSES_VALID) if rng.random() < 0.45 else rng.choice(side.CLASSES_BAD)
            stream, marks = side.make_stream(rng, cls)
            segs = list(segmentations(rng, stream, marks, 0, 4, count))
            batch.append((side.scenario(stream, segs), {"class": cls}))
            if sum(len(s) for s, _ in batch) > 60000:
                self.run_scenarios(ctx, side, exe, batch, "http-random")
                batch = []
                if self.stop(ctx):
                    return
        self.run_scenarios(ctx, side, exe, batch, "http-random")

    # ---------------------------------------------------------------- entry
    def corpus(self, ctx, exes):
        for p in sorted(glob.glob(os.path.join(CORPUS, "C18", "*.case"))):
            engine, lines = read_case_file(p)
            side = self.sides.get(engine)
            if side is None:
                continue
            self.run_scenarios(ctx, side, exes[engine], [(lines, {"class": "corpus"})], "corpus:" + os.path.basename(p))
            ctx.count("corpus_cases")

    def exe_for(self, ctx, engine, flavour):
        if engine == "codec":
            # with the example ProtobufCodec: examples/protobuf/codec/codec.cc + protoc output of its query.proto
            from .. import build
            from ..common import BUILD, REPO, sh
            exdir = os.path.join(REPO, "examples", "protobuf", "codec")
            pgen = os.path.join(BUILD, "gen-example-codec")
            os.makedirs(pgen, exist_ok=True)
            proto = os.path.join(exdir, "query.proto")
            stamp = os.path.join(pgen, "query.stamp")
            want = open(proto).read()
            if not os.path.exists(stamp) or open(stamp).read() != want:
                rc, o, e = sh(["protoc", "--cpp_out=" + pgen, "-I" + exdir, proto])
                if rc != 0:
                    raise build.BuildError("protoc query.proto", o + e)
                with open(stamp, "w") as f:
                    f.write(want)
            return ctx.exe("codec_drv", flavour, with_pb=True, extra_srcs=(os.path.join(exdir, "codec.cc"), os.path.join(pgen, "query.pb.cc")),
                           cxxflags="-DWITH_EXAMPLE_CODEC -Wno-shadow -I" + pgen)
        return ctx.exe("http_drv", flavour)

    def correspondence(self, ctx, replay=None):
        flavours = ["dbg"] if ctx.quick() else ["dbg", "asan"]
        ctx.extra["flavours"] = flavours
        if replay:
            engine, lines = read_case_file(replay)
            side = self.sides.get(engine or "codec", self.codec)
            for fl in flavours:
                exe = self.exe_for(ctx, side.engine, fl)
                case = Case(side.engine, lines, "replay")
                impl, err = ctx.run_impl(exe, case)
                model = ctx.run_model(case, impl)
                ops = [l for l in lines if l.strip()]
                for i, op in enumerate(ops):
                    a = ctx.observable(impl[i]) if i < len(impl) else ["<<missing>>"]
                    b = ctx.observable(model[i]) if i < len(model) else ["<<missing>>"]
                    print("%-40s impl : %s\n%-40s model: %s" % (op[:40], a, "", b))
                    for l in (impl[i] if i < len(impl) else []):
                        if l.startswith("#"):
                            print("%-40s        %s" % ("", l))
                self.run_scenarios(ctx, side, exe, [(lines, {"class": "replay"})], "replay")
            return
        for fl in flavours:
            exes = {e: self.exe_for(ctx, e, fl) for e in self.sides}
            self.corpus(ctx, exes)
            if self.stop(ctx):
                return
            self.codec_campaign(ctx, exes["codec"], fl)
            if self.stop(ctx):
                return
            if "http" in self.sides:
                self.http_campaign(ctx, exes["http"], fl)
                if self.stop(ctx):
                    return
        if "asan" not in flavours:
            # quick tier: the encoders of all three codecs (message sizes across the Buffer's growth) and a few streams of
            # their frames under ASan+UBSan - a write through a stale pointer into the grown buffer is a `crash` replay
            ctx.extra["flavours"] = flavours + ["asan (encoders + streams of their frames)"]
            self.codec_campaign(ctx, self.exe_for(ctx, "codec", "asan"), "asan", light=True)


PROP = Prop()
