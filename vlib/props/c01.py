"""C01 - TCP payload is delivered complete, in order and exactly once, both directions"""
from .. import conn_oracle, server_free
from ..conn_common import ConnProp
from ._conn_texts import ASSUME, TRUSTED


class Prop(ConnProp):
    id = "C01"
    lean_module = "MuduoVerif.Props.C01"
    technique = ("Lean 4 invariant proofs by induction over all histories of a TcpConnection model (stream, per-thread FIFO, "
                 "write interest, receive direction) + T1 guard/hand-off extraction + differential run vs. the real "
                 "TcpConnection under injected write/read split patterns")
    level_text = ("Kernel-checked theorems over every history of the connection model (any block sizes, any mix of loop-thread, "
                  "foreign-thread and in-callback send()s, any write()/readv() result sequence incl. partial writes, EAGAIN, EINTR, "
                  "any stopRead/startRead placement, both pollers): wrote ++ backlog = concatenation of the accepted blocks "
                  "(nothing lost, duplicated, reordered, interleaved), loop-thread blocks accepted in call order, foreign blocks "
                  "accepted in call order with none skipped while the connection is up, write interest on iff backlog non-empty, "
                  "bytes delivered to the input buffer = bytes the peer wrote, message callback sees exactly the unconsumed tail. "
                  "The model's branch guards and hand-off kinds are re-extracted from TcpConnection.cc/Channel.cc on every run; "
                  "the rest of the model is tied to the real class by a differential run, and an independent stream oracle is "
                  "evaluated on what a raw (non-muduo) peer received")
    level_note = ("Proof is about the model; tie = T1 extraction + differential testing (bounded by the generator). Progress "
                  "(the backlog eventually drains) is stated step-wise only; delivery by the kernel is assumed. 0..N io threads: "
                  "single loop here; cross-thread sends are executed by a real second thread that is joined before the next step. "
                  "TcpServer/Acceptor/EventLoopThreadPool are outside the model: they are exercised only by free-running "
                  "scenarios around the real TcpServer (N = 0..3 io threads, raw-socket peers, both stream directions checked by "
                  "an oracle on the recorded trace only) - supporting evidence and failing-input search, not proof.")
    rule = ("histories of <= 40 operations on one connection: send (3 overloads, sizes from a boundary alphabet 0..65537 and up to "
            "300000, from the loop thread, a second thread, or inside a callback), scripted write results (full/short k/EAGAIN/"
            "EINTR/EPIPE/ECONNRESET), scripted short reads, peer writes, stop/startRead, shutdown, forceClose(WithDelay), peer "
            "close, owner destruction, clock advances, loop iterations; 22% of the histories contain a crossing block (a send "
            "that crosses the high-water mark while the kernel takes only the head of the block - relative short write -, "
            "optionally over an existing backlog, with a callback script on the high-water callback that sends / shuts down / "
            "force-closes: its effect must land after the block being queued), 8% a pause block (stopRead/startRead issued "
            "back to back from another thread before the loop has seen the first, in both orders and longer runs, then peer "
            "writes: the request made last decides; oracle pause_oracle: up, reading per an independent replay of the requests, "
            "peer bytes waiting => the iteration reads), 6% end with functors outliving the connection; flavours asserts-on/NDEBUG x epoll/poll; non-trivial = "
            "at least one callback ran; distinct = distinct observation traces. Plus free-running TcpServer scenarios "
            "(vlib/server_free.py: N in 0..3 io threads, 127.0.0.1 / ::1 / a long v4-mapped IPv6 listen address, kernel-chosen port, "
            "epoll/poll, 1..12 concurrent raw-socket peers, block sizes 0..200000, echo + server-initiated blocks from the io "
            "thread and two foreign threads through the three send overloads, small SO_RCVBUF/slow readers, every close cause incl. "
            "~TcpServer with live connections; the first three scenarios of a run and every twelfth are bulk uploads: 2-3 io "
            "threads, 2-4 raw peers that start together and each write a frame of 1-4.5 MiB which the message callback leaves in "
            "the input buffer until complete, so that every readv of every connection spills through Buffer::readFd's "
            "extrabuf while the other io threads do the same; per-connection content check), oracle only")
    trusted_base = TRUSTED
    assumptions = ASSUME
    oracles = [conn_oracle.stream_oracle, conn_oracle.read_oracle, conn_oracle.pause_oracle]
    profile = {"closes": True}

    def correspondence(self, ctx, replay=None):
        # a replay whose first line is `engine=server ...` is a free-running TcpServer scenario
        if replay and server_free.is_server_replay(replay):
            return server_free.replay(ctx, self.id, replay)
        ConnProp.correspondence(self, ctx, replay)
        if not replay and not ctx.stop():
            server_free.explore(ctx, self.id)


PROP = Prop()
