"""C03 - shutdown() flushes everything before FIN; forceClose() closes at once, safely"""
from .. import conn_oracle
from ..conn_common import ConnProp
from ._conn_texts import ASSUME, TRUSTED


def fin_and_force(o):
    return conn_oracle.stream_oracle(o, check_fin=True) + [f for f in conn_oracle.updown_oracle(o)
                                                            if f[0] in ("double-down", "force-no-down", "abort", "uaf", "leak")]


def keeps_receiving(o):
    """"the local side keeps receiving until the peer closes": what the peer writes after the local shutdown() is still
    read and handed to the message callback, and pause / resume requests keep working on the half-closed connection
    (the independent replay of conn_oracle.pause_oracle does not distinguish a half-closed connection from an open one,
    which is exactly the claim)"""
    return conn_oracle.pause_oracle(o) + conn_oracle.read_oracle(o)


class Prop(ConnProp):
    id = "C03"
    lean_module = "MuduoVerif.Props.C03"
    technique = ("Lean 4 invariant proof (queue-order + write-interest + FIN invariants over all histories of the TcpConnection "
                 "model) + T1 extraction of the hand-off kinds (runInLoop vs queueInLoop) + differential run with stalled peers")
    level_text = ("Kernel-checked theorems over every history of the connection model: once the write side is shut down on a "
                  "connection that is up, the backlog is empty, no earlier send() is still queued and every accepted byte was "
                  "written before the FIN; queued sends stay ahead of any queued half-close; no half-close while kConnected; "
                  "send() after shutdown()/forceClose()/DOWN changes nothing; shutdown() leaves the read side alone; any mix of "
                  "forced/delayed closes yields at most one DOWN and no abort; a delayed close that fires on a dead or down "
                  "connection is the identity. The proofs need shutdownDispatch = drainShutdownDispatch = queue, which T1 "
                  "re-extracts from the source (the inline call of the upstream code makes the theorem false: F3/F21)")
    level_note = ("Progress is proved relative to the loop making iterations: forceClose() => down after ONE iteration with exactly "
                  "one DOWN; forceCloseWithDelay => down in the iteration that reports the expired timer (one more when called "
                  "from another thread; tight); shutdown() with nothing to write => FIN in the next iteration. That the test and "
                  "store of the state word are one atomic step (`gate_atomic`) is extracted; the interleaving of truly concurrent "
                  "callers with the loop thread is not modelled here (C08's TSan scenario `TcpConnection::mix` exercises it).")
    rule = ("histories of <= 40 operations with shutdown()/forceClose()/forceCloseWithDelay() from the loop thread, another "
            "thread or a callback, at backlogs from 0 to 300000 bytes with scripted EAGAIN stalls, followed/preceded by sends, "
            "peer close, timer firings after destruction; 14% of the histories contain a pause block (stopRead()/startRead() "
            "requests, 35% of them on a connection whose local side has called shutdown(): it must keep receiving); "
            "asserts-on/NDEBUG x epoll/poll")
    trusted_base = TRUSTED
    assumptions = ASSUME
    oracles = [fin_and_force, keeps_receiving]
    profile = {"closes": True, "pause": 0.14}


PROP = Prop()
