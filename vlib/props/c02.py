"""C02 - each connection gets exactly one UP, then messages, then exactly one DOWN; clean destruction"""
from .. import conn_oracle, server_free
from ..conn_common import ConnProp
from ._conn_texts import ASSUME, TRUSTED


class Prop(ConnProp):
    id = "C02"
    lean_module = "MuduoVerif.Props.C02"
    technique = ("Lean 4 invariant proof (life-cycle automaton accepted by every history of the TcpConnection model) + T1 "
                 "guard/hand-off extraction + differential run vs. the real TcpConnection over all close causes")
    level_text = ("Kernel-checked theorems over every history of the connection model (all close causes: peer FIN/RST as poll "
                  "results, shutdown, forceClose, delayed forceClose, owner destruction; any interleaving with sends, reads, "
                  "callbacks that themselves call the API; both pollers; both build flavours): UP exactly once, DOWN at most once "
                  "and only after UP, message callbacks only between them, no assertion failure, no use of a destroyed object, "
                  "descriptor closed at most once, only after DOWN and never while the channel is registered, DOWN <-> state "
                  "kDisconnected, a released connection is destroyed by the next iteration (object freed, descriptor closed exactly once), forceClose() "
                  "on any thread destroys it within two iterations. "
                  "Model tied to the code by T1 extraction and a differential run; an independent life-cycle oracle runs on the "
                  "implementation's own callback trace")
    level_note = ("Single loop: the cross-loop hop of TcpServer::removeConnection is collapsed; callback thread affinity is by "
                  "construction of the model and observed (thread ids) in the harness. TcpClient-side ownership (disconnect/stop/"
                  "destruction of the client) is decided under C12's engine (client_drv), incl. the repaired F26. "
                  "TcpServer's side (connection map and names, removeConnection's hop io loop -> base loop -> io loop, ~TcpServer with "
                  "live connections, io-thread assignment) is exercised only by free-running scenarios around the real TcpServer "
                  "(N = 0..3 io threads, raw-socket peers, oracle on the recorded trace only: UP MSG* DOWN once each on the "
                  "connection's loop thread, distinct names, round-robin assignment, every connection object and descriptor gone) - "
                  "supporting evidence and failing-input search, not proof.")
    rule = ("histories of <= 40 operations on one connection mixing every close cause with sends, reads, scripted faults and "
            "operations inside callbacks; asserts-on/NDEBUG x epoll/poll; non-trivial = at least one callback ran. Plus "
            "free-running TcpServer scenarios (vlib/server_free.py: N in 0..3 io threads, 127.0.0.1 / ::1 / a long v4-mapped IPv6 "
            "listen address, kernel-chosen port, epoll/poll, 1..12 concurrent raw-socket peers ending by peer FIN, peer RST, "
            "shutdown(), forceClose(), forceCloseWithDelay() or destruction of the TcpServer with connections up, new "
            "connections accepted while old ones close), oracle only")
    trusted_base = TRUSTED
    assumptions = ASSUME
    oracles = [conn_oracle.updown_oracle]
    profile = {"closes": True}

    def correspondence(self, ctx, replay=None):
        # a replay whose first line is `engine=server ...` is a free-running TcpServer scenario
        if replay and server_free.is_server_replay(replay):
            return server_free.replay(ctx, self.id, replay)
        ConnProp.correspondence(self, ctx, replay)
        if not replay and not ctx.stop():
            server_free.explore(ctx, self.id)


PROP = Prop()
