"""C02 - each connection gets exactly one UP, then messages, then exactly one DOWN; clean destruction"""
from .. import conn_oracle, owner_common, server_free
from ..conn_common import ConnProp
from ._conn_texts import ASSUME, TRUSTED


class Prop(ConnProp):
    id = "C02"
    lean_module = "MuduoVerif.Props.C02"
    gen_engines = ConnProp.gen_engines + ["Pool", "Owner", "SysSkel", "OwnerSkel"]   # Owner: the multi-loop ownership protocol of TcpServer; SysSkel: ~Socket / sockets::close; OwnerSkel: statement order of every function of TcpServer.cc
    drivers = ConnProp.drivers + ["owner"]
    technique = ("Lean 4 invariant proof (life-cycle automaton accepted by every history of the TcpConnection model) + T1 "
                 "guard/hand-off extraction + differential run vs. the real TcpConnection over all close causes")
    level_text = ("Kernel-checked theorems over every history of the connection model (all close causes: peer FIN/RST as poll "
                  "results, shutdown, forceClose, delayed forceClose, owner destruction; any interleaving with sends, reads, "
                  "callbacks that themselves call the API; both pollers; both build flavours): UP exactly once, DOWN at most once "
                  "and only after UP, message callbacks only between them, no assertion failure, no use of a destroyed object, "
                  "descriptor closed at most once, only after DOWN and never while the channel is registered, DOWN <-> state "
                  "kDisconnected, a released connection is destroyed by the next iteration (object freed, descriptor closed exactly once), forceClose() "
                  "on any thread destroys it within two iterations. "
                  "Model tied to the code by T1 extraction and a differential run; an independent life-cycle oracle runs on the "
                  "implementation's own callback trace. "
                  "TcpServer's multi-loop ownership protocol (Model/Owner.lean: acceptor loop + L io loops as FIFO functor queues, "
                  "any number of connections, every interleaving of loops, user calls, ~TcpServer, loop exit): owner_updown, "
                  "owner_down_once, owner_affinity (callbacks on the assigned loop, map only on the base loop, no assertion), "
                  "round_robin, owner_map (assert(n==1) never fails), owner_destroy_clean, owner_no_leak, server_destruction, for all "
                  "L, all numbers of connections and all schedules, under one explicit hypothesis: distinct names (negation witness "
                  "owner_name_collision_witness; owner_name_buffer_fits ties it to the buffer size, the id increment and the initial "
                  "id in the source). That no functor that still has to run is stranded when an EventLoop object dies is a theorem "
                  "(owner_goodSched) for the repeated final drain the code has; negation witnesses for no drain (F10: "
                  "server_destruction_needs_drain) and a single drain (F29: owner_stranded_witness)")
    level_note = ("Connection engine: single loop, the cross-loop hop of TcpServer::removeConnection is collapsed there (it is the Owner "
                  "engine's subject: hand-off kinds/targets/holds, name buffer, id increment, life token, final drain extracted by "
                  "vlib/gen/owner.py; deterministic differential run of the real TcpServer with gated loop threads, harness/owner_drv.cc, "
                  "against drv_owner under the same schedule, vlib/owner_common.py). The Owner model abstracts the byte stream, timers "
                  "and forceCloseWithDelay. TcpClient-side ownership (disconnect/stop/"
                  "destruction of the client) is decided under C12's engine (client_drv), incl. the repaired F26. "
                  "TcpServer's side (connection map and names, removeConnection's hop io loop -> base loop -> io loop, ~TcpServer with "
                  "live connections, io-thread assignment) is exercised only by free-running scenarios around the real TcpServer "
                  "(N = 0..3 io threads, raw-socket peers, oracle on the recorded trace only: UP MSG* DOWN once each on the "
                  "connection's loop thread, distinct names, round-robin assignment, every connection object and descriptor gone) - "
                  "supporting evidence and failing-input search, not proof.")
    rule = ("histories of <= 40 operations on one connection mixing every close cause with sends, reads, scripted faults and "
            "operations inside callbacks; asserts-on/NDEBUG x epoll/poll; non-trivial = at least one callback ran. Plus "
            "free-running TcpServer scenarios (vlib/server_free.py: N in 0..3 io threads, 127.0.0.1 / ::1 / a long v4-mapped IPv6 "
            "listen address, kernel-chosen port, epoll/poll, 1..12 concurrent raw-socket peers ending by peer FIN, peer RST, "
            "shutdown(), forceClose(), forceCloseWithDelay() or destruction of the TcpServer with connections up, new "
            "connections accepted while old ones close), oracle only. Plus Owner cases (vlib/owner_common.gen_case: L in 0..3 io "
            "loops, <= 6 raw peers, schedules of iter/step per loop thread, send/FIN/RST, forceClose/shutdown/hold/drop from a "
            "foreign thread, server destroyed inside the base loop or after quit() with closes in flight; every fifth case from "
            "owner_common.handover_case: the acceptor thread parked immediately after the hand-over of connectEstablished while the "
            "io loop establishes the connection and handles the peer's already queued FIN/RST): model == implementation "
            "trace (conn, event, loop thread) per step + independent oracle")
    trusted_base = TRUSTED + [
        "vlib/gen/sysskel.py (clang-14 JSON AST -> Generated/SysSkel.lean: statement skeletons of every function of SocketsOps.cc, Socket.cc/.h, InetAddress.cc/.h, Endian.h, Poller.cc, poller/DefaultPoller.cc, the poller constructors/destructors, Channel::tie, createEventfd, createTimerfd; what it leaves out is listed in the generated header) and the reading Model/SysSkelDecl.lean of what the "
        "models assume of each primitive (one system call, arguments passed through, result returned unchanged, failures only logged - or exactly the declared extra work); C02 depends on socket_dtor_closes_once (Socket::Socket, ~Socket, sockets::close); still trusted: the kernel's / glibc's behaviour behind each system call",
        "vlib/gen/ownerskel.py (clang-14 JSON AST -> Generated/OwnerSkel.lean: statement skeletons of every function of TcpServer.cc - constructor, destructor, setThreadNum, start, newConnection, removeConnection, removeConnectionGuarded, removeConnectionIfAlive, removeConnectionInLoop; what it leaves out is listed in the generated header) and the reading Model/OwnerSkelDecl.lean of the "
        "order the steps of Model/Owner.lean assume (server_statement_order_tied: equality per function + handover_is_last: in newConnection all four callbacks and the map entry are in place before the one hand-over of connectEstablished and nothing touches the connection after it); the Owner model keeps newConnection as ONE atomic step - justified by handover_is_last, exercised concretely by the "
        "`holdHandover` schedules (harness/owner_drv.cc parks the acceptor thread at EventLoop::queueInLoop:appended right after the hand-over while the io loop runs)",
    ]
    assumptions = ASSUME
    oracles = [conn_oracle.updown_oracle]
    profile = {"closes": True}

    def correspondence(self, ctx, replay=None):
        # a replay whose first line is `engine=server ...` is a free-running TcpServer scenario
        if replay and server_free.is_server_replay(replay):
            return server_free.replay(ctx, self.id, replay)
        if replay and owner_common.is_owner_replay(replay):
            return owner_common.replay(ctx, self.id, replay)
        if not replay and ctx.search_mode:
            # an obligation / tie broke: the deterministic schedules of the Owner engine first (milliseconds each), so
            # that the first concrete replay is a deterministic one and not a free-running scenario
            owner_common.explore_corpus(ctx, self.id)
        if replay or not ctx.stop():
            ConnProp.correspondence(self, ctx, replay)
        if not replay and not ctx.stop():
            server_free.explore(ctx, self.id)
        if not replay and not ctx.stop():
            owner_common.explore(ctx, self.id)


PROP = Prop()
