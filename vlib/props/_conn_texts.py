"""texts shared by the plug-ins of the connection engine"""
TRUSTED = [
    "Lean 4.33.0 kernel; axioms allowed: propext, Classical.choice, Quot.sound",
    "vlib/extract.py + vlib/gen/conn.py (clang-14 JSON AST -> Generated/Conn.lean: the state enum, 30 branch guards of "
    "TcpConnection.cc and Channel.cc, and for every hand-off to the loop whether it is runInLoop or queueInLoop and "
    "whether the functor holds the raw this, a shared or a weak reference; for the three notification functors whether "
    "the user's callback is bound by value or by reference: wcBindSend, wcBindDrain, hwmBind; whether the trampolines "
    "that run the weak functors - notifyWriteComplete/notifyHighWaterMark, WeakCallback::operator() - lock, test and "
    "then call: notifyLocks, weakCallbackLocks) + vlib/gen/connskel.py (statement skeletons of 20 functions)",
    "hand-written Model/Conn.lean (statement order inside each member function, the loop's dispatch-then-functors "
    "iteration, the poller slot of the channel, the owner's close path), tied to the real TcpConnection by the "
    "differential run: harness/conn_drv.cc drives a real TcpConnection on a socketpair inside a real EventLoop, one "
    "iteration per step, with write/readv results injected or recorded by link-level interposition",
    "Buffer is used through its abstract behaviour (justified by C10's refinement theorem)",
    "std::function, std::shared_ptr/weak_ptr, the kernel's socket layer behave as documented",
]
ASSUME = [
    "one connection on its loop; user operations happen between loop iterations (on the loop thread, or on another "
    "thread that is joined before the loop continues) or inside callbacks; truly concurrent access to the state word "
    "is C08's business",
    "the kernel delivers to the peer, in order, exactly the bytes write() reported as taken (TCP)",
    "write() never reports more bytes than requested",
    "multi-loop ownership hand-offs (TcpServer with io threads: removeConnection -> removeConnectionInLoop across "
    "loops) are collapsed into the close callback queueing connectDestroyed on the connection's loop",
]
