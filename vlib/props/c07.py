"""C07 — cancel() is final and never disturbs another timer; no freed timer is read: theorems over the timer-engine
model (Props/C07.lean), T1, differential run incl. the parked foreign addTimer (F4 schedule) under ASan, trace oracle."""
from .. import timer_common


class Prop:
    id = "C07"
    lean_module = "MuduoVerif.Props.C07"
    gen_engines = ["Timer", "TimerSkel"]
    drivers = ["timer"]
    technique = ("Lean 4 invariant proofs over the timer-engine model with an explicit heap of Timer cells (use-after-free is an "
                 "observable event) + T1 + differential run with a schedule-controlled foreign addTimer (point "
                 "TimerQueue::addTimer:handedOver) under ASan + independent trace oracle")
    level_text = ("Kernel-checked theorems (Props/C07.lean) for every input list of the model: cancel_noop / "
                  "cancel_noop_in_batch / inactive_ids (a cancel whose pair is not active — already ran, already cancelled, "
                  "default id, stale id after address reuse — changes nothing outside a batch and only cancelingTimers_ "
                  "inside one); identity (in every reachable state cancel(addr, seq) removes a timer only if the live Timer "
                  "at addr has sequence number seq; every other pending timer keeps its entries and its cell; seq_unique: "
                  "live timers have pairwise different sequence numbers in 1..numCreated, seq_increasing: numCreated never "
                  "decreases, a new Timer gets numCreated+1); no_uaf (no step of any history dereferences a freed Timer; "
                  "depends on the extracted order addTimer_reads_sequence_first, full strength since fix 0550046); "
                  "cancel_final_partial with the split forms cancel_pending_final (a cancel that found the timer pending — "
                  "from the loop thread, a foreign thread or a callback of a batch it is not part of — is followed by no run "
                  "and no restart of it), cancel_registered_final (after a cancel processed when the timer was registered: "
                  "at most one more run, none if processed outside a batch, never a restart: self-cancel and same-batch "
                  "cancel of a repeating timer) and cancelled_is_gone (between iterations such a timer is in neither set and "
                  "has no live cell). Tied to the code by T1 and by a differential run that includes the F4 schedule under ASan")
    level_note = ("Trusted: as C06 (the ghost flag `found` of the model's cancel event is not compared with the implementation). "
                  "cancel_final is _partial: the full statement cancel_final_full (every processed cancel counts) is refuted by "
                  "cancel_final_fails_witness: a cancel processed on the loop thread while the foreign thread's "
                  "addTimerInLoop functor is still queued is lost (known finding F21); the proved variant requires the "
                  "registration event to precede the cancel (or the cancel to have found the timer).")
    rule = ("random timer programs as for C06 with three times as many cancels: of pending, running (self), same-batch, already-run, "
            "already-cancelled, default and not-yet-bound ids, from the loop thread, from callbacks and from joined foreign threads "
            "(with a marker functor queued right behind), bursts of 3..30 allocate/free cycles followed by a stale cancel (address "
            "reuse is counted in the histogram), and foreign adds parked at TimerQueue::addTimer:handedOver while the loop registers, "
            "fires and frees the timer; dbg, ASan+UBSan (and NDEBUG in the thorough tier) builds")
    trusted_base = [
        "Lean 4.33.0 kernel; axioms allowed: propext, Classical.choice, Quot.sound",
        "vlib/extract.py + vlib/gen/timer.py + vlib/gen/timerskel.py (see C06)",
        "hand-written Model/Timer.lean, tied by the differential run (harness/timer_drv.cc vs lean/Driver/TimerDrv.lean)",
        "AddressSanitizer for use-after-free on the implementation side; the harness' two-semaphore schedule control at the named point",
        "std::set, std::function, operator new/delete behave as documented",
    ]
    assumptions = [
        "`new` returns an address that is not live (allocation order is otherwise arbitrary: input)",
        "foreign threads are joined before the next step (the only racing window that is schedule-controlled is addTimer's hand-over point)",
        "cancel_final: the timer is registered (its addTimerInLoop has run) when its cancel is processed (F21 otherwise)",
    ]
    partial_theorems = [
        {"theorem": "MuduoVerif.C07.cancel_final_partial",
         "hypothesis": "the cancelled id is registered when cancelInLoop runs (its `registered` event precedes the cancel event; "
                       "not: still waiting in the functor queue), or the cancel found the timer in activeTimers_",
         "finding": "F21 after-cancel:add-still-queued", "negation_witness": "MuduoVerif.C07.cancel_final_fails_witness"},
    ]

    def signature(self, case, kind, desc):
        return kind

    def correspondence(self, ctx, replay=None):
        timer_common.correspondence(self, ctx, replay, "c07")


PROP = Prop()
