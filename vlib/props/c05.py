"""C05 — quit() always ends the loop; loop threads and pools start, serve, join cleanly.

Lean: invariant proofs over Model/Loop.lean (quit, EventLoopThread) and Model/Pool.lean (Props/C05.lean); T1:
vlib/gen/loop.py, vlib/gen/pool.py; T3: the real EventLoop / EventLoopThread under the deterministic scheduler
against the model under the same interleaving (also under ASan with fake stacks for use-after-return); T2: the real
EventLoopThreadPool against the pool model; independent oracles on the implementation's own output."""
from .. import loop_common, pool_common


class Prop:
    id = "C05"
    lean_module = "MuduoVerif.Props.C05"
    gen_engines = ["Loop", "Pool", "ThreadSkel", "LoopSkel"]
    drivers = ["loop", "pool"]
    technique = ("Lean 4 invariant proofs over the thread-indexed transition system of EventLoop::quit/loop and "
                 "EventLoopThread (monitor code over mutex_, cond_, loop_; loop object lifetime explicit, so a use after "
                 "destruction is an observable event) and arithmetic proofs over the pool model + T1 extraction (position of "
                 "the quit_ re-arming, quit's wake condition, the destructor's lock, the wait loop, the notification, cursor and "
                 "hash arithmetic) + T3 differential runs under a deterministic scheduler (dbg and ASan with "
                 "detect_stack_use_after_return) + T2 runs of the real pool + independent oracles")
    level_text = ("Kernel-checked theorems for all programs, thread counts and schedules of the model: once any quit() has "
                  "stored its flag the flag stays set until loop() returns, and a loop in poll with the flag set has its eventfd "
                  "readable or the quitter is between store and wakeup(); the next test of the flag (loop entry or end of the "
                  "current iteration) leaves the loop; after a quit() on the loop thread the loop never polls again; no step of "
                  "~EventLoopThread touches a destroyed loop (it holds mutex_, loop_ is published and the object exists; at most "
                  "one thread in that window); startLoop() returns either a loop that is published, exists and belongs to the other "
                  "thread, or NULL — and NULL only when the loop thread has already left loop() and destroyed its loop (somebody "
                  "quit it before startLoop() looked); every all-blocked state is classified: all threads finished, or the loop "
                  "idles in poll with no quit outstanding, or the one named misuse (destruction before startLoop returned); hence "
                  "a destructor in join() after a quit() and any thread inside startLoop() — whoever quits the loop and whenever — "
                  "are never all-blocked; under the single-owner discipline every all-blocked state is a clean end "
                  "(clean_shutdown). Pool: the i-th getNextLoop() is loop i % N (base loop for N = 0), any N consecutive calls are "
                  "distinct and cover the pool, getLoopForHash(h) = loop h % N independent of the cursor, getAllLoops = the "
                  "loops in creation order or the base loop. Guards and code shape re-extracted from /repo on every run")
    level_note = ("Trusted: Lean kernel (axioms propext, Classical.choice, Quot.sound only), vlib/extract.py + vlib/gen/loop.py "
                  "+ vlib/gen/pool.py, the hand-written steps of Model/Loop.lean and Model/Pool.lean as far as the differential "
                  "runs exercise them, the deterministic scheduler and the harnesses, AddressSanitizer, pthreads as documented. "
                  "Outside the property (named disjunct EarlyDestroy of stuck_states): destroying an EventLoopThread concurrently "
                  "with its own startLoop(). A loop that is quit before startLoop() has seen it is inside the property since the "
                  "finished_ handshake: startLoop() returns NULL instead of waiting forever.")
    rule = ("loop engine: the programs and schedules of C04 with half of the cases EventLoopThread programs (startLoop, "
            "submissions, optionally a pipe byte whose handler quits the loop, destroy; 15 % of them quit the loop from the "
            "thread-init callback or from a functor/handler it set going, so that startLoop() races with a loop that comes and "
            "goes), directed sweeps placing quit() / the "
            "destructor after every number of steps of the loop thread (loop entry, poll, dispatch, drain; thread start-up, "
            "publication, loop entry) and the loop's own quit against the destructor; the EventLoopThread families again under "
            "ASan with detect_stack_use_after_return=1; thorough: every schedule of nine small programs within 1..3 "
            "preemptions (two of them: a foreign queueInLoop()+wakeup() inside handleRead() just before its read of the "
            "eventfd, then a foreign quit() once the loop is back in poll; enumerated first in search mode). pool engine: pool sizes 0..8 each, then random sizes up to 64, 200 (quick) / 2000 (thorough) "
            "getNextLoop calls per case in bursts with hashes from {0,1,N-1,N,N+1,2^32-1,2^32,2^63,2^64-1,random} in between; "
            "thorough tier and search mode: 2^31+21 consecutive calls on a pool of 7 and 2^32+9 on a pool of 3 (in-process, "
            "digest = first/last result and number of breaks of the rotation, judged against the closed form i mod N; not "
            "replayed through the model driver). "
            "Non-trivial: at least two threads acted / every pool case; distinct = distinct implementation logs.")
    trusted_base = [
        "Lean 4.33.0 kernel; axioms allowed: propext, Classical.choice, Quot.sound",
        "vlib/extract.py + vlib/gen/loop.py, vlib/gen/pool.py (clang-14 JSON AST -> Generated/Loop.lean, Generated/Pool.lean)",
        "hand-written Model/Loop.lean and Model/Pool.lean, tied by the differential runs (harness/loop_drv.cc vs "
        "lean/Driver/LoopDrv.lean, harness/pool_drv.cc vs lean/Driver/PoolDrv.lean)",
        "vlib/gen/threadskel.py + vlib/logskel_common.py (same AST -> Generated/ThreadSkel.lean: statement skeletons of Thread::Thread / start / join / ~Thread / setDefaultName, detail::startThread, ThreadData::runInThread (Thread.cc), CountDownLatch::wait / countDown) and the hand-written reading Model/ThreadSkelDecl.lean (which atomic step of the model stands for which statements): that the code calls pthread in the modelled order is tied by decide; what the pthread / libc functions do stays trusted (POSIX)",
        "vlib/gen/loopskel.py (clang-14 JSON AST -> Generated/LoopSkel.lean: statement skeletons of every function of EventLoop.cc, EventLoopThread.cc, EventLoopThreadPool.cc, Acceptor.cc and Channel::Channel / ~Channel, incl. lock / unlock positions; what it leaves out is listed in the generated header) and the reading Model/LoopSkelDecl.lean of what the steps of Model/Loop.lean / Model/Pool.lean assume; the two are proved equal and the orders C05 rests on (quit_ stored before wakeup(); loop_ published / cleared under mutex_ around loop.loop(); quit under mutex_ then join; start before the wait loop; loops_ filled in index order) are read off the extracted skeletons (loopthread_statement_order_tied)",
        "harness/sched/detsched.h and the eventfd/read/write/close interposers of harness/loop_drv.cc; AddressSanitizer "
        "(fake stacks) as the second use-after-destruction detector",
        "pthread mutexes/conditions/join, eventfd and poll behave as documented; Thread::start returns after the new thread "
        "published its id (CountDownLatch: C14)",
    ]
    assumptions = [
        "task bodies terminate; loop() is entered again only by the owner thread of a plain loop after it has returned (quit_ is re-armed on the way out: the quit theorems speak about one run, a quit() stored between two runs is a request to the next one); an EventLoopThread calls loop() once",
        "one owner thread calls startLoop() and later destroys the EventLoopThread, not concurrently (the excluded case is the "
        "explicit disjunct EarlyDestroy of stuck_states, not silently assumed); clean_shutdown additionally assumes that user "
        "code does not quit the thread's loop (otherwise the owner's pointer may dangle — the caller's responsibility)",
        "a user thread that submits to a loop which quits by itself may touch a destroyed loop (caller's responsibility; the "
        "property speaks about the destructor): generated programs avoid it",
        "pool: start() is called once with 0 <= N <= 64 threads in the differential runs (the theorems hold for every N)",
    ]
    partial_theorems = []

    def signature(self, case, kind, desc):
        return kind

    def correspondence(self, ctx, replay=None):
        if replay:
            engine = loop_common.correspondence(self, ctx, replay, "C05")
            if engine == pool_common.ENGINE:
                pool_common.replay_pool(ctx, pool_common.read_case_file(replay), "dbg")
            return
        if ctx.search_mode:
            # an obligation or a tie broke: the asserts-on half of the pool part first (about 20 s with the long runs,
            # against minutes for the loop engine's search), the sanitizer half after the loop engine
            self.pool_part(ctx, ["dbg"])
            if ctx.stop():
                return
            loop_common.correspondence(self, ctx, None, "C05")
            if ctx.stop():
                return
            self.pool_part(ctx, ["asan"])
            return
        loop_common.correspondence(self, ctx, None, "C05")
        if ctx.stop():
            return
        # (the loop engine enters search mode by itself when its runs diverge from the model)
        self.pool_part(ctx, ["dbg"] if ctx.quick() and not ctx.search_mode else ["dbg", "asan"])

    def pool_part(self, ctx, flavours):
        search = ctx.search_mode
        for fl in flavours:
            pool_common.corpus_pool(ctx, fl, "C05")
            if ctx.stop():
                return
            pool_common.run_pool(ctx, fl)
            if ctx.stop():
                return
            # a pool destroyed after one of its io loops ended on its own (oracle only)
            pool_common.run_selfquit(ctx, fl)
            if ctx.stop():
                return
            # long runs across the 2^31 and 2^32 boundaries of the cursor (implementation + closed-form oracle): thorough
            # tier and search mode, asserts-on build (about 20 s, the two runs side by side); search mode also under
            # UBSan, which reports a signed overflow of the cursor whatever the pool size (about 45 s)
            if ctx.quick() and not search:
                continue
            if fl == "dbg":
                pool_common.run_spin(ctx, "dbg")
            elif search:
                pool_common.run_spin(ctx, "asan", [(3, (1 << 31) + 9)])
            if ctx.stop():
                return


PROP = Prop()
