"""Shared by C04 and C05: the `loop` engine — program/schedule generator, independent trace oracle, differential run
of the real EventLoop / EventLoopThread under harness/sched/detsched.h (harness/loop_drv.cc) against the Lean
transition system (lean/Driver/LoopDrv.lean, `drv_loop`), shrinking, bounded exhaustive schedule enumeration.

A case (engine=loop) is one program + one schedule:
    mode plain|elt
    task <id>: <subs>          body of a task                 subs: q<id> r<id> p<id> quit startLoop destroy
                                                              qburst<first>x<count> = q<first> q<first+1> … (shorthand,
                                                              expanded by both drivers; ids of q/r up to 65535, a task
                                                              without a `task` line has an empty body)
    dtor <id>: <subs>          what the DESTRUCTION of task <id>'s functor object does (the destructor of something the
                               functor owns): runs where the loop lets go of the functor — after the batch it was part of
                               has run (doPendingFunctors), or when an inline runInLoop() returns; event `T<k> dtor <id>`
    pre: <subs>                what the owner does before loop() (elt: in the ThreadInitCallback)
    again: <subs>              plain mode, repeatable: after loop() has returned the owner runs this segment outside loop()
                               and calls loop() AGAIN on the same object (quit_ is re-armed on the way out).  A "run" is
                               one loop:entry … returned; the queue, the eventfd and the submission order go on across runs
    thread <k>: <subs>         program of thread k (plain: foreign threads k >= 1; elt: k = 0, the owner of the EventLoopThread)
    follow <k …> | schedule <int …>   (+ `spurious`: with a raw schedule the scheduler may wake a condition waiter
                                       nobody notified)

The implementation is run first.  Its log gives the order in which the threads performed their visible events;
the model is run with exactly that order (`follow`), so both sides execute the same interleaving, and the two logs
(events + final `done` / `blocked T0:… T1:…`) must be equal.  The oracle reads only the implementation's log
(events and the `# T<k> call/ret/leave` annotations of the harness); it never consults the model.

Search mode (ctx.search_mode: an obligation or a tie broke — or, set here, a run diverged from the model on a case the
oracle accepts): the divergence is kept for the end, the targeted programs of search_programs() are enumerated at
once (every raw schedule within 1..2 preemptions, through the silent switch point `harness:beforeWakeread` of the
harness), the counts become the thorough ones.

Oracle kinds (C04): wrong-thread, order, exec-context, inline-first, lost-wakeup, task-dropped, drain-on-exit
                    (loop() returned although a functor appended before its last test of the queue never ran);
                    all of them also judge the submissions made by destructor bodies (a functor queued while a functor
                    object dies is a queued functor like any other); wrong-thread also: a functor object died on a thread
                    other than the loop thread
Oracle kinds (C05): quit-ignored, quit-lost, loop-returned-without-quit, uaf-dtor, uaf, startloop (wrong pointer,
                    NULL for a live loop), startloop-hang (also: waiting for a loop that is already gone),
                    join, join-hang, deadlock
both: crash, trace
"""
import glob
import os
import re
from concurrent.futures import ThreadPoolExecutor

from . import leanside
from .common import CORPUS, sh
from .runner import Case, ddmin, split_blocks

ENGINE = "loop"

C04_KINDS = {"wrong-thread", "order", "exec-context", "inline-first", "lost-wakeup", "task-dropped", "drain-on-exit",
             "lost-io"}
C05_KINDS = {"quit-ignored", "quit-lost", "loop-returned-without-quit", "uaf-dtor", "uaf", "startloop", "startloop-hang",
             "join", "join-hang", "deadlock"}
BOTH_KINDS = {"crash", "trace"}


# ----------------------------------------------------------------------------- cases

class Prog:
    """a parsed case"""

    def __init__(self):
        self.mode = "plain"
        self.tasks = {}      # id -> [sub]
        self.dtors = {}      # id -> [sub]: destructor body of what the task's functor object owns
        self.pre = []
        self.again = []      # plain: [[sub]] — segments after loop() returned, each followed by another loop()
        self.threads = {}    # k -> [sub]
        self.follow = None
        self.schedule = None
        self.spurious = False

    def copy(self):
        p = Prog()
        p.mode = self.mode
        p.tasks = {k: list(v) for k, v in self.tasks.items()}
        p.dtors = {k: list(v) for k, v in self.dtors.items()}
        p.pre = list(self.pre)
        p.again = [list(v) for v in self.again]
        p.threads = {k: list(v) for k, v in self.threads.items()}
        p.follow = None if self.follow is None else list(self.follow)
        p.schedule = None if self.schedule is None else list(self.schedule)
        p.spurious = self.spurious
        return p

    def lines(self, follow=None, schedule=None, with_schedule=True):
        out = ["mode " + self.mode]
        for i in sorted(self.tasks):
            out.append("task %d: %s" % (i, " ".join(self.tasks[i])))
        for i in sorted(self.dtors):
            if self.dtors[i]:
                out.append("dtor %d: %s" % (i, " ".join(self.dtors[i])))
        out.append("pre: " + " ".join(self.pre))
        if self.mode == "plain":
            for seg in self.again:
                out.append("again: " + " ".join(seg))
        ks = sorted(self.threads)
        if self.mode == "plain" and ks:
            ks = list(range(1, max(ks) + 1))
        for k in ks:
            out.append("thread %d: %s" % (k, " ".join(self.threads.get(k, []))))
        out = [l.rstrip() for l in out]
        if self.spurious and with_schedule:
            out.append("spurious")
        if with_schedule:
            f = self.follow if follow is None else follow
            s = self.schedule if schedule is None else schedule
            if follow is not None or (f is not None and schedule is None):
                out.append(("follow " + " ".join(map(str, f))).rstrip())
            elif s is not None:
                out.append(("schedule " + " ".join(map(str, s))).rstrip())
        return out

    def L(self):
        return 1 if self.mode == "elt" else 0

    def thread_ids(self):
        if self.mode == "elt":
            return [0, 1]
        return list(range(0, max(list(self.threads) + [0]) + 1))


def parse_case(lines):
    p = Prog()
    for l in lines:
        l = l.strip()
        if not l or l.startswith("#") or l.startswith("engine="):
            continue
        w = l.split()
        if w[0] == "mode":
            p.mode = w[1]
        elif w[0] == "follow":
            p.follow = [int(x) for x in w[1:]]
        elif w[0] == "schedule":
            p.schedule = [int(x) for x in w[1:]]
        elif w[0] == "spurious":
            p.spurious = True
        else:
            head, _, body = l.partition(":")
            hw = head.split()
            subs = body.split()
            if hw[0] == "pre":
                p.pre = subs
            elif hw[0] == "again":
                p.again.append(subs)
            elif hw[0] == "task":
                p.tasks[int(hw[1])] = subs
            elif hw[0] == "dtor":
                p.dtors[int(hw[1])] = subs
            elif hw[0] == "thread":
                p.threads[int(hw[1])] = subs
            else:
                raise ValueError("bad case line: " + l)
    return p


def read_case_file(path):
    """(engine, lines)"""
    engine = ENGINE
    lines = []
    with open(path) as f:
        for l in f:
            l = l.rstrip("\n")
            if not l.strip() or l.startswith("#"):
                continue
            if l.startswith("engine="):
                engine = l.split()[0].split("=", 1)[1]
                continue
            lines.append(l)
    return engine, lines


# ----------------------------------------------------------------------------- running both sides

def visible(lines):
    return [l for l in lines if l and not l.startswith("#")]


def actual_order(lines):
    """the thread of every visible event, in order (`T<k> uaf` is attached to the event before it)"""
    seq = []
    for l in lines:
        if l.startswith("T") and not l.endswith(" uaf"):
            try:
                seq.append(int(l.split()[0][1:]))
            except ValueError:
                pass
    return seq


def run_impl(exe, lines, env=None, timeout=60):
    """all output lines of the one block (+ a `<<exit n>>` line when the process failed), stderr"""
    rc, out, err = sh([exe], inp="\n".join(lines) + "\n", timeout=timeout, env=env)
    blocks = split_blocks(out)
    blk = blocks[0] if blocks else ["<<no output>>"]
    if rc != 0:
        tail = [x for x in err.strip().split("\n") if x.strip()]
        summary = next((x for x in tail if "ERROR: AddressSanitizer" in x or "runtime error" in x or "Assertion" in x), tail[-1] if tail else "")
        blk = blk + ["<<exit %d>> %s" % (rc, summary.strip()[:200])]
    return blk, err


def run_model(prog, order, timeout=120):
    text = "\n".join(prog.lines(with_schedule=False) + [("follow " + " ".join(map(str, order))).rstrip()]) + "\n"
    rc, out, err = leanside.run_driver(ENGINE, text, timeout=timeout)
    blocks = split_blocks(out)
    blk = blocks[0] if blocks else ["<<no output>>"]
    if rc != 0:
        blk = blk + ["<<driver exit %d>> %s" % (rc, err.strip()[:200])]
    return blk


def compare(impl, model):
    a, b = visible(impl), visible(model)
    if a == b:
        return None
    n = max(len(a), len(b))
    for i in range(n):
        x = a[i] if i < len(a) else "<<end>>"
        y = b[i] if i < len(b) else "<<end>>"
        if x != y:
            ctxt = " | ".join(a[max(0, i - 3):i])
            return "event %d: implementation `%s`, model `%s` (after: %s)" % (i, x, y, ctxt)
    return "logs differ"


# ----------------------------------------------------------------------------- the oracle

class _Call:
    __slots__ = ("kind", "id", "appended", "woke", "stored", "ran", "events")

    def __init__(self, kind, ident):
        self.kind, self.id = kind, ident
        self.appended = self.woke = self.stored = self.ran = False
        self.events = 0


def oracle(prog, lines):
    """C04 + C05 evaluated on the implementation's own log.  Returns [(kind, description)], first failure first."""
    fails = []
    L = prog.L()
    calls = {}         # thread -> stack of _Call
    depth = []         # task bodies being executed on the loop thread (ids)
    appended = []      # (task id, thread) in the order of the `appended` points = mutex order
    taken = 0          # how many of them the swaps have taken out of the queue
    drained = 0        # how many of them were started by a drain
    carried = None     # (line, n): a drain ended with n of the functors it took not run — they count as queued again
    ev = 0             # eventfd counter
    pipe = []          # posted, not yet handled
    phase = "before"   # of the loop thread
    quit_seen = False
    quit_mark = None   # len(appended) at the first flag store
    published = destroyed = started = returned = joined = False
    status = None

    def fail(kind, desc):
        fails.append((kind, "line %d: %s" % (pos, desc)))

    def stack(k):
        return calls.setdefault(k, [])

    def wake_check(asleep=False):
        """the loop sits in poll: it must be woken, or about to be, whenever there is work or a quit request
        (asleep: the scheduler reports the loop blocked in poll, so the descriptor is not readable whatever the
        log says about eventfd writes)"""
        if phase != "inpoll" or ((pipe or ev > 0) and not asleep):
            return
        pending = len(appended) - taken
        if pending > 0:
            if not any(c.kind in ("q", "r") and c.appended and not c.woke for st in calls.values() for c in st):
                if carried and drained < carried[2]:
                    fail("task-dropped", "the drain that ended at line %d left %d of the functors it had taken out of the queue "
                         "not run (next: task %d); the loop is in poll, the wake-up descriptor is not readable and nobody is "
                         "about to write it" % (carried[0], carried[1], appended[taken][0]))
                else:
                    fail("lost-wakeup", "the loop is in poll with %d queued functor(s) (first: task %d), the wake-up descriptor "
                         "is not readable and no thread is between its append and its wakeup()" % (pending, appended[taken][0]))
        if quit_seen and not fails:
            if not any(c.kind in ("quit", "destroy") and c.stored and not c.woke for st in calls.values() for c in st):
                fail("quit-lost", "the loop is in poll after quit() stored its flag, the wake-up descriptor is not readable "
                     "and no quit() is between the store and its wakeup()")

    pos = 0
    for pos, line in enumerate(lines, 1):
        if fails:
            break
        if line.startswith("<<"):
            fail("crash", " ".join(l for l in lines if l.startswith("<<")))
            break
        if line.startswith("# T"):
            w = line.split()
            k = int(w[1][1:])
            if w[2] == "call":
                c = _Call(w[3], int(w[4]) if len(w) > 4 else None)
                stack(k).append(c)
            elif w[2] == "ret":
                st = stack(k)
                if not st or st[-1].kind != w[3]:
                    fail("trace", "unbalanced `%s`" % line)
                    break
                c = st.pop()
                if c.kind == "r" and k == L and not c.ran:
                    fail("inline-first", "runInLoop(task %d) on the loop thread returned without having run the functor" % c.id)
                if c.kind == "destroy" and started and not joined:
                    fail("join", "~EventLoopThread returned without having joined the thread it started")
                if c.kind == "startLoop" and (len(w) < 5 or w[4] != "ok"):
                    # NULL is the right answer exactly when the loop has already come and gone
                    if not (len(w) > 4 and w[4] == "null" and destroyed):
                        fail("startloop", "startLoop() returned %s instead of the loop constructed by the new thread"
                             % (w[4] if len(w) > 4 else "?"))
                wake_check()
            elif w[2] == "leave":
                if not depth or depth[-1] != int(w[3]):
                    fail("trace", "unbalanced `%s`" % line)
                    break
                depth.pop()
            elif w[2] == "leave-dtor":
                if not depth or depth[-1] != ("dtor", int(w[3])):
                    fail("trace", "unbalanced `%s`" % line)
                    break
                depth.pop()
            continue
        if line.startswith("#"):
            continue
        if not line.startswith("T"):
            status = line
            continue
        w = line.split()
        k = int(w[0][1:])
        what = " ".join(w[1:])
        top = stack(k)[-1] if stack(k) else None
        if top is not None and what != "uaf":
            top.events += 1
        if what == "uaf":
            inside = top.kind if top else "?"
            if inside == "destroy":
                fail("uaf-dtor", "~EventLoopThread touched the loop after it was destroyed")
            else:
                fail("uaf", "T%d touched the loop after it was destroyed (inside %s)" % (k, inside))
        elif w[1] == "exec":
            x = int(w[2])
            if k != L:
                fail("wrong-thread", "task %d ran on T%d, the loop thread is T%d" % (x, k, L))
            elif top is not None and top.kind == "r" and top.id == x and not top.ran and not top.appended:
                if top.events != 1:
                    fail("inline-first", "runInLoop(task %d) on the loop thread did other things before running the functor" % x)
                top.ran = True
                depth.append(x)
            elif phase == "dispatch" and not depth:
                if not pipe or pipe[0] != x:
                    fail("exec-context", "the I/O handler ran task %d, the pipe holds %s" % (x, pipe[:3]))
                else:
                    pipe.pop(0)
                depth.append(x)
            elif phase in ("draining", "finaldraining") and not depth:
                if drained >= taken:
                    fail("order", "the drain started task %d but every functor it took (%d) has run already" % (x, taken))
                elif appended[drained][0] != x:
                    later = [i for i in range(drained, len(appended)) if appended[i][0] == x]
                    fail("order", "the drain started task %d, next in submission order is task %d (queued by T%d)%s"
                         % (x, appended[drained][0], appended[drained][1],
                            "" if later else "; task %d has no unexecuted submission" % x))
                else:
                    drained += 1
                depth.append(x)
            else:
                fail("exec-context", "task %d started in phase %s at nesting depth %d" % (x, phase, len(depth)))
        elif w[1] == "dtor":
            # a functor object dies and the destructor of what it owns starts to run: user code on the loop thread, in
            # whatever phase the loop lets go of the object.  What it submits is judged like any other submission.
            x = int(w[2])
            if k != L:
                fail("wrong-thread", "the functor object of task %d was destroyed on T%d, the loop thread is T%d" % (x, k, L))
            depth.append(("dtor", x))
        elif what == "point queueInLoop:appended":
            if top is None or top.kind not in ("q", "r"):
                fail("trace", "append outside a submission")
                break
            if top.kind == "r" and k == L:
                fail("inline-first", "runInLoop(task %d) on the loop thread queued the functor instead of running it" % top.id)
            top.appended = True
            appended.append((top.id, k))
        elif what == "wakeup":
            if top is not None:
                top.woke = True
            nxt = lines[pos] if pos < len(lines) else ""
            if nxt != "T%d uaf" % k:
                ev += 1
        elif what == "wakeread":
            ev = 0
        elif w[1] == "post":
            pipe.append(int(w[2]))
        elif what == "point quit:stored":
            if top is not None:
                top.stored = True
            quit_seen = True
            if quit_mark is None:
                quit_mark = len(appended)
        elif what == "point loop:entry":
            phase = "entered"
        elif what == "point loop:beforePoll":
            if quit_seen:
                fail("quit-ignored", "the loop goes back to poll although quit() stored its flag before (a quit() issued "
                     "before this test of the flag must end the loop)")
            phase = "inpoll"
        elif what == "point loop:afterPoll":
            phase = "dispatch"
        elif what == "point doPendingFunctors:beforeSwap":
            phase = "finalpreswap" if phase in ("exiting", "finaldraining") else "preswap"
        elif what == "point doPendingFunctors:afterSwap":
            taken = len(appended)
            phase = "finaldraining" if phase == "finalpreswap" else "draining"
        elif what == "point doPendingFunctors:functorDone":
            pass
        elif what == "point loop:afterFunctors":
            if drained != taken:
                # The property does not say that one drain runs everything it swapped out (a bounded batch that puts the
                # rest back and wakes the loop is as good).  What it says is judged by the other rules, with the remainder
                # counted as queued again: it must run next, in submission order (`order`), the loop must not sleep on it
                # (`task-dropped` / `lost-wakeup` at the next poll), loop() must not return without it (`drain-on-exit`).
                carried = (pos, taken - drained, taken)
                taken = drained
            phase = "between"
        elif what == "point loop:exit":
            if not quit_seen:
                fail("loop-returned-without-quit", "loop() leaves its `while` although nobody called quit()")
            phase = "exiting"
        elif what in ("returned", "point threadFunc:loopReturned"):
            if drained != taken:
                fail("task-dropped", "loop() returned with %d functor(s) taken out of the queue but not run" % (taken - drained))
            elif drained < len(appended):
                # the test of the queue that lets loop() return and this line are one step of the loop thread: whatever
                # was appended before has been seen by that test
                fail("drain-on-exit", "loop() returned although task %d (queued by T%d %s) never ran"
                     % (appended[drained][0], appended[drained][1],
                        "before the first quit() call" if quit_mark is not None and drained < quit_mark
                        else "before loop() returned" + (", from a functor of the final drain" if appended[drained][1] == L else "")))
            phase = "returned"
            returned = True
            if what == "returned":
                # plain mode: loop() may be entered again.  The return re-armed quit_: a flag stored from here on is a
                # request to the next run; the queue, the eventfd and the order of submissions go on.
                quit_seen = False
                quit_mark = None
        elif what == "destroyed":
            destroyed = True
            phase = "destroyed"
        elif what == "point threadFunc:published":
            published = True
        elif what == "started":
            started = True
            if not published:
                fail("startloop", "startLoop() returned before the new thread published its loop")
        elif what == "started null":
            started = True
            if not destroyed:
                fail("startloop", "startLoop() returned NULL although the new thread's loop %s"
                     % ("is published and alive" if published else "is still to come"))
        elif what == "joined":
            joined = True
            if not destroyed:
                fail("join", "the destructor's join returned before the loop thread destroyed its loop")
        elif what in ("point dtor:entry", "point dtor:beforeQuit"):
            pass
        else:
            fail("trace", "unknown event `%s`" % line)
            break
        wake_check()
    if fails:
        return fails
    pos = len(lines)
    if status is None:
        fail("crash", "no final status")
        return fails
    if status == "done":
        if depth or any(st for st in calls.values()):
            fail("trace", "done with open calls")
        return fails
    if not status.startswith("blocked"):
        fail("crash", "status `%s`" % status)
        return fails
    # every thread is blocked
    states = dict((int(t.split(":")[0][1:]), t.split(":")[1]) for t in status.split()[1:])
    for k in sorted(states):
        s = states[k]
        if s == "fin":
            continue
        if k == L and s == "poll":
            continue
        top = stack(k)[-1] if stack(k) else None
        inside = top.kind if top else "?"
        if s == "join":
            fail("join-hang", "T%d waits in join() forever: the loop thread is `%s` (%s)" % (k, states.get(L), status))
        elif s == "wait" and inside == "startLoop":
            fail("startloop-hang", "T%d waits in startLoop() forever (%s)" % (k, status))
        else:
            fail("deadlock", "T%d is blocked in `%s` inside %s forever (%s)" % (k, s, inside, status))
        return fails
    if states.get(L) == "poll":
        # everybody else is finished: the loop may sleep only when nothing is asked of it
        wake_check(asleep=True)
        if not fails and pipe:
            fail("lost-io", "the loop sleeps in poll with %d unread byte(s) in the pipe" % len(pipe))
    return fails


# ----------------------------------------------------------------------------- generator

def _subs(rng, n, ids, kinds="qqrp"):
    return [rng.choice(kinds) + str(rng.choice(ids)) for _ in range(n)] if ids else []


def _gen_dtors(rng, p, nt, density):
    """some functor objects own something whose destructor submits again (higher-numbered tasks only, like the bodies:
    every chain of submissions ends)"""
    if rng.random() >= density:
        return
    for i in range(1, nt):
        if rng.random() < 0.4:
            p.dtors[i] = _subs(rng, rng.choice([1, 1, 1, 2]), list(range(i + 1, nt + 1)), "qqqrp")


def gen_plain(rng, size=None):
    """one loop owned by T0 (runs `pre`, then loop()), foreign threads T1..; quit() from anywhere or nowhere"""
    p = Prog()
    nt = rng.choice([2, 3, 4, 5, 6]) if size is None else size
    for i in range(nt, 0, -1):
        higher = list(range(i + 1, nt + 1))
        p.tasks[i] = _subs(rng, rng.choice([0, 0, 0, 1, 1, 2, 3]), higher)
    _gen_dtors(rng, p, nt, 0.5)
    ids = list(range(1, nt + 1))
    p.pre = _subs(rng, rng.choice([0, 0, 1, 1, 2, 3]), ids)
    nthr = rng.choice([0, 1, 1, 1, 2, 2, 3])
    for k in range(1, nthr + 1):
        p.threads[k] = _subs(rng, rng.choice([1, 1, 2, 3, 4]), ids)
    r = rng.random()
    if p.dtors and rng.random() < 0.12:
        # the destructor of something a functor owns ends the loop
        t = rng.choice(sorted(p.dtors))
        p.dtors[t].insert(rng.randrange(0, len(p.dtors[t]) + 1), "quit")
    elif r < 0.40 and nthr:
        k = rng.randrange(1, nthr + 1)
        p.threads[k].insert(rng.randrange(0, len(p.threads[k]) + 1), "quit")
    elif r < 0.65:
        t = rng.choice(ids)
        p.tasks[t].insert(rng.randrange(0, len(p.tasks[t]) + 1), "quit")
    elif r < 0.75:
        p.pre.insert(rng.randrange(0, len(p.pre) + 1), "quit")
    elif r < 0.85 and nthr:
        # two quitters
        for k in {rng.randrange(1, nthr + 1), rng.randrange(1, nthr + 1)}:
            p.threads[k].append("quit")
    if rng.random() < 0.3:
        # loop() is entered again (once or twice) after it has returned: the owner queues / runs / posts in between,
        # quits before the next call, inside it (a task that quits runs again) or leaves that to a foreign thread whose
        # program spans the runs; without any of these the last run ends asleep in poll
        for _ in range(rng.choice([1, 1, 2])):
            seg = _subs(rng, rng.choice([0, 1, 1, 2]), ids)
            if rng.random() < 0.25:
                seg.insert(rng.randrange(0, len(seg) + 1), "quit")
            p.again.append(seg)
            if nthr and rng.random() < 0.5:
                k = rng.randrange(1, nthr + 1)
                p.threads[k] += _subs(rng, rng.choice([0, 1]), ids) + ["quit"]
    return p


def gen_elt(rng):
    """EventLoopThread: T0 = startLoop, submissions, (destroy); T1 = the loop thread, `pre` = its init callback.
    A task that calls quit() is reachable only through a `p` (pipe) of T0 after which T0 does not touch the loop
    except through the destructor (anything else would be a use-after-free of the caller's making) — or the loop is
    quit early (gen_elt_early_quit) and T0 never uses the pointer."""
    if rng.random() < 0.15:
        return gen_elt_early_quit(rng)
    p = Prog()
    p.mode = "elt"
    nt = rng.choice([2, 3, 4, 5])
    for i in range(nt, 0, -1):
        higher = list(range(i + 1, nt + 1))
        p.tasks[i] = _subs(rng, rng.choice([0, 0, 1, 1, 2]), higher)
    _gen_dtors(rng, p, nt, 0.35)
    ids = list(range(1, nt + 1))
    p.pre = _subs(rng, rng.choice([0, 0, 0, 1, 2]), ids)
    body = _subs(rng, rng.choice([0, 0, 1, 2, 3]), ids)
    if rng.random() < 0.25:
        qt = nt + 1
        p.tasks[qt] = _subs(rng, rng.choice([0, 1]), ids) + ["quit"] + _subs(rng, rng.choice([0, 0, 1]), ids, "qr")
        body.append("p%d" % qt)
        body += _subs(rng, rng.choice([0, 0, 1]), ids, "p")
    prog = ["startLoop"] + body
    if rng.random() < 0.85:
        prog.append("destroy")
    p.threads[0] = prog
    return p


def gen_elt_early_quit(rng):
    """the loop is quit from the thread-init callback or from a functor / handler it set going: startLoop() may see
    the loop, or find it gone (NULL); the owner does not touch the pointer (it may dangle), only the destructor"""
    p = Prog()
    p.mode = "elt"
    nt = rng.choice([2, 3, 4])
    for i in range(nt, 0, -1):
        higher = list(range(i + 1, nt + 1))
        p.tasks[i] = _subs(rng, rng.choice([0, 0, 1, 2]), higher)
    _gen_dtors(rng, p, nt, 0.3)
    ids = list(range(1, nt + 1))
    p.pre = _subs(rng, rng.choice([0, 1, 2]), ids)
    where = rng.random()
    if where < 0.4 or not p.pre:
        p.pre.insert(rng.randrange(0, len(p.pre) + 1), "quit")
    else:
        # a task reachable from the init callback quits
        t = int(rng.choice(p.pre)[1:])
        p.tasks[t].insert(rng.randrange(0, len(p.tasks[t]) + 1), "quit")
    prog = ["startLoop"] + _subs(rng, rng.choice([0, 0, 1]), ids, "p")
    if rng.random() < 0.8:
        prog.append("destroy")
    p.threads[0] = prog
    return p


def gen_follow(rng, ids, n=None):
    n = rng.choice([10, 30, 60, 120]) if n is None else n
    stick = rng.choice([0.3, 0.6, 0.8, 0.9])
    out = []
    cur = rng.choice(ids)
    for _ in range(n):
        if rng.random() > stick:
            cur = rng.choice(ids)
        out.append(cur)
    return out


def gen_schedule(rng, n=None):
    n = rng.choice([20, 60, 150]) if n is None else n
    dens = rng.choice([0.05, 0.15, 0.3, 0.6])
    return [(rng.randrange(1, 4) if rng.random() < dens else 0) for _ in range(n)]


def sweeps():
    """directed families: one racing call placed after every number of steps of the loop thread
    (quit at every phase of loop(); destruction at every point of the loop thread's start-up)"""
    out = []
    # foreign quit() / queue+quit against a loop that has one functor queued before loop()
    for body in (["quit"], ["q2", "quit"], ["r2", "quit"]):
        for pre in ([], ["q1"]):
            for i in range(0, 16):
                p = Prog()
                p.tasks = {1: [], 2: []}
                p.pre = list(pre)
                p.threads[1] = list(body)
                p.follow = [0] * i + [1] * 8 + [0] * 60
                out.append(("sweep-quit", p))
    # a submission placed at every phase, the loop is ended by a second thread afterwards
    for body in (["q2"], ["r2", "q3"], ["p2"]):
        for i in range(0, 22):
            p = Prog()
            p.tasks = {1: ["q3"], 2: [], 3: []}
            p.pre = ["q1"]
            p.threads[1] = list(body)
            p.threads[2] = ["quit"]
            p.follow = [0] * i + [1] * 8 + [0] * 40 + [2] * 4 + [0] * 40
            out.append(("sweep-submit", p))
    # a functor run by the drain after the `while` queues another one (and that one a third): quit placed at every step
    for body in (["quit"], ["q1", "quit"]):
        for i in range(0, 14):
            p = Prog()
            p.tasks = {1: ["q2"], 2: ["q3", "r4"], 3: [], 4: []}
            p.pre = ["q1"]
            p.threads[1] = list(body)
            p.follow = [0] * i + [1] * 8 + [0] * 80
            out.append(("sweep-final-drain", p))
    # functor objects whose destruction queues again: a foreign submission placed at every step of a loop thread that runs
    # a batch, destroys it (destructor of task 1 queues task 2, the functor of the inline task 5 dies inside a destructor
    # body and queues task 6), sleeps and is woken; a second thread ends the loop afterwards
    for body in (["q3"], ["r3", "q4"]):
        for i in range(0, 30):
            p = Prog()
            p.tasks = {1: [], 2: [], 3: [], 4: [], 5: [], 6: []}
            p.dtors = {1: ["q2"], 2: ["r5"], 5: ["q6"]}
            p.pre = ["q1"]
            p.threads[1] = list(body)
            p.threads[2] = ["quit"]
            p.follow = [0] * i + [1] * 8 + [0] * 60 + [2] * 4 + [0] * 60
            out.append(("sweep-dtor", p))
    # … the same inside the drain after the `while`: the quit placed at every step; destructor bodies keep the final drain going
    for i in range(0, 24):
        p = Prog()
        p.tasks = {1: ["q2"], 2: [], 3: ["q4"], 4: []}
        p.dtors = {1: ["q3"], 2: ["p4"], 3: ["r4"]}
        p.pre = ["q1"]
        p.threads[1] = ["quit"]
        p.follow = [0] * i + [1] * 8 + [0] * 120
        out.append(("sweep-dtor-final-drain", p))
    # loop() entered again: task 1 (queued before the first call) quits; the owner then queues task 2 / runs it inline and
    # queues 4 / only re-enters, and calls loop() again; a foreign submission placed at every step of both runs and of
    # the stretch between them, a foreign quit afterwards
    for seg in (["q2"], ["r2", "q4"], []):
        for i in range(0, 36, 1 if seg == ["q2"] else 2):
            p = Prog()
            p.tasks = {1: ["quit"], 2: [], 3: [], 4: []}
            p.pre = ["q1"]
            p.again = [list(seg)]
            p.threads[1] = ["q3"]
            p.threads[2] = ["quit"]
            p.follow = [0] * i + [1] * 8 + [0] * 60 + [2] * 4 + [0] * 40
            out.append(("sweep-reenter", p))
    # ~EventLoopThread at every point of the new thread's progress (with and without an init callback that queues)
    for pre in ([], ["q1"]):
        for i in range(0, 20):
            p = Prog()
            p.mode = "elt"
            p.tasks = {1: []}
            p.pre = list(pre)
            p.threads[0] = ["startLoop", "destroy"]
            p.follow = [1] * i + [0] * 10 + [1] * 40 + [0] * 4
            out.append(("sweep-destroy", p))
        for i in range(0, 12):
            # the destructor parked after j of its own events while the loop thread runs
            p = Prog()
            p.mode = "elt"
            p.tasks = {1: []}
            p.pre = list(pre)
            p.threads[0] = ["startLoop", "destroy"]
            p.follow = [1] * 3 + [0] * (i % 6) + [1] * (3 + i) + [0] * 10 + [1] * 40 + [0] * 4
            out.append(("sweep-destroy", p))
    # the loop is quit before startLoop() has returned: by the init callback, by a functor it queued, by a handler
    for pre, tasks in ((["quit"], {1: []}), (["q1"], {1: ["quit"]}), (["p1"], {1: ["quit"]}), (["q1", "quit"], {1: []})):
        for i in range(0, 18):
            for tail in ([], ["destroy"]):
                p = Prog()
                p.mode = "elt"
                p.tasks = {k: list(v) for k, v in tasks.items()}
                p.pre = list(pre)
                p.threads[0] = ["startLoop"] + tail
                p.follow = [1] * i + [0] * 8 + [1] * 40 + [0] * 6
                out.append(("sweep-early-quit", p))
    # the loop quits itself (pipe handler) while the owner destroys the EventLoopThread
    for i in range(0, 24):
        p = Prog()
        p.mode = "elt"
        p.tasks = {1: ["quit"]}
        p.threads[0] = ["startLoop", "p1", "destroy"]
        p.follow = [1] * 4 + [0] * 2 + [1] * i + [0] * 10 + [1] * 40 + [0] * 4
        out.append(("sweep-selfquit-destroy", p))
    return out


# ----------------------------------------------------------------------------- one case through both sides

class Result:
    __slots__ = ("prog", "lines", "impl", "err", "fails", "model", "mismatch", "order")


def evaluate(exe, prog, with_model=True, env=None):
    r = Result()
    r.prog = prog
    r.lines = prog.lines()
    r.impl, r.err = run_impl(exe, r.lines, env=env)
    r.fails = oracle(prog, r.impl)
    r.order = actual_order(r.impl)
    r.model, r.mismatch = None, None
    if with_model:
        r.model = run_model(prog, r.order)
        r.mismatch = compare(r.impl, r.model)
    return r


def contexts(prog, impl):
    """which submission / quit / destruction contexts this run exercised (for the evidence histogram)"""
    L = prog.L()
    seen = set()
    phase = "before"
    depth = 0
    bodies = []        # what the loop thread is executing, innermost last: "t" task body, "d" destructor body
    names = {"q": "queue", "r": "run", "quit": "quit"}
    for line in impl:
        if line.startswith("# T"):
            w = line.split()
            k = int(w[1][1:])
            if w[2] == "call":
                kind = w[3]
                if kind in names:
                    if k != L:
                        seen.add("%s:foreign" % names[kind])
                        seen.add("%s:foreign@%s" % (names[kind], phase))
                    elif bodies and bodies[-1] == "d":
                        seen.add("%s:dtor" % names[kind])
                        seen.add("%s:dtor@%s%s" % (names[kind], phase, "-inline" if "t" in bodies else ""))
                    elif phase == "returned":
                        seen.add("%s:between-runs" % names[kind])
                    elif phase in ("before", "published"):
                        seen.add("%s:before-loop" % names[kind])
                    elif depth >= 2:
                        seen.add("%s:nested" % names[kind])
                    elif phase == "dispatch":
                        seen.add("%s:io-handler" % names[kind])
                    elif phase == "draining":
                        seen.add("%s:functor" % names[kind])
                    elif phase == "finaldraining":
                        seen.add("%s:final-drain" % names[kind])
                    else:
                        seen.add("%s:%s" % (names[kind], phase))
                elif kind == "destroy":
                    seen.add("destroy@%s" % phase)
            elif w[2] == "leave":
                depth -= 1
                if bodies:
                    bodies.pop()
            elif w[2] == "leave-dtor":
                if bodies:
                    bodies.pop()
            continue
        if not line.startswith("T"):
            continue
        w = line.split()
        k = int(w[0][1:])
        what = " ".join(w[1:])
        if w[1] == "exec":
            depth += 1
            bodies.append("t")
        if w[1] == "dtor":
            bodies.append("d")
            seen.add("dtor@%s" % phase)
        if what in ("started", "started null"):
            seen.add("startLoop:" + ("null" if what.endswith("null") else "loop") + "@" + phase)
        if k == L:
            m = {"point loop:entry": "entered", "point loop:beforePoll": "inpoll", "point loop:afterPoll": "dispatch",
                 "point loop:afterFunctors": "between", "point loop:exit": "exiting", "returned": "returned",
                 "point threadFunc:loopReturned": "returned", "destroyed": "destroyed",
                 "point threadFunc:published": "published"}
            if what == "point loop:entry" and phase == "returned":
                seen.add("loop:entered-again")
            if what in m:
                phase = m[what]
            elif what == "point doPendingFunctors:beforeSwap":
                phase = "finalpreswap" if phase in ("exiting", "finaldraining") else "preswap"
            elif what == "point doPendingFunctors:afterSwap":
                phase = "finaldraining" if phase == "finalpreswap" else "draining"
    return seen


# ----------------------------------------------------------------------------- shrinking

_BURST = re.compile(r"^qburst(\d+)x(\d+)$")


def _atoms(prog):
    a = []
    for i in sorted(prog.tasks):
        for j, s in enumerate(prog.tasks[i]):
            a.append("task|%d|%d|%s" % (i, j, s))
    for i in sorted(prog.dtors):
        for j, s in enumerate(prog.dtors[i]):
            a.append("dtor|%d|%d|%s" % (i, j, s))
    for j, s in enumerate(prog.pre):
        a.append("pre|0|%d|%s" % (j, s))
    for i, seg in enumerate(prog.again):
        a.append("againseg|%d|0|-" % i)            # the re-entry itself (an empty segment still calls loop() again)
        for j, s in enumerate(seg):
            a.append("again|%d|%d|%s" % (i, j, s))
    for k in sorted(prog.threads):
        for j, s in enumerate(prog.threads[k]):
            a.append("thread|%d|%d|%s" % (k, j, s))
    sched = prog.follow if prog.follow is not None else (prog.schedule or [])
    for j, s in enumerate(sched):
        a.append("sched|0|%d|%d" % (j, s))
    return a


def _rebuild(prog, atoms):
    p = Prog()
    p.mode = prog.mode
    p.spurious = prog.spurious
    p.tasks = {i: [] for i in prog.tasks}
    p.threads = {k: [] for k in prog.threads}
    sched = []
    segs = {}
    for a in atoms:
        kind, idx, _, val = a.split("|")
        if kind == "againseg":
            segs.setdefault(int(idx), [])
            continue
        if kind == "again":
            segs.setdefault(int(idx), []).append(val)
            continue
        if kind == "task":
            p.tasks[int(idx)].append(val)
        elif kind == "dtor":
            p.dtors.setdefault(int(idx), []).append(val)
        elif kind == "pre":
            p.pre.append(val)
        elif kind == "thread":
            p.threads[int(idx)].append(val)
        else:
            sched.append(int(val))
    p.again = [segs[i] for i in sorted(segs)]
    if prog.follow is not None:
        p.follow = sched
    else:
        p.schedule = sched
    if p.mode == "plain":
        while p.threads and not p.threads[max(p.threads)]:
            del p.threads[max(p.threads)]
    else:
        p.threads.setdefault(0, [])
    return p


def shrink(prog, still, budget=250):
    """ddmin over the sub-calls of every body and the schedule entries; `still(prog)` = the failure persists"""
    atoms = _atoms(prog)

    def fails(ats):
        q = _rebuild(prog, ats)
        if q.mode == "elt" and "startLoop" not in q.threads.get(0, []):
            return False
        return still(q)
    if not fails(atoms):
        return prog
    small = ddmin(atoms, fails, keep_prefix=0, budget=budget)
    # a burst is one atom: find the smallest count that still fails (bisection; the result is re-checked by the caller)
    for i, a in enumerate(small):
        m = _BURST.match(a.split("|")[3])
        if not m or a.split("|")[0] == "sched":
            continue
        first, lo, hi = int(m.group(1)), 1, int(m.group(2))     # invariant: count hi fails
        head = "|".join(a.split("|")[:3])
        while lo < hi:
            mid = (lo + hi) // 2
            cand = small[:i] + ["%s|qburst%dx%d" % (head, first, mid)] + small[i + 1:]
            if fails(cand):
                hi = mid
            else:
                lo = mid + 1
        small = small[:i] + ["%s|qburst%dx%d" % (head, first, hi)] + small[i + 1:]
    return _rebuild(prog, small)


# ----------------------------------------------------------------------------- bounded exhaustive enumeration

_DEC = re.compile(r"^# dec ?(.*)$")


def decisions(impl):
    """[(n, k, curEnabled)] of every scheduling decision of the run"""
    for l in impl:
        m = _DEC.match(l)
        if m:
            out = []
            for t in m.group(1).split():
                if t[0] != "s":
                    out.append((int(t[1:].split(".")[0]), int(t.rstrip("c").split(".")[1]), False, t[0]))
                    continue
                c = t.endswith("c")
                n, k = t[1:].rstrip("c").split(".")
                out.append((int(n), int(k), c, "s"))
            return out
    return []


def enumerate_schedules(exe, prog, bound, limit, visit, env=None, workers=8):
    """every raw detsched schedule of `prog` with at most `bound` preemptions (a choice other than `continue the
    current thread` while it could continue), depth first by prefix extension; visit(prog_with_schedule, impl, err)
    is called for every complete run; stops after `limit` runs or when visit returns True.
    Returns (runs, exhausted)."""
    runs = 0
    frontier = [([], 0)]
    seen_prefix = set()
    with ThreadPoolExecutor(max_workers=workers) as ex:
        while frontier and runs < limit:
            batch, frontier = frontier[:workers * 4], frontier[workers * 4:]
            batch = batch[:max(0, limit - runs)]
            progs = []
            for pref, used in batch:
                q = prog.copy()
                q.follow = None
                q.schedule = list(pref)
                progs.append(q)
            outs = list(ex.map(lambda q: run_impl(exe, q.lines(), env=env), progs))
            for (pref, used), q, (impl, err) in zip(batch, progs, outs):
                runs += 1
                if visit(q, impl, err):
                    return runs, False
                dec = decisions(impl)
                # children: change one decision after the prefix
                for i in range(len(pref), len(dec)):
                    n, k, cur, kind = dec[i]
                    base = [d[1] for d in dec[:i]]
                    for alt in range(1, n):
                        cost = used + (1 if cur else 0)
                        if cost > bound:
                            continue
                        child = tuple(base + [alt])
                        if child in seen_prefix:
                            continue
                        seen_prefix.add(child)
                        frontier.append((list(child), cost))
    return runs, not frontier


# ----------------------------------------------------------------------------- the runner used by both plug-ins

class Runner:
    def __init__(self, prop, ctx, kinds):
        self.prop, self.ctx = prop, ctx
        self.kinds = set(kinds) | BOTH_KINDS
        self.pool = ThreadPoolExecutor(max_workers=8)
        self.env = None
        # search mode (an obligation or a tie broke, or model and implementation diverged on a case the oracle accepts):
        # a disagreement between model and implementation must not end the search for an input on which the
        # implementation itself violates the property; it is reported at the end if nothing concrete was found
        self.deferred = []
        self.searched = False      # the targeted search programs have run
        self.bursts_full = False   # the full list of burst programs has run

    def close(self):
        self.pool.shutdown(wait=True)

    # ---- reporting
    def _mine(self, fails):
        return [f for f in fails if f[0] in self.kinds]

    def _report_oracle(self, exe, prog, kind, origin):
        ctx = self.ctx

        def still(q):
            blk, _ = run_impl(exe, q.lines(), env=self.env)
            f = oracle(q, blk)
            return bool(f) and f[0][0] == kind
        base = prog
        # a raw schedule is replaced by the order of the visible events when that reproduces the failure
        blk, _ = run_impl(exe, prog.lines(), env=self.env)
        if prog.schedule is not None and prog.follow is None:
            q = prog.copy()
            q.schedule = None
            q.follow = actual_order(blk)
            if still(q):
                base = q
        small = shrink(base, still)
        blk, _ = run_impl(exe, small.lines(), env=self.env)
        f = oracle(small, blk)
        desc = f[0][1] if f and f[0][0] == kind else "(not reproduced after shrinking)"
        ctx.oracle_failures.append((Case(ENGINE, small.lines(), origin), kind, desc))

    def _report_mismatch(self, exe, prog, origin):
        ctx = self.ctx

        def still(q):
            r = evaluate(exe, q, env=self.env)
            return r.mismatch is not None and not self._mine(r.fails)
        small = shrink(prog, still, budget=150)
        r = evaluate(exe, small, env=self.env)
        ctx.mismatches.append((Case(ENGINE, small.lines(), origin), r.mismatch or "(not reproduced after shrinking)"))

    # ---- one batch
    def run_progs(self, exe, items, origin):
        """items: [(tag, Prog)]"""
        ctx = self.ctx
        with_model = ctx.model_ok
        results = list(self.pool.map(lambda it: evaluate(exe, it[1], with_model, self.env), items))
        for (tag, prog), r in zip(items, results):
            if ctx.stop():
                return
            ctx.count("cases:" + tag)
            cx = contexts(prog, r.impl)
            for c in cx:
                ctx.count("ctx:" + c)
            status = next((l for l in reversed(r.impl) if not l.startswith("#")), "?")
            ctx.count("end:" + ("done" if status == "done" else "sleeping" if status.startswith("blocked") else "other"))
            nontrivial = len(set(r.order)) > 1 or bool(cx)
            ctx.record(Case(ENGINE, r.lines, origin), [r.impl], nontrivial,
                       sample={"case": r.lines, "events": len(visible(r.impl)), "end": status})
            mine = self._mine(r.fails)
            if mine:
                self._report_oracle(exe, prog, mine[0][0], origin + ":" + tag)
            elif r.fails:
                ctx.count("other-property:" + r.fails[0][0])
            elif r.mismatch:
                self._diverged(exe, prog, origin + ":" + tag)

    def _diverged(self, exe, prog, origin):
        """model and implementation differ on a case the oracle accepts: the divergence is kept (reported at the end
        unless a concrete violation turns up) and the run goes on in search mode — targeted programs, thorough counts"""
        ctx = self.ctx
        if not ctx.search_mode:
            ctx.search_mode = True
            ctx.notes.append("model and implementation diverged on %s: the search for a failing input was intensified"
                             % origin)
        if len(self.deferred) < 2:
            self.deferred.append((exe, prog, origin, self.env))
        ctx.count("model-differs-while-searching")

    def flush_deferred(self):
        if self.ctx.oracle_failures:
            return
        for exe, prog, origin, env in self.deferred:
            self.env = env
            self._report_mismatch(exe, prog, origin)
        self.env = None

    def corpus(self, exe, prop_ids):
        for pid in prop_ids:
            for path in sorted(glob.glob(os.path.join(CORPUS, pid, "*.case"))):
                engine, lines = read_case_file(path)
                if engine != ENGINE:
                    continue
                self.run_progs(exe, [("corpus", parse_case(lines))], "corpus:" + os.path.basename(path))
                self.ctx.count("corpus_cases")
                if self.ctx.stop():
                    return

    def exhaustive(self, exe, prog, bound, limit, tag):
        """all schedules of `prog` within the preemption bound: oracle on every run, model on every run"""
        ctx = self.ctx
        found = []
        distinct = set()

        def visit(q, impl, err):
            ctx.count("cases:" + tag)
            f = self._mine(oracle(q, impl))
            order = actual_order(impl)
            key = tuple(visible(impl))
            new = key not in distinct
            distinct.add(key)
            if f:
                found.append(("oracle", q, f[0][0]))
                return True
            if new and ctx.model_ok and not (ctx.search_mode and self.deferred):
                mm = compare(impl, run_model(q, order))
                if mm:
                    self._diverged(exe, q, tag)
                    return False
            if new:
                ctx.record(Case(ENGINE, q.lines(), tag), [impl], True)
            else:
                ctx.evaluations += 1
            return False
        runs, exhausted = enumerate_schedules(exe, prog, bound, limit, visit, env=self.env)
        ctx.extra.setdefault("exhaustive_enumerations", []).append(
            {"program": prog.lines(with_schedule=False), "preemption_bound": bound, "runs": runs,
             "distinct_logs": len(distinct), "complete": bool(exhausted)})
        for what, q, info in found:
            if what == "oracle":
                self._report_oracle(exe, q, info, tag)
            else:
                self._report_mismatch(exe, q, tag)
        return runs, exhausted


def exhaustive_programs(which):
    """small programs whose schedules are enumerated completely under a preemption bound (thorough tier)"""
    out = []

    def prog(mode, tasks, pre, threads, dtors=None):
        p = Prog()
        p.mode, p.tasks, p.pre, p.threads = mode, tasks, pre, threads
        p.dtors = dtors or {}
        return p
    if which == "C04":
        # two submitters x two tasks against a loop that has work queued before loop()
        out.append(("2x2-submitters", prog("plain", {1: [], 2: [], 3: [], 4: [], 5: []}, ["q5"], {1: ["q1", "q2"], 2: ["q3", "q4"]}), 2))
        # foreign runInLoop + a functor that queues from inside the drain + an I/O handler that queues
        out.append(("nested-io", prog("plain", {1: ["q3"], 2: ["q4"], 3: [], 4: []}, ["q1"], {1: ["r3", "p2"]}), 2))
        # submission racing with quit: the final drain
        out.append(("queue-vs-quit", prog("plain", {1: [], 2: []}, ["q1"], {1: ["q2", "quit"]}), 3))
        # the final drain runs functors that queue again, a foreign thread queues while the loop is leaving
        out.append(("final-drain-requeue", prog("plain", {1: ["q2"], 2: ["q3"], 3: []}, ["q1"], {1: ["quit", "q3"]}), 3))
        # the functor object of task 1 dies after its batch and queues task 2 while a foreign thread queues task 3
        out.append(("dtor-queues", prog("plain", {1: [], 2: [], 3: []}, ["q1"], {1: ["q3"]}, {1: ["q2"]}), 2))
    else:
        out.append(("quit-vs-loop-entry", prog("plain", {1: []}, ["q1"], {1: ["quit"]}), 3))
        out.append(("two-quitters", prog("plain", {1: ["quit"]}, [], {1: ["quit"], 2: ["q1"]}), 2))
        out.append(("start-destroy", prog("elt", {1: []}, ["q1"], {0: ["startLoop", "destroy"]}), 3))
        sp = prog("elt", {1: []}, [], {0: ["startLoop", "q1", "destroy"]})
        sp.spurious = True     # startLoop()'s wait may be woken without a notification
        out.append(("start-use-destroy-spurious", sp, 2))
        out.append(("start-use-destroy", prog("elt", {1: []}, [], {0: ["startLoop", "q1", "destroy"]}), 2))
        out.append(("init-callback-quits", prog("elt", {1: ["quit"]}, ["q1"], {0: ["startLoop", "destroy"]}), 3))
        out.append(("selfquit-vs-destroy", prog("elt", {1: ["quit"]}, [], {0: ["startLoop", "p1", "destroy"]}), 3))
    return out


def burst_programs(rng, full):
    """C04: more functors pending at one swap than any batching bound the drain could have, with a late submission while
    the first of them run — global queueInLoop order must hold across whatever the drain does with a long batch.
    Directed (`follow`), no enumeration.  full=False: the two cheap ones of the quick tier."""
    out = []

    def prog(tasks, pre, threads, follow):
        p = Prog()
        p.mode, p.tasks, p.pre, p.threads, p.follow = "plain", tasks, pre, threads, follow
        return p
    # queued before loop(); functor 1 queues a late one when it runs
    out.append(("burst:pre-loop-1500", prog({1: ["q9000"]}, ["qburst1x1500"], {}, [0])))
    # a foreign thread queues the burst while the loop thread is held inside a drain (after functor 1 of the batch in
    # progress); functor 2, the first of the burst, queues the late one
    out.append(("burst:foreign-1500-loop-held", prog({1: [], 2: ["q9000"]}, ["q1"], {1: ["qburst2x1500"]}, [0] * 9 + [1])))
    if not full:
        return out
    out.append(("burst:pre-loop-5000", prog({1: ["q9000"]}, ["qburst1x5000"], {}, [0])))
    for n in (1023, 1024, 1025, 2047, 2049, 4096, 4097):
        out.append(("burst:boundary-%d" % n, prog({1: ["q9000"], 2: ["q9001"]}, ["qburst1x%d" % n], {}, [0])))
    # the burst is queued by a functor (inside the drain), its first functor queues the late one; then quit: final drain
    out.append(("burst:nested-1500", prog({1: ["qburst2x1500"], 2: ["q9000"]}, ["q1"], {1: ["quit"]}, [0] * 4000)))
    # foreign burst + quit while the loop is held: everything runs in the drain after the `while`
    out.append(("burst:foreign-5000-then-quit", prog({1: [], 2: ["q9000"]}, ["q1"], {1: ["qburst2x5000", "quit"]}, [0] * 9 + [1])))
    # the late submission comes from a foreign thread while the first functors of a pre-loop burst run
    out.append(("burst:late-foreign", prog({}, ["qburst1x1500"], {1: ["q9000", "q9001"]}, [0] * 3007 + [1, 1, 0, 0, 0, 1])))
    # two foreign bursts interleaved at random, one of their functors queues a late one
    out.append(("burst:two-submitters", prog({100: ["q9000"]}, [], {1: ["qburst100x800"], 2: ["qburst2000x800"]},
                                            gen_follow(rng, [0, 1, 2], 120))))
    return out


def search_programs(which):
    """targeted programs for the search mode (an obligation or a tie broke): every raw schedule within a small
    preemption bound, run right after the corpus.  They aim at the window the harness opens immediately before the
    eventfd read of handleRead() (`harness:beforeWakeread`, a switch point only a raw schedule can use): a foreign
    thread queues (and wakes) while the loop thread handles a wake-up, and a further foreign call arrives after the
    loop went back to poll — it must find the loop awake or wake it."""
    out = []

    def prog(tasks, pre, threads):
        p = Prog()
        p.mode, p.tasks, p.pre, p.threads = "plain", tasks, pre, threads
        return p
    if which == "C04":
        # T1 queues two functors inside the window (running T1 on costs nothing), T2 queues once the loop sleeps again
        out.append(("wake-window-two-submitters", prog({1: [], 2: [], 3: [], 4: []}, ["q1"], {1: ["q2", "q3"], 2: ["q4"]}), 1))
        # one submitter: its last call has to wait until the loop is back in poll (second preemption)
        out.append(("wake-window-one-submitter", prog({1: [], 2: [], 3: [], 4: []}, ["q1"], {1: ["q2", "q3", "q4"]}), 2))
        # the wake-up under way comes from the pipe handler / from a functor that queues inside the drain
        out.append(("wake-window-io-and-nested", prog({1: ["q3"], 2: [], 3: [], 4: []}, ["p1"], {1: ["q2", "r4"], 2: ["q2"]}), 2))
    else:
        # the late call is a quit(): it uses the same wakeup()
        out.append(("wake-window-then-quit", prog({1: [], 2: []}, ["q1"], {1: ["q2"], 2: ["quit"]}), 1))
        out.append(("wake-window-quit-one-thread", prog({1: [], 2: []}, ["q1"], {1: ["q2", "quit"]}), 2))
    return out


ASAN_ENV = {"ASAN_OPTIONS": "detect_stack_use_after_return=1:abort_on_error=0:exitcode=99:detect_leaks=0",
            "UBSAN_OPTIONS": "print_stacktrace=1"}


def correspondence(prop, ctx, replay_file, which):
    """the correspondence part of ./check C04 and ./check C05 (which = "C04" | "C05")"""
    kinds = C04_KINDS if which == "C04" else C05_KINDS
    exe = ctx.exe("loop_drv", "dbg")
    rn = Runner(prop, ctx, kinds)

    def quick():
        # search mode is entered before the run (an obligation or a tie broke) or on the way (model and implementation
        # diverged on a case the oracle accepts, Runner._diverged): from then on the counts are the thorough ones
        return ctx.quick() and not ctx.search_mode

    def searched():
        """search mode: the targeted wake-up-window programs, every raw schedule within their preemption bound, once,
        as soon as the mode is entered.  Returns ctx.stop()."""
        if ctx.search_mode and not rn.searched:
            rn.searched = True
            if which == "C04" and not rn.bursts_full:
                rn.bursts_full = True
                rn.run_progs(exe, burst_programs(ctx.rng, True), "search")
                if ctx.stop():
                    return True
            for name, p, bound in search_programs(which):
                rn.exhaustive(exe, p, bound, 4000, "search:" + name)
                if ctx.stop():
                    break
        return ctx.stop()
    try:
        if replay_file:
            engine, lines = read_case_file(replay_file)
            if engine == ENGINE:
                replay(prop, ctx, exe, lines, kinds)
                if which == "C05":
                    asan = ctx.exe("loop_drv", "asan")
                    rn.env = ASAN_ENV
                    rn.run_progs(asan, [("replay-asan", parse_case(lines))], "replay")
            return engine
        ctx.extra["flavours"] = ["dbg"]
        # 1. corpus: minimised past failures and the witnesses of the repaired defects, both properties' files
        rn.corpus(exe, ["C04", "C05"])
        if searched():
            return None
        # 2. directed families: a racing call after every number of steps of the loop thread; long batches (C04)
        sw = sweeps()
        rn.run_progs(exe, sw, "sweep")
        if searched():
            return None
        if which == "C04" and not rn.bursts_full:
            rn.bursts_full = not quick()
            rn.run_progs(exe, burst_programs(ctx.rng, not quick()), "burst")
            if searched():
                return None
        # 3. random programs and schedules
        done = 0
        while done < (700 if quick() else 30000) and not ctx.stop():
            items = []
            for j in range(min(256, (700 if quick() else 30000) - done)):
                i = done + j
                elt = (i % 4 == 0) if which == "C04" else (i % 2 == 0)
                p = gen_elt(ctx.rng) if elt else gen_plain(ctx.rng)
                if i % 3 == 0:
                    p.schedule = gen_schedule(ctx.rng)
                    p.spurious = elt and i % 2 == 0
                    tag = "random-schedule"
                else:
                    p.follow = gen_follow(ctx.rng, p.thread_ids())
                    tag = "random-follow"
                items.append((tag + (":elt" if elt else ":plain"), p))
            rn.run_progs(exe, items, "random")
            done += len(items)
            if searched():
                return None
        if ctx.stop():
            return None
        # 4. the use-after-free detector: the EventLoopThread families (C04, thorough: every family) again under
        #    ASan+UBSan with fake stacks
        if which == "C05" or not quick():
            ctx.extra["flavours"].append("asan+ubsan (detect_stack_use_after_return=1)")
            asan = ctx.exe("loop_drv", "asan")
            rn.env = ASAN_ENV
            items = [(t + ":asan", p) for t, p in sw if p.mode == "elt" or which == "C04"]
            for path in sorted(glob.glob(os.path.join(CORPUS, which, "*.case"))):
                engine, lines = read_case_file(path)
                if engine == ENGINE:
                    items.append(("corpus:asan", parse_case(lines)))
            m = 60 if quick() else 1500
            for i in range(m):
                p = gen_elt(ctx.rng) if which == "C05" or i % 3 == 0 else gen_plain(ctx.rng)
                if i % 3 == 0:
                    p.schedule = gen_schedule(ctx.rng)
                else:
                    p.follow = gen_follow(ctx.rng, p.thread_ids())
                items.append(("random:asan", p))
            for i in range(0, len(items), 256):
                rn.run_progs(asan, items[i:i + 256], "asan")
                if ctx.stop():
                    return None
            rn.env = None
            if searched():
                return None
        # 5. every schedule of a few small programs within a preemption bound
        if not quick():
            if not rn.searched:
                # thorough tier on a tree whose obligations hold and whose runs agree with the model: the wake-up-window
                # programs as well
                for name, p, bound in search_programs(which):
                    rn.exhaustive(exe, p, bound, 4000, "exhaustive:" + name)
                    if ctx.stop():
                        return None
            for name, p, bound in exhaustive_programs(which):
                # spurious wake-ups make the tree infinite (wake, re-test, wait again): a fixed number of runs there
                rn.exhaustive(exe, p, bound, 4000 if p.spurious else 40000, "exhaustive:" + name)
                if ctx.stop():
                    return None
        else:
            for name, p, bound in exhaustive_programs(which)[:2]:
                rn.exhaustive(exe, p, 1, 400, "exhaustive:" + name)
                if ctx.stop():
                    return None
            if searched():
                return None
    finally:
        rn.flush_deferred()
        rn.close()
    return None


def abbreviated(impl, fails, limit=400):
    """a long log for the terminal: its head, the lines around the oracle's first failure, its tail"""
    if len(impl) <= limit:
        return impl
    keep = set(range(0, 40)) | set(range(len(impl) - 25, len(impl)))
    m = re.match(r"line (\d+):", fails[0][1]) if fails else None
    if m:
        keep |= set(range(max(0, int(m.group(1)) - 25), min(len(impl), int(m.group(1)) + 10)))
    out, last = [], -1
    for i in sorted(keep):
        if i != last + 1:
            out.append("   … %d lines …" % (i - last - 1))
        out.append(impl[i])
        last = i
    return out


def replay(prop, ctx, exe, lines, kinds):
    prog = parse_case(lines)
    r = evaluate(exe, prog, ctx.model_ok)
    print("\n".join(abbreviated(r.impl, r.fails)))
    print("oracle: %s" % (r.fails or "accepts"))
    print("model : %s" % (r.mismatch or "agrees"))
    rn = Runner(prop, ctx, kinds)
    rn.run_progs(exe, [("replay", prog)], "replay")
    rn.close()
