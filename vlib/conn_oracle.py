"""Trace oracles for the `conn` engine (C01, C02, C03, C13, C11).

Everything here is evaluated on what the IMPLEMENTATION printed (harness/conn_drv.cc): callbacks, the bytes the
independent raw peer received (`# peer +hex`), the system-call results the interposer recorded or injected
(`< write`, `< readv`, `< poll`), what `connected()` said when each user operation was made (`# act`), the
`st` line.  Nothing here looks at the Lean model's output.
"""
from .conn_common import parse_bytes

POLLIN, POLLPRI, POLLOUT, POLLERR, POLLHUP, POLLNVAL, POLLRDHUP = 1, 2, 4, 8, 16, 32, 0x2000
FATAL = ("EPIPE", "ECONNRESET")


class Act:
    def __init__(self, step, who, flag, name, args):
        self.step, self.who, self.flag, self.name, self.args = step, who, flag, name, args

    @property
    def hook(self):
        return self.who.startswith("hook:")


class Obs:
    """chronological view of one run"""

    def __init__(self, lines, blocks):
        self.ops = [l for l in lines if l.strip()]
        self.blocks = blocks
        self.n = min(len(self.ops), len(blocks))
        self.cfg = (True, True, 64 << 20)
        self.acts = []
        self.st = []
        self.received = []       # cumulative bytes the peer has after each step
        self.crash = None
        got = bytearray()
        for i in range(len(blocks)):
            st = None
            for l in blocks[i]:
                if l.startswith("<<"):
                    self.crash = (i, l)
                elif l.startswith("# act "):
                    w = l.split()
                    self.acts.append(Act(i, w[2], w[3] == "1", w[4], w[5:]))
                elif l.startswith("# peer +"):
                    got += bytes.fromhex(l[8:])
                elif l.startswith("st "):
                    st = dict(kv.split("=", 1) for kv in l.split()[1:])
            self.st.append(st)
            self.received.append(bytes(got))
        for op in self.ops:
            w = op.split()
            if w[0] == "config":
                self.cfg = (w[1] == "1", w[2] == "1", int(w[3]))

    def events(self, i):
        return [l for l in self.blocks[i] if not l.startswith("#") and not l.startswith("<") and not l.startswith("st ")]

    def env(self, i, kind):
        return [l.split() for l in self.blocks[i] if l.startswith("< " + kind)]

    def step_of_first(self, pred):
        for i in range(len(self.blocks)):
            if any(pred(l) for l in self.blocks[i]):
                return i
        return None

    def iters_after(self, step):
        return sum(1 for i in range(step + 1, self.n) if self.ops[i] == "iter")


def injected_fatal(o):
    return any(tok in FATAL for op in o.ops if op.startswith("script write") for tok in op.split()[2:])


def cut_step(o):
    """first step at which something legitimately cuts the outgoing stream short: a forced close (any kind), the
    peer closing or half-closing (muduo treats read()==0 as close), the owner destroying the connection, a fatal
    write error, an abort.  Returns (step, reason) or (None, None)."""
    best = (None, None)

    def take(s, why):
        nonlocal best
        if best[0] is None or s < best[0]:
            best = (s, why)
    for a in o.acts:
        if a.name in ("forceClose", "forceCloseDelay"):
            take(a.step, a.name)
    for i in range(o.n):
        op = o.ops[i].split()[0]
        if op in ("peerClose", "peerShutWr", "ownerDestroy", "peerReset"):
            take(i, op)
        if injected_fatal(o):
            for w in o.env(i, "write"):
                if w[3] in FATAL:
                    take(i, "injected fatal write error " + w[3])
        if any(l.startswith("abort ") or l.startswith("uaf ") for l in o.blocks[i]):
            take(i, "abort")
    return best


def classify_sends(o):
    """(L, F, late): blocks send() must deliver, per calling thread in call order (loop thread incl. callbacks /
    other threads), and the ones it must discard.  A send counts iff connected() was true when it was made AND no
    shutdown()/forceClose()/forceCloseWithDelay() had been called before it (the oracle's own gate: it does not
    trust the state word alone)."""
    L, F, late = [], [], []
    gate_closed_at = None
    for a in o.acts:
        if a.name in ("shutdown", "forceClose", "forceCloseDelay") and gate_closed_at is None and a.flag:
            gate_closed_at = (a.step, a)
        if a.name == "send":
            data = parse_bytes(a.args[0])
            ok = a.flag and (gate_closed_at is None)
            if ok:
                (F if a.who == "F" else L).append((a, data))
            else:
                late.append((a, data))
    return L, F, late


def match_merge(R, L, F):
    """is R a prefix of some interleaving of the blocks of L and of F that keeps each list's order, every block
    whole and contiguous?  Returns (ok, furthest offset explained)."""
    import sys
    sys.setrecursionlimit(10000)
    nL, nF = len(L), len(F)
    seen = set()
    best = [0]

    def go(i, j, off):
        if off >= len(R):
            return True
        if (i, j) in seen:
            return False
        seen.add((i, j))
        best[0] = max(best[0], off)
        for (lst, k, nxt) in ((L, i, (i + 1, j)), (F, j, (i, j + 1))):
            if k < len(lst):
                d = lst[k]
                m = min(len(d), len(R) - off)
                if R[off:off + m] == d[:m]:
                    if go(nxt[0], nxt[1], off + len(d)):
                        return True
        return False
    ok = go(0, 0, 0)
    return ok, best[0]


def stream_oracle(o, check_fin=True):
    """C01 (send direction) and C03 (FIN after data, late sends discarded)"""
    fails = []
    L, F, late = classify_sends(o)
    R = o.received[-1] if o.received else b""
    Ld, Fd = [d for _, d in L], [d for _, d in F]
    if injected_fatal(o):
        # an injected EPIPE/ECONNRESET makes the code drop that block (the real kernel would have reset the
        # connection); what follows is no longer a stream the property speaks about.  A fatal error the harness did
        # NOT inject (e.g. EPIPE because the code half-closed before writing) is the code's own doing and is judged.
        return fails
    ok, off = match_merge(R, Ld, Fd)
    if not ok:
        # is it explained when the late blocks are let in?  then name the late send
        ok2, _ = match_merge(R, Ld + [d for a, d in late if a.who != "F"], Fd + [d for a, d in late if a.who == "F"])
        if late and ok2:
            fails.append(("late-send-delivered", "the peer received a block that was passed to send() after shutdown()/forceClose() "
                          "or while connected() was false (first unexplained byte at offset %d)" % off))
        else:
            fails.append(("stream-corrupt", "the %d bytes the peer received are not an order-preserving, contiguous, duplicate-free "
                          "merge of the blocks accepted per thread (first unexplained byte at offset %d)" % (len(R), off)))
        return fails
    cut, why = cut_step(o)
    total = sum(len(d) for d in Ld + Fd)
    last = o.n - 1
    st = o.st[last] if last >= 0 else None
    # completeness at the end: nothing cut the stream, the loop ran twice after the last operation
    last_act = max([a.step for a in o.acts] + [0])
    if cut is None and st and st.get("state") in ("C", "X") and o.iters_after(last_act) >= 2 and not o.crash:
        backlog = int(st["backlog"])
        if len(R) + backlog != total:
            fails.append(("stream-incomplete", "accepted %d bytes, the peer has %d and %d are buffered after two idle iterations"
                          % (total, len(R), backlog)))
    if check_fin:
        fin = o.step_of_first(lambda l: l.startswith("st ") and " fin=1" in l)
        shut = next((a for a in o.acts if a.name == "shutdown" and a.flag), None)
        if fin is not None and (cut is None or fin < cut):
            if shut is None or shut.step > fin:
                fails.append(("fin-without-shutdown", "the peer saw end-of-stream at step %d although nothing closed or shut down the connection" % fin))
            elif len(o.received[fin]) != total:
                fails.append(("fin-before-data", "the peer saw end-of-stream at step %d after %d of the %d bytes accepted before shutdown()"
                              % (fin, len(o.received[fin]), total)))
        if shut is not None and cut is None and fin is None and st and st.get("state") == "X" and int(st["backlog"]) == 0 \
                and o.iters_after(shut.step) >= 3 and not o.crash:
            fails.append(("fin-missing", "shutdown() at step %d, backlog empty, three iterations later the peer has not seen end-of-stream" % shut.step))
    return fails


def updown_oracle(o, allow_abort=False):
    """C02: UP MSG* DOWN, once each; destroyed after DOWN; descriptor closed once"""
    fails = []
    ev = [(i, l) for i in range(len(o.blocks)) for l in o.events(i)]
    ups = [k for k, (i, l) in enumerate(ev) if l == "cb UP"]
    downs = [k for k, (i, l) in enumerate(ev) if l == "cb DOWN"]
    msgs = [k for k, (i, l) in enumerate(ev) if l.startswith("cb MSG")]
    closes = [k for k, (i, l) in enumerate(ev) if l == "sys close"]
    dests = [k for k, (i, l) in enumerate(ev) if l == "destroyed"]
    aborts = [(i, l) for i, l in ev if l.startswith("abort ") or l.startswith("uaf ")]
    if aborts and not allow_abort:
        # `uaf ..`: the library called into a destroyed object / handed an empty pointer to the user's callback
        kind = "uaf" if aborts[0][1].startswith("uaf ") else "abort"
        fails.append((kind, "step %d `%s`: %s" % (aborts[0][0], o.ops[aborts[0][0]], aborts[0][1])))
    if len(ups) > 1:
        fails.append(("double-up", "connection callback ran %d times with connected()==true" % len(ups)))
    if len(downs) > 1:
        fails.append(("double-down", "connection callback ran %d times with connected()==false" % len(downs)))
    if downs and not ups:
        fails.append(("down-without-up", "DOWN without UP"))
    if ups and msgs and msgs[0] < ups[0]:
        fails.append(("msg-before-up", "message callback before UP"))
    if downs and msgs and msgs[-1] > downs[0]:
        fails.append(("msg-after-down", "message callback after DOWN"))
    if len(closes) > 1:
        fails.append(("double-close", "descriptor closed %d times" % len(closes)))
    if closes and downs and closes[0] < downs[0]:
        fails.append(("close-before-down", "descriptor closed before DOWN"))
    if closes and ups and not downs:
        fails.append(("close-without-down", "destroyed without DOWN"))
    if dests and ups and not downs:
        fails.append(("destroyed-without-down", "object destroyed without DOWN"))
    if downs and not aborts:
        dstep = ev[downs[0]][0]
        if o.iters_after(dstep) >= 3 and not dests:
            fails.append(("leak", "DOWN at step %d, three iterations later the connection object is still alive" % dstep))
        if dests and not closes:
            fails.append(("fd-leak", "object destroyed but its descriptor was not closed"))
    # the peer closed (read returned 0): DOWN in that very iteration
    for i in range(o.n):
        if any(r[2] == "0" for r in o.env(i, "readv")) and not aborts:
            if not any(ev[k][0] <= i for k in downs):
                fails.append(("eof-no-down", "step %d: read() returned 0 (the peer closed) but DOWN was not reported" % i))
                break
    # forced close: DOWN within two iterations
    for a in o.acts:
        if a.name == "forceClose" and not aborts:
            before = any(ev[k][0] < a.step for k in downs)
            if not before and a.step <= len(o.st) - 1:
                prev = o.st[a.step - 1] if a.step > 0 else None
                if prev and prev.get("state") in ("C", "X") and ups and o.iters_after(a.step) >= 2 and not downs:
                    fails.append(("force-no-down", "forceClose() at step %d, two iterations later no DOWN" % a.step))
    return fails


def _res(tok):
    try:
        return int(tok)
    except ValueError:
        return tok


def _cb(l):
    """('WC', id) / ('HWM', id, n) for a callback line of the harness, else None"""
    w = l.split()
    if len(w) >= 3 and w[0] == "cb" and w[1] == "WC":
        return ("WC", int(w[2]))
    if len(w) >= 4 and w[0] == "cb" and w[1] == "HWM":
        return ("HWM", int(w[2]), int(w[3]))
    return None


def callback_oracle(o):
    """C13.  The harness's callbacks carry an identity (`cb WC <id>`, `cb HWM <id> <n>`; `setwc <id>` / `sethwm <id>
    <mark>` install callback <id>, 0 = none; `config` installs 1 or none).
    On every history: neither callback ever runs inside a user operation - only while the loop iterates (they are
    delivered out of the functor queue); write-complete callbacks never outnumber accepted sends; a callback that
    runs was installed before; every HWM argument is at least the smallest positive mark in force so far.
    For the part of a history before the first operation performed inside a callback: an exact replay of the backlog
    from the recorded acceptance pattern, predicting every WC / HWM callback, WHICH callback it is (the one
    installed when the notification was scheduled), its argument and the iteration that delivers it."""
    fails = []
    hasWC, hasHWM, mark = o.cfg
    L, F, late = classify_sends(o)
    nsend = len(L) + len(F)
    wcs = sum(1 for i in range(len(o.blocks)) for l in o.events(i) if l.startswith("cb WC"))
    if wcs > nsend:
        fails.append(("wc-without-send", "%d write-complete callbacks for %d accepted send()s" % (wcs, nsend)))
    # chronological pass: installed identities / marks so far
    wc_ids, hwm_ids, marks = set([1] if hasWC else []), set([1] if hasHWM else []), set([mark] if hasHWM else [])
    gone = None
    for i in range(len(o.blocks)):
        isiter = i < o.n and o.ops[i] == "iter"
        for l in o.blocks[i]:
            if l == "destroyed" and gone is None:
                gone = i
            if gone is not None and (l.startswith("cb WC") or l.startswith("cb HWM")) and not fails:
                fails.append(("callback-after-destroy", "step %d: `%s` although the connection object was destroyed at step %d: a notification "
                              "still queued when the connection goes away must do nothing" % (i, l, gone)))
            if l.startswith("# act "):
                w = l.split()
                if w[4] == "setwc" and int(w[5]):
                    wc_ids.add(int(w[5]))
                if w[4] == "sethwm" and int(w[5]):
                    hwm_ids.add(int(w[5]))
                    marks.add(int(w[6]))
                continue
            c = _cb(l) if l.startswith("cb ") else None
            if c is None:
                continue
            if not isiter and not fails:
                fails.append(("callback-inline", "step %d `%s`: the %s callback ran inside the user's call; it must be delivered by the "
                              "loop out of its functor queue, after the call has returned" % (i, o.ops[i] if i < o.n else "?", "write-complete" if c[0] == "WC" else "high-water-mark")))
            if c[0] == "WC" and c[1] not in wc_ids:
                fails.append(("wc-unset", "step %d: write-complete callback %d invoked although it was never installed" % (i, c[1])))
            if c[0] == "HWM":
                pos = [m for m in marks if m > 0]
                if c[1] not in hwm_ids or not pos or c[2] < min(pos):
                    fails.append(("hwm-below-mark", "step %d: high-water callback %d with %d; marks in force so far: %s" % (i, c[1], c[2], sorted(marks))))
    if fails:
        return fails
    # ---- exact replay
    b = 0
    st = "N"
    wc_id, hwm_id = (1 if hasWC else 0), (1 if hasHWM else 0)
    fq = []   # functor queue as far as it matters: ("send", len) | ("WC", id) | ("HWM", id, n)

    def cross(old, rem):
        if rem > 0 and hwm_id and old < mark <= old + rem:
            fq.append(("HWM", hwm_id, old + rem))

    class Bad(Exception):
        pass

    def do_send(n, writes):
        nonlocal b
        if st == "D":
            return
        if b == 0:
            if not writes:
                raise Bad("a send of %d bytes on an empty backlog made no write() call" % n)
            w = writes.pop(0)
            if int(w[2]) != n:
                raise Bad("direct write asked for %s bytes, the block has %d" % (w[2], n))
            r = _res(w[3])
            if isinstance(r, int):
                rem = n - min(r, n)
                if rem == 0:
                    if wc_id:
                        fq.append(("WC", wc_id))
                else:
                    cross(0, rem)
                    b = rem
            elif r in FATAL:
                pass
            else:
                cross(0, n)
                b = n
        else:
            cross(b, n)
            b += n
    for i in range(o.n):
        op = o.ops[i].split()
        lines = o.blocks[i]
        if any(l == "destroyed" for l in lines) or op[0] == "ownerDestroy":
            return fails
        if any(l.startswith("# act hook:") for l in lines):
            return fails      # from here on the user's code acts inside callbacks: only the clauses above are judged
        writes = o.env(i, "write")
        obs = [c for c in (_cb(l) for l in o.events(i) if l.startswith("cb ")) if c]
        exp = []
        try:
            if op[0] == "establish":
                st = "C"
            elif op[0] == "act":
                a = next((x for x in o.acts if x.step == i), None)
                if a is None:
                    return fails
                if a.name == "send" and st == "C":
                    n = len(parse_bytes(a.args[0]))
                    if not a.flag:
                        raise Bad("connected() was false for a send() on a connection that is up and was never shut down")
                    if a.who == "F":
                        fq.append(("send", n))
                    else:
                        do_send(n, writes)
                elif a.name == "shutdown" and st == "C":
                    st = "X"
                elif a.name in ("forceClose", "forceCloseDelay") and st in ("C", "X"):
                    st = "X"
                elif a.name == "setwc":
                    wc_id = int(a.args[0])
                elif a.name == "sethwm":
                    hwm_id, mark = int(a.args[0]), int(a.args[1])
            elif op[0] == "iter":
                rev = 0
                for p in o.env(i, "poll"):
                    for t in p[2:]:
                        if t.startswith("conn:"):
                            rev = int(t[5:])
                reads = o.env(i, "readv")
                down_dispatch = any(r[2] == "0" for r in reads) or ((rev & POLLHUP) and not (rev & POLLIN))
                has_down = any(l == "cb DOWN" for l in lines)
                if has_down and down_dispatch:
                    st = "D"
                if (rev & POLLOUT) and b > 0 and st != "D":
                    if not writes:
                        raise Bad("writable with a backlog of %d, but handleWrite made no write() call" % b)
                    w = writes.pop(0)
                    if int(w[2]) != b:
                        raise Bad("handleWrite asked for %s bytes, the backlog is %d" % (w[2], b))
                    r = _res(w[3])
                    if isinstance(r, int) and r > 0:
                        b -= min(r, b)
                        if b == 0 and wc_id:
                            fq.append(("WC", wc_id))
                n0 = len(fq)
                batch, rest = fq[:n0], fq[n0:]
                del fq[:]
                for it in batch:
                    if it[0] == "send":
                        do_send(it[1], writes)
                    else:
                        exp.append(it)
                if has_down:
                    st = "D"
            if writes:
                raise Bad("a write() call the backlog bookkeeping cannot explain: %s" % " ".join(writes[0]))
            if exp != obs:
                def show(cs):
                    return "[" + ", ".join("WC#%d" % c[1] if c[0] == "WC" else "HWM#%d(%d)" % (c[1], c[2]) for c in cs) + "]"
                if [(c[0],) + c[2:] for c in exp] == [(c[0],) + c[2:] for c in obs]:
                    fails.append(("callback-identity", "step %d `%s`: the callback delivered is not the one that was installed when the "
                                  "notification was scheduled: expected %s, the implementation ran %s" % (i, o.ops[i], show(exp), show(obs))))
                    return fails
                raise Bad("expected callbacks %s, the implementation ran %s" % (show(exp), show(obs)))
            s = o.st[i]
            if s and s.get("state") in ("C", "X", "D") and st != "D" and int(s["backlog"]) != b:
                raise Bad("backlog is %s, the acceptance pattern implies %d" % (s["backlog"], b))
        except Bad as ex:
            fails.append(("callback-mismatch", "step %d `%s`: %s" % (i, o.ops[i], ex)))
            return fails
    return fails


def read_oracle(o):
    """C01 receive direction: the message callback is shown, in order, exactly the bytes the peer wrote (hash of the
    readable bytes is compared with the hash of the expected window)"""
    from .conn_common import FNV0, fnv_update
    fails = []
    retrieve = 1 << 40
    sent = bytearray()      # everything the peer wrote (as far as the kernel took it)
    consumed = 0            # bytes retrieved by the callback so far
    delivered = 0           # bytes appended to the input buffer so far
    for i in range(o.n):
        w = o.ops[i].split()
        if w[0] == "setRetrieve":
            retrieve = int(w[1])
        if w[0] == "peerWrite":
            pw = o.env(i, "peerWrote")
            k = int(pw[0][2]) if pw else 0
            sent += parse_bytes(w[1])[:k]
        reads = [r for r in o.env(i, "readv")]
        msgs = [l.split() for l in o.events(i) if l.startswith("cb MSG")]
        got = [int(r[2]) for r in reads if r[2].isdigit() and int(r[2]) > 0]
        if len(msgs) != len(got):
            fails.append(("msg-count", "step %d: %d successful reads, %d message callbacks" % (i, len(got), len(msgs))))
            return fails
        for n, m in zip(got, msgs):
            delivered += n
            if delivered > len(sent):
                fails.append(("read-more-than-written", "step %d: %d bytes delivered, the peer wrote %d" % (i, delivered, len(sent))))
                return fails
            window = bytes(sent[consumed:delivered])
            if int(m[2]) != len(window) or int(m[3]) != fnv_update(FNV0, window):
                fails.append(("msg-content", "step %d: message callback saw %s bytes (hash %s); expected the %d bytes from offset %d "
                              "of what the peer wrote" % (i, m[2], m[3], len(window), consumed)))
                return fails
            consumed += min(retrieve, len(window))
    return fails


def pause_oracle(o):
    """C01 "across pausing and resuming reading": an independent replay of the pause/resume requests.  A request made
    on the loop thread takes effect at once, one made on another thread when the loop runs its functors in the next
    iteration, in call order (FIFO).  Whenever, at the poll of an iteration, the connection is up, the replay says it
    is reading and bytes the peer wrote are still waiting in the kernel, that iteration must read (a `readv` call).
    Judged up to the first pause/resume request made inside a callback (their place relative to the functor phase is
    not visible in the trace), the first close/destruction, or a poll that was interrupted."""
    fails = []
    reading, up = True, False
    fq = []                  # requests of other threads, not yet processed by the loop
    wrote = got = 0
    for i in range(o.n):
        op = o.ops[i].split()
        lines = o.blocks[i]
        if any(l.startswith("# act hook:") and l.split()[4] in ("stopRead", "startRead") for l in lines):
            return fails
        if any(l in ("cb DOWN", "destroyed") or l.startswith("abort ") or l.startswith("uaf ") or l.startswith("<<") for l in lines) \
                or op[0] in ("ownerDestroy", "peerClose", "peerShutWr"):
            return fails
        for pw in o.env(i, "peerWrote"):
            wrote += int(pw[2])
        if op[0] == "establish":
            up = True
        elif op[0] == "act":
            a = next((x for x in o.acts if x.step == i and not x.hook), None)
            if a is not None and a.name in ("stopRead", "startRead"):
                if a.who == "F":
                    fq.append(a.name)
                elif up:                 # (a request on a connection that is not up does nothing)
                    reading = a.name == "startRead"
        elif op[0] == "iter":
            reads = o.env(i, "readv")
            interrupted = any(l.startswith("# poll EINTR") for l in lines) or not o.env(i, "poll")
            if up and reading and wrote > got and not reads and not interrupted:
                fails.append(("read-stalled", "step %d `iter`: the connection is up, the last pause/resume request processed was "
                              "startRead() (or none), %d bytes written by the peer are waiting, but this iteration made no read: read "
                              "interest is off although the application resumed reading" % (i, wrote - got)))
                return fails
            for r in reads:
                if r[2].isdigit():
                    got += int(r[2])
            for name in fq:              # the functor phase of this iteration
                if up:
                    reading = name == "startRead"
            del fq[:]
    return fails


def spin_oracle(o):
    """C11: the loop makes exactly one iteration per `iter` step (the harness wakes it once per step): a loop that
    spins or exits shows as a different iteration() count"""
    fails = []
    its = []
    for i in range(len(o.blocks)):
        for l in o.blocks[i]:
            if l.startswith("# it "):
                its.append((i, int(l.split()[2])))
    expect = 0
    for i, n in its:
        if i < o.n and o.ops[i] == "iter":
            expect += 1
        if n != expect:
            fails.append(("iteration-count", "step %d: EventLoop::iteration() is %d after %d `iter` steps" % (i, n, expect)))
            break
    return fails
