"""Shared statement-skeleton walker of vlib/gen/logfileskel.py and vlib/gen/logstreamskel.py (C16 / C17).

One function body (clang JSON AST) -> a tree

    Skel ::= act Act | ite <guard name | printed condition> <then> <else> | loop <whileDo | doWhile> <guard> <body>

in source order.  Every expression is printed canonically (casts, temporaries and smart-pointer dereferences dropped,
minimal parentheses by C precedence, `this->` dropped, `muduo::` dropped from type names).  Calls are classified by
the TYPE of the object they are made on (`Engine.methods`) or, for free functions, by name:

  value    printed inside the expression that uses it, never an action (getters, pure library functions)
  call     an action: another function of the engine / a call through a function pointer / a mutating method
  sys      an action: a libc / system call (the boundary the harness interposes or scripts)

Anything that is not classified stops the extraction (ExtractError): a call is never dropped silently.  An action call
may only occur at statement level, as the whole initialiser of a local, as the whole right-hand side of an assignment
or as the whole operand of `return` (`<result>` then stands for its value in the store that follows).
"""
from .extract import ExtractError, body_of, ctype, kids, walk

PEEL_KINDS = ("ParenExpr", "ExprWithCleanups", "MaterializeTemporaryExpr", "CXXBindTemporaryExpr", "ConstantExpr",
              "ImplicitCastExpr", "CStyleCastExpr", "CXXStaticCastExpr", "CXXReinterpretCastExpr", "CXXConstCastExpr")
CALL_KINDS = ("CXXMemberCallExpr", "CallExpr", "CXXOperatorCallExpr")
CTOR_KINDS = ("CXXConstructExpr", "CXXTemporaryObjectExpr")
FN_KINDS = ("CXXMethodDecl", "FunctionDecl", "CXXConstructorDecl", "CXXDestructorDecl")
CAST_FREE = ("implicit_cast", "down_cast")

# C precedence (larger binds tighter)
PREC = {"*": 13, "/": 13, "%": 13, "+": 12, "-": 12, "<<": 11, ">>": 11, "<": 9, "<=": 9, ">": 9, ">=": 9,
        "==": 8, "!=": 8, "&": 7, "^": 6, "|": 5, "&&": 4, "||": 3}
P_ATOM, P_UNARY, P_COND = 16, 15, 2


def lean_str(s):
    return '"' + s.replace("\\", "\\\\").replace('"', '\\"').replace("\n", "\\n") + '"'


def peel_plain(n):
    while n.get("kind") in PEEL_KINDS and kids(n):
        n = kids(n)[0]
    return n


def callee_name(n):
    ks = kids(n)
    if not ks:
        return None
    c = peel_plain(ks[0])
    if c.get("kind") == "MemberExpr":
        return c.get("name")
    if c.get("kind") == "DeclRefExpr":
        return c.get("referencedDecl", {}).get("name")
    return None


def callee_decl_kind(n):
    c = peel_plain(kids(n)[0]) if kids(n) else {}
    return c.get("referencedDecl", {}).get("kind") if c.get("kind") == "DeclRefExpr" else None


def is_void_cast(n):
    return n.get("kind") in ("CStyleCastExpr", "CXXFunctionalCastExpr", "CXXStaticCastExpr") and n.get("castKind") == "ToVoid"


def peel(n):
    """skip parentheses, temporaries and every cast"""
    while True:
        k = n.get("kind")
        if is_void_cast(n):
            return n
        if k in PEEL_KINDS and kids(n):
            n = kids(n)[0]
        elif k == "CXXFunctionalCastExpr" and kids(n) and n.get("castKind") != "ConstructorConversion":
            n = kids(n)[0]
        elif k == "CallExpr" and callee_name(n) in CAST_FREE and len(kids(n)) == 2:
            n = kids(n)[1]
        elif k == "UnaryOperator" and n.get("opcode") == "__extension__":
            n = kids(n)[0]
        else:
            return n


def type_name(t):
    """`const muduo::FileUtil::AppendFile &` -> `FileUtil::AppendFile`"""
    t = t.replace("const ", "").replace("struct ", "").replace("class ", "").replace("muduo::", "").strip()
    while t.endswith("&") or t.endswith("*") or t.endswith("const"):
        t = t[:-5].strip() if t.endswith("const") else t[:-1].strip()
    return t


def type_class(t):
    """the key of `Engine.methods` for a type as clang prints it"""
    t = type_name(t)
    if t.startswith("std::unique_ptr<") or t.startswith("unique_ptr<"):
        return "unique_ptr"
    if t in ("std::string", "string", "std::basic_string<char>") or t.startswith("std::basic_string<"):
        return "string"
    if t.startswith("detail::FixedBuffer<") or t.startswith("FixedBuffer<") or t in ("LogStream::Buffer", "Buffer"):
        return "FixedBuffer"
    if t.startswith("std::atomic<") or t.startswith("atomic<"):
        return "atomic"
    return t.split("::")[-1]


def type_name_keep(t):
    """`const muduo::StringPiece &` -> `const StringPiece &` (qualifiers kept: names an overload)"""
    return t.replace("muduo::", "").replace("LogStream::Buffer", "Buffer").strip()


def pointee_class(t):
    """`std::unique_ptr<FileUtil::AppendFile>` -> `AppendFile`"""
    t = type_name(t)
    if "<" in t and t.endswith(">"):
        return type_class(t[t.index("<") + 1:-1])
    return type_class(t)


def is_assert(n):
    n = peel_plain(n)
    return n.get("kind") == "ConditionalOperator" and any(
        x.get("referencedDecl", {}).get("name") in ("__assert_fail", "__assert_perror_fail") for x in walk(n))


class Engine:
    """what the calls of one engine mean"""
    methods = {}          # type class -> {"value": (..), "call": (..)}
    free_value = ()       # pure free functions / static member functions
    free_call = ()        # free functions of the engine, function-pointer variables
    free_sys = ()         # libc
    diag_streams = ()     # `fprintf(<stream>, ..)` to one of these is a diagnostic (ignored class I1)
    diag_pure = ()        # the only calls allowed inside such a diagnostic
    lock_types = ()       # RAII guards: `T guard(m)` is the action `lock m`
    storage_types = ()    # objects whose default construction is storage only (`struct tm tm`, `struct DateTime dt`)
    object_types = ()     # objects whose construction from arguments is a store of `T(args)` (a value, e.g. `Fmt`)


class Walker:
    """one function -> list of Skel (nested Python tuples)"""

    def __init__(self, engine, owner, fname, sites, fallback=None):
        """sites: clang node id of a condition -> name of the guard the engine's own generator made from it;
        fallback: printed condition -> guard name, consulted only for names that generator did not register"""
        self.e, self.owner, self.fname, self.sites, self.fallback = engine, owner, fname, sites, fallback or {}

    def err(self, msg):
        raise ExtractError("%s%s: %s" % (self.owner + "::" if self.owner else "", self.fname, msg))

    # ------------------------------------------------------------------ receivers
    def deref(self, n):
        """(object expression, was dereferenced through a smart pointer) of `p->` / `*p`"""
        n = peel(n)
        if n.get("kind") == "CXXOperatorCallExpr" and callee_name(n) in ("operator->", "operator*") and len(kids(n)) == 2:
            return peel(kids(n)[1]), True
        return n, False

    def receiver_class(self, base):
        obj, smart = self.deref(base)
        if obj.get("kind") == "CXXThisExpr":
            return self.owner, obj
        t = ctype(obj)
        return (pointee_class(t) if smart else type_class(t)), obj

    # ------------------------------------------------------------------ what a call is
    def classify(self, n):
        """('value' | 'cast' | 'call' | 'sys', printable function name) of a call node; unknown -> ExtractError"""
        k = n.get("kind")
        nm = callee_name(n)
        if k == "CXXMemberCallExpr":
            callee = peel_plain(kids(n)[0])
            if callee.get("kind") != "MemberExpr":
                self.err("call through %s" % callee.get("kind"))
            if nm.startswith("operator ") and len(kids(n)) == 1:
                return "conv", None                                     # conversion operator: the object itself
            base = kids(callee)[0] if kids(callee) else {"kind": "CXXThisExpr"}
            cls, obj = self.receiver_class(base)
            tab = self.e.methods.get(cls)
            if obj.get("kind") == "CXXThisExpr":
                if tab is not None and nm in tab.get("value", ()):
                    return "value", nm
                if nm.startswith("operator"):                           # an overloaded operator: say which one
                    sig = self.signatures.get(callee.get("referencedMemberDecl"))
                    if sig is None:
                        self.err("cannot tell which overload of `%s` is called" % nm)
                    return "call", "%s(%s)" % (nm, ", ".join(type_name_keep(t) for t in sig))
                return "call", nm                                       # another member function of the same class
            if tab is None:
                self.err("call of `%s` on `%s`: objects of type %s are not in the vocabulary" % (nm, self.pp(obj), cls))
            if nm in tab.get("value", ()):
                return "value", None
            if nm in tab.get("call", ()):
                return "call", self.pp(obj, P_ATOM) + "." + nm
            self.err("call of `%s` on `%s` (a %s) is not in the vocabulary" % (nm, self.pp(obj), cls))
        if k == "CallExpr":
            if nm is None:
                self.err("indirect call that cannot be named")
            if nm in CAST_FREE and len(kids(n)) == 2:
                return "cast", None
            if nm in self.e.free_value:
                return "value", nm
            if nm in self.e.free_call:
                return "call", nm
            if nm in self.e.free_sys:
                return "sys", nm
            self.err("call of free function `%s` is not in the vocabulary" % nm)
        if k == "CXXOperatorCallExpr":
            if nm in ("operator->", "operator*") and len(kids(n)) == 2:
                return "conv", None
            self.err("operator call `%s` is not in the vocabulary here" % nm)
        self.err("unexpected call node %s" % k)

    def args(self, args):
        return ", ".join(self.pp(a) for a in args if a.get("kind") != "CXXDefaultArgExpr")

    # ------------------------------------------------------------------ canonical printing (values only)
    def pp(self, n, ctx=0):
        s, p = self.pp_(n)
        return s if p >= ctx else "(" + s + ")"

    def pp_(self, n):
        """(text, precedence); raises on an action call, an assignment, a lambda"""
        n = peel(n)
        k = n.get("kind")
        if is_void_cast(n):
            return self.pp_(kids(n)[0])
        if k == "IntegerLiteral":
            return str(int(n["value"])), P_ATOM
        if k == "FloatingLiteral":
            return str(n["value"]), P_ATOM
        if k == "CharacterLiteral":
            v = int(n["value"])
            return ("'%s'" % chr(v) if 32 <= v < 127 and chr(v) not in "'\\" else "char(%d)" % v), P_ATOM
        if k == "CXXBoolLiteralExpr":
            return ("true" if n["value"] else "false"), P_ATOM
        if k in ("CXXNullPtrLiteralExpr", "GNUNullExpr"):
            return "NULL", P_ATOM
        if k == "StringLiteral":
            return n["value"], P_ATOM
        if k == "CXXThisExpr":
            return "this", P_ATOM
        if k == "DeclRefExpr":
            return n["referencedDecl"]["name"], P_ATOM
        if k == "MemberExpr":
            if not kids(n) or peel_plain(kids(n)[0]).get("kind") == "CXXThisExpr":
                return n["name"], P_ATOM
            obj, _ = self.deref(kids(n)[0])
            return self.pp(obj, P_ATOM) + "." + n["name"], P_ATOM
        if k == "ArraySubscriptExpr":
            a, i = kids(n)
            return "%s[%s]" % (self.pp(a, P_ATOM), self.pp(i)), P_ATOM
        if k in CALL_KINDS:
            kind, name = self.classify(n)
            if kind == "conv":
                if k == "CXXMemberCallExpr":
                    obj, _ = self.deref(kids(peel_plain(kids(n)[0]))[0])
                    return self.pp_(obj)
                star = callee_name(n) == "operator*"
                s = self.pp(kids(n)[1], P_UNARY if star else P_ATOM)
                return ("*" + s, P_UNARY) if star else (s, P_ATOM)
            if kind == "cast":
                return self.pp_(kids(n)[1])
            if kind != "value":
                self.err("the call of `%s` (an action) is nested inside another expression" % callee_name(n))
            if k == "CXXMemberCallExpr":
                callee = peel_plain(kids(n)[0])
                base = kids(callee)[0] if kids(callee) else {"kind": "CXXThisExpr"}
                obj, _ = self.deref(base)
                pre = "" if obj.get("kind") == "CXXThisExpr" else self.pp(obj, P_ATOM) + "."
                return "%s%s(%s)" % (pre, callee_name(n), self.args(kids(n)[1:])), P_ATOM
            return "%s(%s)" % (callee_name(n), self.args(kids(n)[1:])), P_ATOM
        if k == "UnaryOperator":
            op = n.get("opcode")
            a = kids(n)[0]
            if op in ("++", "--"):
                if n.get("isPostfix"):
                    return self.pp(a, P_ATOM) + op, P_ATOM
                return op + self.pp(a, P_UNARY), P_UNARY
            return op + self.pp(a, P_UNARY), P_UNARY
        if k == "BinaryOperator":
            op = n.get("opcode")
            if op not in PREC:
                self.err("operator `%s` inside an expression" % op)
            l, r = kids(n)
            p = PREC[op]
            return "%s %s %s" % (self.pp(l, p), op, self.pp(r, p + 1)), p
        if k == "CompoundAssignOperator":
            self.err("assignment inside an expression")
        if k == "ConditionalOperator":
            c, a, b = kids(n)
            return "%s ? %s : %s" % (self.pp(c, P_COND + 1), self.pp(a, P_COND + 1), self.pp(b, P_COND)), P_COND
        if k == "UnaryExprOrTypeTraitExpr":
            ks = kids(n)
            return "%s(%s)" % (n.get("name", "sizeof"), self.pp(ks[0]) if ks else type_name(n.get("argType", {}).get("qualType", "?"))), P_ATOM
        if k == "CXXDefaultArgExpr":
            return "<default>", P_ATOM
        if k == "CXXNewExpr":
            ks = kids(n)
            if len(ks) != 1 or peel_plain(ks[0]).get("kind") not in CTOR_KINDS:
                self.err("`new` of something that is not a single constructed object")
            c = peel_plain(ks[0])
            return "new %s(%s)" % (type_name(ctype(c)), self.args(kids(c))), P_UNARY
        if k in CTOR_KINDS or k == "CXXFunctionalCastExpr":
            args = [a for a in kids(n) if a.get("kind") != "CXXDefaultArgExpr"]
            t = type_name(ctype(n))
            if len(args) == 1 and k != "CXXTemporaryObjectExpr" and type_class(t) not in self.e.object_types:
                return self.pp_(args[0])                                 # copy / conversion: the value itself
            if type_class(t) not in self.e.object_types and args:
                self.err("construction of a `%s` inside an expression is not in the vocabulary" % t)
            return "%s(%s)" % (type_class(t), self.args(args)), P_ATOM
        if k == "PredefinedExpr":
            return n.get("name", "__func__"), P_ATOM
        self.err("cannot print expression node %s" % k)

    # ------------------------------------------------------------------ expressions at statement level
    def action(self, n, out):
        """emit the action of call node `n` (already peeled); False when it is a value"""
        kind, name = self.classify(n)
        if kind in ("call", "sys"):
            out.append(("act", ".%s %s %s" % (kind, lean_str(name), lean_str(self.args(kids(n)[1:])))))
            return True
        return False

    def value_or_action(self, n, out):
        """a value that may be, as a whole, the result of an action call: the action is emitted, `<result>` returned"""
        p = peel(n)
        while p.get("kind") == "CXXConstructExpr" and type_class(ctype(p)) not in self.e.object_types \
                and len([a for a in kids(p) if a.get("kind") != "CXXDefaultArgExpr"]) == 1:
            p = peel([a for a in kids(p) if a.get("kind") != "CXXDefaultArgExpr"][0])      # copy / move of the value
        if p.get("kind") in ("CXXMemberCallExpr", "CallExpr") and self.action(p, out):
            return "<result>"
        return self.pp(n)

    signatures = {}             # clang id of a function declaration -> its parameter types (to name an overload)
    local_ids = frozenset()     # ids of the parameters and locals declared by the function being walked

    def is_local(self, n):
        """a parameter or local of this function (not a global / thread-local variable, not a member)"""
        n = peel(n)
        return n.get("kind") == "DeclRefExpr" and n.get("referencedDecl", {}).get("id") in self.local_ids

    def store(self, lhs, value, out):
        if self.is_local(lhs):
            out.append(("act", ".assign %s %s" % (lean_str(self.pp(lhs)), lean_str(value))))
        else:
            out.append(("act", ".store %s %s" % (lean_str(self.pp(lhs)), lean_str(value))))

    def special_stmt(self, n, out):
        """hook: engine-specific statement shapes (insertion chains); True when handled"""
        return False

    def expr_stmt(self, s, out):
        n = peel(s)
        k = n.get("kind")
        if is_void_cast(n):
            self.pp(n)                                                  # `(void)n;` - a value computed and dropped
            return
        if self.special_stmt(n, out):
            return
        if k == "BinaryOperator" and n.get("opcode") == "=":
            l, r = kids(n)
            self.store(l, self.value_or_action(r, out), out)
            return
        if k == "CompoundAssignOperator":
            l, r = kids(n)
            op = n.get("opcode")[:-1]
            if op not in PREC:
                self.err("compound assignment `%s`" % n.get("opcode"))
            p = PREC[op]
            self.store(l, "%s %s %s" % (self.pp(l, p), op, self.pp(r, p + 1)), out)
            return
        if k == "UnaryOperator" and n.get("opcode") in ("++", "--"):
            a = kids(n)[0]
            self.store(a, "%s %s 1" % (self.pp(a, 12), n["opcode"][0]), out)
            return
        if k == "CXXOperatorCallExpr" and callee_name(n) in ("operator=", "operator+=") and len(kids(n)) == 3:
            _, l, r = kids(n)
            if type_class(ctype(peel(l))) not in ("string",) + tuple(self.e.storage_types):
                self.err("`%s` on a %s is not in the vocabulary" % (callee_name(n), type_name(ctype(peel(l)))))
            v = self.value_or_action(r, out)
            self.store(l, v if callee_name(n) == "operator=" else "%s + %s" % (self.pp(l, 12), v), out)
            return
        if k == "CXXOperatorCallExpr" and callee_name(n) in ("operator++", "operator--") and len(kids(n)) in (2, 3) \
                and type_class(ctype(peel(kids(n)[1]))) == "atomic":
            a = kids(n)[1]
            self.store(a, "%s %s 1" % (self.pp(a, 12), callee_name(n)[-1]), out)
            return
        if k in ("CXXMemberCallExpr", "CallExpr", "CXXOperatorCallExpr"):
            if self.action(n, out):
                return
            self.pp(n)                                                  # a value computed and dropped: checked, no action
            return
        if k in ("LambdaExpr", "CXXDeleteExpr", "CXXThrowExpr", "StmtExpr", "CXXNewExpr"):
            self.err("%s at statement level is not in the vocabulary" % k)
        self.pp(n)

    # ------------------------------------------------------------------ statements
    def cond(self, c):
        text = self.pp(c)                                               # also checks: no action inside a condition
        x = c
        while True:
            if x.get("id") in self.sites:
                return self.sites[x["id"]]
            if x.get("kind") in PEEL_KINDS and kids(x):
                x = kids(x)[0]
            else:
                break
        if text in self.fallback and self.fallback[text] not in self.sites.values():
            return self.fallback[text]
        return text

    def is_diag(self, s):
        """`fprintf(stderr, ..)`: diagnostic output (I1); only value calls of `diag_pure` may occur inside"""
        n = peel(s)
        if n.get("kind") != "CallExpr" or callee_name(n) != "fprintf" or len(kids(n)) < 3:
            return False
        first = peel(kids(n)[1])
        if first.get("kind") != "DeclRefExpr" or first["referencedDecl"]["name"] not in self.e.diag_streams:
            return False
        for x in walk(n):
            if x is not n and x.get("kind") in CALL_KINDS and callee_name(x) not in self.e.diag_pure:
                self.err("call of `%s` inside a diagnostic fprintf" % callee_name(x))
            if x.get("kind") in ("CompoundAssignOperator", "LambdaExpr") or \
                    (x.get("kind") == "BinaryOperator" and x.get("opcode") == "=") or \
                    (x.get("kind") == "UnaryOperator" and x.get("opcode") in ("++", "--")):
                self.err("side effect inside a diagnostic fprintf")
        return True

    def stmt(self, s, out):
        k = s.get("kind")
        if k == "NullStmt":
            return
        if k == "CompoundStmt":
            for c in kids(s):
                self.stmt(c, out)
            return
        if k == "IfStmt":
            ks = kids(s)
            if s.get("hasInit") or s.get("hasVar") or len(ks) not in (2, 3):
                self.err("`if` with an init statement / condition variable")
            name = self.cond(ks[0])
            thn, els = [], []
            self.stmt(ks[1], thn)
            if len(ks) == 3:
                self.stmt(ks[2], els)
            out.append(("ite", name, thn, els))
            return
        if k == "WhileStmt":
            ks = kids(s)
            if s.get("hasVar") or len(ks) != 2:
                self.err("`while` with a condition variable")
            body = []
            name = self.cond(ks[0])
            self.stmt(ks[1], body)
            out.append(("loop", ".whileDo", name, body))
            return
        if k == "DoStmt":
            b, c = kids(s)[0], kids(s)[1]
            if b.get("kind") == "CompoundStmt" and not kids(b) and peel(c).get("kind") in ("IntegerLiteral", "CXXBoolLiteralExpr"):
                return                                                  # MUDUO_VERIF_POINT
            body = []
            self.stmt(b, body)
            out.append(("loop", ".doWhile", self.cond(c), body))
            return
        if k == "BreakStmt":
            out.append(("act", ".brk"))
            return
        if k == "ReturnStmt":
            ks = kids(s)
            out.append(("act", ".ret %s" % lean_str(self.value_or_action(ks[0], out) if ks else "")))
            return
        if k == "DeclStmt":
            for v in kids(s):
                if v.get("kind") == "StaticAssertDecl":
                    continue                                            # compile time only
                if v.get("kind") != "VarDecl":
                    self.err("declaration of a %s inside the body" % v.get("kind"))
                self.local(v, out)
            return
        if is_assert(s):
            out.append(("act", ".assertion %s" % lean_str(self.pp(kids(peel_plain(s))[0]))))
            return
        if self.is_diag(s):
            return
        if k.endswith("Stmt"):
            self.err("statement kind %s is outside the supported subset" % k)
        self.expr_stmt(s, out)

    def local(self, v, out):
        init = kids(v)
        cls = type_class(ctype(v))
        if v.get("storageClass") == "static":
            self.err("a static local")
        if not init:
            return                                                      # storage only
        i0 = peel(init[0])
        if i0.get("kind") in CTOR_KINDS:
            args = [a for a in kids(i0) if a.get("kind") != "CXXDefaultArgExpr"]
            if cls in self.e.lock_types:
                if len(args) != 1:
                    self.err("lock guard `%s` with %d arguments" % (v["name"], len(args)))
                out.append(("act", ".lock %s" % lean_str(self.pp(args[0]))))
                return
            if not args:
                if cls in self.e.storage_types or cls == "string":
                    return                                              # default construction: storage only
                self.err("default construction of a `%s` is not in the vocabulary" % type_name(ctype(v)))
            if cls in self.e.object_types:
                out.append(("act", ".assign %s %s" % (lean_str(v["name"]), lean_str("%s(%s)" % (cls, self.args(args))))))
                return
        out.append(("act", ".assign %s %s" % (lean_str(v["name"]), lean_str(self.value_or_action(init[0], out)))))

    def ctor_inits(self, fn, out):
        for c in kids(fn):
            if c.get("kind") != "CXXCtorInitializer":
                continue
            if "baseInit" in c:
                continue                                                # empty tag base (`noncopyable`)
            m = c.get("anyInit", {}).get("name")
            if m is None:
                self.err("constructor initialiser without a member name")
            e = peel(kids(c)[0])
            if e.get("kind") in CTOR_KINDS:
                args = [a for a in kids(e) if a.get("kind") != "CXXDefaultArgExpr"]
                if not args:
                    continue                                            # default-constructed member (`file_()`, `stream_()`)
                if len(args) == 1:
                    out.append(("act", ".store %s %s" % (lean_str(m), lean_str(self.value_or_action(args[0], out)))))
                    continue
                self.err("member `%s` is constructed from %d arguments" % (m, len(args)))
            out.append(("act", ".store %s %s" % (lean_str(m), lean_str(self.value_or_action(kids(c)[0], out)))))


def render(items, ind):
    pad = " " * ind
    lines = []
    for it in items:
        if it[0] == "act":
            lines.append("%s.act (%s)" % (pad, it[1]))
        elif it[0] == "loop":
            _, kind, name, body = it
            s = "%s.loop %s %s" % (pad, kind, lean_str(name))
            s += ("\n%s  [\n%s\n%s  ]" % (pad, render(body, ind + 4), pad)) if body else " []"
            lines.append(s)
        else:
            _, name, thn, els = it
            s = "%s.ite %s" % (pad, lean_str(name))
            for br in (thn, els):
                if br:
                    s += "\n%s  [\n%s\n%s  ]" % (pad, render(br, ind + 4), pad)
                else:
                    s += " []"
            lines.append(s)
    return ",\n".join(lines)


def index_functions(docs):
    """[(owner class or None, function node)] of every definition in the dump, in dump order, each once.
    owner: the enclosing record (`FixedBuffer<4000>` for a specialisation) or, for an out-of-line definition, the record
    whose id is its parentDeclContextId."""
    names, res, seen = {}, [], set()

    def rec(n, owner):
        k = n.get("kind")
        if k in ("CXXRecordDecl", "ClassTemplateSpecializationDecl"):
            o = n.get("name")
            if k == "ClassTemplateSpecializationDecl":
                targs = [a for a in n.get("inner", []) if isinstance(a, dict) and a.get("kind") == "TemplateArgument"]
                o = "%s<%s>" % (o, ",".join(str(a.get("value", a.get("type", {}).get("qualType"))) for a in targs))
            if n.get("id") is not None and (kids(n) or n.get("id") not in names):
                names[n["id"]] = o
            for c in kids(n):
                rec(c, o)
            return
        if k in FN_KINDS and body_of(n) is not None:
            if n.get("id") not in seen and not n.get("isImplicit"):
                seen.add(n.get("id"))
                res.append((owner, n))
            return
        for c in kids(n):
            rec(c, owner)
    for d in docs:
        rec(d, None)
    return [(o if o is not None else names.get(f.get("parentDeclContextId")), f) for o, f in res]


def signatures_of(docs):
    """clang id of every function declaration in the dump -> its parameter types"""
    res = {}
    for d in docs:
        for n in walk(d):
            if n.get("kind") in FN_KINDS and n.get("id") is not None and n["id"] not in res:
                res[n["id"]] = param_types(n)
    return res


def is_dependent(fn):
    """a template pattern whose body still contains unresolved names / dependent types"""
    return any(ctype(x) == "<dependent type>" or x.get("kind") in (
        "UnresolvedLookupExpr", "CXXDependentScopeMemberExpr", "UnresolvedMemberExpr", "CXXUnresolvedConstructExpr",
        "DependentScopeDeclRefExpr") for x in walk(fn))


def param_types(fn):
    return [ctype(k) for k in kids(fn) if k.get("kind") == "ParmVarDecl"]


def pick(funcs, owner, name, ptypes=None, dependent=False):
    """all definitions `owner::name(ptypes)`; template patterns (a dependent parameter / owner) are dropped unless asked for"""
    fs = [f for o, f in funcs if f.get("name") == name and (o == owner or (owner is not None and o is not None and
                                                                            o.split("<")[0] == owner and "<" in o))]
    if ptypes is not None:
        fs = [f for f in fs if param_types(f) == ptypes]
    return fs


def skeleton_of(walker_cls, engine, owner, fn, sites, fallback=None, signatures=None):
    w = walker_cls(engine, owner, fn.get("name"), sites, fallback)
    w.signatures = signatures or {}
    w.local_ids = frozenset(x.get("id") for x in walk(fn) if x.get("kind") in ("VarDecl", "ParmVarDecl"))
    items = []
    if fn.get("kind") == "CXXConstructorDecl":
        w.ctor_inits(fn, items)
    w.stmt(body_of(fn), items)
    return items
