"""T1 — translation of constants, tables, guard expressions and small integer functions
from /repo's current sources (clang 14 JSON AST) into lean/MuduoVerif/Generated/*.lean.

Never guesses: an AST node outside the supported subset, a call or name that the site's
symbol map does not cover, or a site that cannot be located raises ExtractError, which
the orchestrator reports as a broken tie for every property depending on that file.
"""
import glob
import json
import os
import re
from concurrent.futures import ThreadPoolExecutor

from .common import BUILD, LEAN, REPO, flock, sh, sha, write_if_changed

GEN_DIR = os.path.join(LEAN, "MuduoVerif", "Generated")


class ExtractError(Exception):
    pass


# ----------------------------------------------------------------------------- AST access

_tree_hash = None


def tree_hash():
    """hash of every source file the translator may look at"""
    global _tree_hash
    if _tree_hash is None:
        parts = []
        pats = ["muduo/**/*.h", "muduo/**/*.cc", "muduo/**/*.proto", "examples/protobuf/codec/*"]
        files = set()
        for p in pats:
            files.update(glob.glob(os.path.join(REPO, p), recursive=True))
        for f in sorted(files):
            if os.path.isfile(f):
                with open(f, "rb") as fh:
                    parts.append(f + ":" + sha(fh.read()))
        _tree_hash = sha("\n".join(parts))
    return _tree_hash


def _parse_docs(s):
    dec = json.JSONDecoder()
    i, docs = 0, []
    n = len(s)
    while i < n:
        while i < n and s[i].isspace():
            i += 1
        if i >= n:
            break
        o, j = dec.raw_decode(s, i)
        docs.append(o)
        i = j
    return docs


def ast_dump(tu, flt, extra_inc=()):
    """all declarations of `tu` whose qualified name contains `flt` (cached per tree hash)"""
    cache = os.path.join(BUILD, "ast")
    os.makedirs(cache, exist_ok=True)
    key = sha(tree_hash() + tu + flt + " ".join(extra_inc))[:24]
    path = os.path.join(cache, key + ".json")
    if os.path.exists(path):
        with open(path) as f:
            return _parse_docs(f.read())
    cmd = ["clang++-14", "-std=gnu++11", "-I" + REPO] + ["-I" + i for i in extra_inc] + [
        "-fsyntax-only", "-Wno-everything", "-Xclang", "-ast-dump=json", "-Xclang", "-ast-dump-filter=" + flt,
        os.path.join(REPO, tu)]
    rc, out, err = sh(cmd, timeout=120)
    if rc != 0 and not out.strip():
        raise ExtractError("clang failed on %s: %s" % (tu, err[-2000:]))
    docs = _parse_docs(out)
    if not docs:
        raise ExtractError("no declaration matching %s in %s" % (flt, tu))
    with open(path + ".tmp", "w") as f:
        f.write(out)
    os.replace(path + ".tmp", path)
    return docs


def walk(n):
    yield n
    for c in n.get("inner", []) or []:
        if isinstance(c, dict):
            yield from walk(c)


def kids(n):
    return [c for c in (n.get("inner") or []) if isinstance(c, dict) and c.get("kind")]


def body_of(fn):
    for c in kids(fn):
        if c.get("kind") == "CompoundStmt":
            return c
    return None


def functions(docs, name, kinds=("CXXMethodDecl", "FunctionDecl", "CXXConstructorDecl", "CXXDestructorDecl")):
    """definitions (with a body) called `name` among the dumped declarations"""
    res = []
    for d in docs:
        for n in walk(d):
            if n.get("kind") in kinds and n.get("name") == name and body_of(n) is not None:
                res.append(n)
    # the same definition can be dumped twice (in-class and via the filter); dedupe by id
    seen, out = set(), []
    for r in res:
        if r.get("id") not in seen:
            seen.add(r.get("id"))
            out.append(r)
    return out


def the_function(docs, name, nparams=None, param_type=None):
    fs = functions(docs, name)
    if nparams is not None:
        fs = [f for f in fs if len([k for k in kids(f) if k["kind"] == "ParmVarDecl"]) == nparams]
    if param_type is not None:
        fs = [f for f in fs if any(param_type in k.get("type", {}).get("qualType", "") for k in kids(f) if k["kind"] == "ParmVarDecl")]
    if len(fs) != 1:
        raise ExtractError("expected exactly one definition of %s, found %d" % (name, len(fs)))
    return fs[0]


def strip(n):
    """skip nodes that do not change an integer/boolean value"""
    while True:
        k = n.get("kind")
        if k in ("ParenExpr", "ExprWithCleanups", "MaterializeTemporaryExpr", "CXXBindTemporaryExpr", "ConstantExpr"):
            n = kids(n)[0]
        elif k == "ImplicitCastExpr" and n.get("castKind") in (
                "LValueToRValue", "NoOp", "IntegralCast", "FunctionToPointerDecay",
                "UserDefinedConversion", "ArrayToPointerDecay", "DerivedToBase", "UncheckedDerivedToBase"):
            n = kids(n)[0]
        elif k in ("CStyleCastExpr", "CXXStaticCastExpr", "CXXFunctionalCastExpr") and n.get("castKind") in ("IntegralCast", "NoOp"):
            n = kids(n)[0]
        else:
            return n


def mentions(n, name):
    for x in walk(n):
        if x.get("name") == name:
            return True
        rd = x.get("referencedDecl")
        if rd and rd.get("name") == name:
            return True
        if x.get("kind") == "MemberExpr" and x.get("name") == name:
            return True
    return False


def find_ifs(fn):
    return [n for n in walk(body_of(fn)) if n.get("kind") == "IfStmt"]


def if_cond(ifs):
    ks = kids(ifs)
    # (init;)? cond, then, else?
    return ks[0]


def locate_if(fn, *names, index=0):
    c = [i for i in find_ifs(fn) if all(mentions(if_cond(i), nm) for nm in names)]
    if len(c) <= index:
        raise ExtractError("no `if` mentioning %s in %s" % (names, fn.get("name")))
    return c[index]


def locate_var(fn, name):
    for n in walk(body_of(fn)):
        if n.get("kind") == "VarDecl" and n.get("name") == name:
            return n
    raise ExtractError("no variable %s in %s" % (name, fn.get("name")))


# ----------------------------------------------------------------------------- expressions

UNSIGNED = re.compile(r"\b(size_t|unsigned|uint\d+_t|std::size_t|size_type)\b")


def ctype(n):
    return n.get("type", {}).get("qualType", "")


def desugared(n):
    return n.get("type", {}).get("desugaredQualType", ctype(n))


def is_unsigned(n):
    t = desugared(n)
    return bool(UNSIGNED.search(t)) or bool(UNSIGNED.search(ctype(n)))


class Tr:
    """expression translator; `sym` maps source-level atoms to Lean terms.

    keys: `x` (local/param/global), `f_` (member of this), `m()` (method of this),
    `f_.m()` (method of a member, `.` also for `->`), `sizeof(x)`.
    `consts` maps names of integer constants to Lean names (generated alongside).
    `int_mode`: translate arithmetic over Int (C signed semantics: tdiv/tmod) instead of Nat.
    """

    def __init__(self, sym, consts=None, int_mode=False):
        self.sym, self.consts, self.int_mode = sym, consts or {}, int_mode
        self.used = set()

    def atom_key(self, n):
        k = n.get("kind")
        if k == "DeclRefExpr":
            return n["referencedDecl"]["name"]
        if k == "MemberExpr":
            base = strip(kids(n)[0]) if kids(n) else None
            if base is None or base.get("kind") == "CXXThisExpr":
                return n["name"]
            bk = self.atom_key(base)
            return None if bk is None else bk + "." + n["name"]
        if k in ("CXXMemberCallExpr",):
            callee = strip(kids(n)[0])
            if callee.get("kind") == "MemberExpr" and len(kids(n)) == 1:
                # reading a std::atomic<T> member through its conversion operator is a read of the member
                if callee.get("name", "").startswith("operator ") and kids(callee) and "atomic" in ctype(strip(kids(callee)[0])):
                    return self.atom_key(strip(kids(callee)[0]))
                ck = self.atom_key(callee)
                return None if ck is None else ck + "()"
        if k == "CXXOperatorCallExpr":
            # smart pointer `->`: p->m  ==> key of p
            ks = kids(n)
            op = strip(ks[0])
            if op.get("kind") == "DeclRefExpr" and op["referencedDecl"]["name"] == "operator->":
                return self.atom_key(strip(ks[1]))
            if op.get("kind") == "DeclRefExpr" and op["referencedDecl"]["name"] == "operator*" and len(ks) == 2:
                return self.atom_key(strip(ks[1]))
        if k == "UnaryOperator" and n.get("opcode") == "*":
            return self.atom_key(strip(kids(n)[0]))
        if k == "CallExpr" and len(kids(n)) == 1:
            callee = strip(kids(n)[0])
            if callee.get("kind") == "DeclRefExpr":
                return callee["referencedDecl"]["name"] + "()"
        return None

    def lookup(self, key, n):
        if key in self.sym:
            self.used.add(key)
            return self.sym[key]
        if key in self.consts:
            return self.consts[key]
        raise ExtractError("atom `%s` (%s) is not in the symbol map of this site" % (key, n.get("kind")))

    def expr(self, n):
        n = strip(n)
        k = n.get("kind")
        if k == "ImplicitCastExpr" and n.get("castKind") == "IntegralToBoolean":
            return "(%s ≠ 0)" % self.expr(kids(n)[0])
        if k == "IntegerLiteral":
            return str(int(n["value"]))
        if k == "CXXBoolLiteralExpr":
            return "True" if n["value"] else "False"
        if k == "UnaryExprOrTypeTraitExpr" and n.get("name") == "sizeof":
            ks = kids(n)
            if ks:
                inner = strip(ks[0])
                key = "sizeof(%s)" % (self.atom_key(inner) or "?")
                if key in self.sym:
                    self.used.add(key)
                    return self.sym[key]
                m = re.search(r"\[(\d+)\]", ctype(inner))
                if m:
                    return m.group(1)
            raise ExtractError("unsupported sizeof")
        if k == "UnaryOperator" and n.get("opcode") == "*":
            key = self.atom_key(n)
            if key is not None:
                return self.lookup(key, n)
        if k == "UnaryOperator":
            op = n["opcode"]
            a = self.expr(kids(n)[0])
            if op == "!":
                return "¬ (%s)" % a
            if op == "-":
                return "(-(%s))" % a
            raise ExtractError("unary operator " + op)
        if k == "BinaryOperator":
            op = n["opcode"]
            l, r = kids(n)
            a, b = self.expr(l), self.expr(r)
            table = {"+": "+", "*": "*", "<": "<", "<=": "≤", ">": ">", ">=": "≥", "==": "=", "!=": "≠",
                     "&&": "∧", "||": "∨"}
            if op in table:
                return "(%s %s %s)" % (a, table[op], b)
            if op == "-":
                return "(%s - %s)" % (a, b)
            if op == "/":
                return ("(Int.tdiv %s %s)" if self.int_mode else "(%s / %s)") % (a, b)
            if op == "%":
                return ("(Int.tmod %s %s)" if self.int_mode else "(%s %% %s)") % (a, b)
            if op == "&":
                return "(%s &&& %s)" % (a, b)
            if op == "|":
                return "(%s ||| %s)" % (a, b)
            raise ExtractError("binary operator " + op)
        if k == "ConditionalOperator":
            c, a, b = [self.expr(x) for x in kids(n)]
            return "(if %s then %s else %s)" % (c, a, b)
        if k == "CallExpr":
            callee = strip(kids(n)[0])
            nm = callee.get("referencedDecl", {}).get("name") if callee.get("kind") == "DeclRefExpr" else None
            if nm in ("implicit_cast", "static_cast") and len(kids(n)) == 2:
                return self.expr(kids(n)[1])
            if nm is not None:
                key = nm + "(" + ",".join(self.atom_key(strip(a)) or "?" for a in kids(n)[1:]) + ")"
                return self.lookup(key, n)
        key = self.atom_key(n)
        if key is not None:
            return self.lookup(key, n)
        raise ExtractError("unsupported expression node %s" % k)


def prop_def(name, params, body, doc):
    ps = " ".join("(%s : %s)" % (p, t) for p, t in params)
    names = " ".join(p for p, _ in params)
    return ("/-- %s -/\ndef %s %s : Prop := %s\ninstance : Decidable (%s %s) := by unfold %s; infer_instance\n"
            % (doc, name, ps, body, name, names, name))


def unparen(s):
    if s.startswith("(") and s.endswith(")"):
        depth = 0
        for i, ch in enumerate(s):
            if ch == "(":
                depth += 1
            elif ch == ")":
                depth -= 1
                if depth == 0 and i != len(s) - 1:
                    return s
        return s[1:-1]
    return s


def const_int(docs, name):
    """value of an integer constant declared with a literal initialiser"""
    for d in docs:
        for n in walk(d):
            if n.get("kind") == "VarDecl" and n.get("name") == name and kids(n):
                v = strip(kids(n)[-1])
                if v.get("kind") == "IntegerLiteral":
                    return int(v["value"])
                if v.get("kind") == "BinaryOperator":
                    try:
                        return int(eval(Tr({}).expr(v).replace("(", "(").replace("≤", "<=")))
                    except Exception:
                        pass
                if v.get("kind") == "FloatingLiteral":
                    return v["value"]
    raise ExtractError("constant %s not found with a literal initialiser" % name)


def source_text(path, begin, end):
    with open(os.path.join(REPO, path)) as f:
        return f.read()[begin:end]


# ----------------------------------------------------------------------------- engines

HEADER = "-- GENERATED by vlib/extract.py from /repo (%s). Do not edit: rewritten on every run.\n"


def _discover():
    import importlib
    import pkgutil
    from . import gen
    res = {}
    for m in pkgutil.iter_modules(gen.__path__):
        mod = importlib.import_module("vlib.gen." + m.name)
        res[mod.NAME] = mod.generate
    return res


class _Engines(dict):
    def __missing__(self, k):
        self.update(_discover())
        if k in self:
            return dict.__getitem__(self, k)
        raise KeyError(k)

    def all(self):
        self.update(_discover())
        return list(self)


ENGINES = _Engines()


def generate(engines):
    """(re)generate the named Generated/*.lean files; returns {engine: error or None}"""
    res = {}
    with flock("extract"):
        for e in engines:
            try:
                text = ENGINES[e]()
                write_if_changed(os.path.join(GEN_DIR, e + ".lean"), text)
                res[e] = None
            except ExtractError as ex:
                res[e] = str(ex)
            except (KeyError, IndexError, TypeError) as ex:
                res[e] = "translator could not follow the AST (%s: %s)" % (type(ex).__name__, ex)
    return res


if __name__ == "__main__":
    import sys
    from vlib import extract as _real   # the module the gen plug-ins import (not this `__main__` copy)
    for k, v in _real.generate(sys.argv[1:] or _real.ENGINES.all()).items():
        print(k, "ok" if v is None else "FAILED: " + v)
