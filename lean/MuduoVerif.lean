-- Root of the library: every model, proof and property module.
import MuduoVerif.Props.C10
import MuduoVerif.Props.C20
