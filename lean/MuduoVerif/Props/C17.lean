import MuduoVerif.Proofs.LogStream
/-!
# C17 — log text equals printf output, stays in bounds and carries true metadata

Property theorems only; lemmas live in `Proofs/LogStream*.lean`.  The model
(`Model/LogStream.lean`) uses the constants, digit tables, space guards, printf formats,
line pieces, macro gates and the `formatSI`/`formatIEC` branch tables of
`Generated/LogStream.lean`, re-extracted from /repo on every run.
-/
namespace MuduoVerif.C17
open MuduoVerif.LogStream MuduoVerif.Gen.LogStream

/-! ## integers, pointers -/

/-- `%d`/`%u`/`%ld`/… specification used below is the canonical decimal numeral (core's `Nat.toDigits 10`,
the digits of `Nat.repr`), with a leading `-` for negative values -/
theorem decimal_canonical (v : Int) :
    decimal v = (if v < 0 then [45] else []) ++ (Nat.toDigits 10 v.natAbs).map Char.toNat := by
  unfold decimal; rw [decimalNat_eq_toDigits]; split <;> rfl

/-- **the digit loop of `detail::convert` prints exactly the canonical decimal text**, for every integer
(no bound: in particular every type minimum, where `i % 10` is negative and `-i` would overflow) -/
theorem convert_spec (v : Int) : convert v = decimal v := convert_eq_decimal v

/-- `detail::convertHex` prints `%X` (upper case, no leading zeros), and a pointer is `0x` followed by it -/
theorem convertHex_spec (v : Nat) :
    convertHex v = (Nat.toDigits 16 v).map (fun c => c.toUpper.toNat) ∧
    (Item.ptr v).text = [48, 120] ++ hexUpper v := by
  refine ⟨by rw [convertHex_eq, hexUpper_eq_toDigits], ?_⟩
  simp only [Item.text, convertHex_eq]; rfl

/-- a value of any integer type of at most 64 bits needs at most 20 characters, a pointer at most 18,
both less than `kMaxNumericSize - 1`: the in-place write (digits and the terminating NUL) stays inside
the headroom `formatInteger` / `operator<<(const void*)` tested -/
theorem convert_len (v : Int) (h1 : -2 ^ 63 ≤ v) (h2 : v < 2 ^ 64) :
    (convert v).length ≤ 20 ∧ 20 < kMaxNumericSize := by
  rw [convert_eq_decimal]; exact ⟨decimal_length_le v h1 h2, by decide⟩

theorem pointer_len (v : Nat) (h : v < 2 ^ 64) :
    (Item.ptr v).text.length ≤ 18 ∧ 18 < kMaxNumericSize := by
  have := hexUpper_length_le 15 v (by omega)
  have hp : pointerPrefix.length = 2 := by decide
  refine ⟨?_, by decide⟩
  simp only [Item.text, convertHex_eq, List.length_append, hp]; omega

/-! ## the fixed buffer -/

/-- **every insertion sequence stays inside the buffer and loses only whole items, only for lack of space**:
from any buffer that is within its capacity, after any sequence of items (of any length, also far
beyond the capacity) the content is within the capacity; it is what `Fill` specifies — each item
appended whole when the space was not short for it (`≥ kMaxNumericSize` for numbers, `> length` for
everything else), left out whole otherwise — hence the old content followed by the texts of a
sub-sequence of the items -/
theorem buffer_inv (b : FixedBuf) (items : List Item) (hb : b.data.length ≤ b.cap)
    (hok : ∀ it ∈ items, it.ok) :
    (run b items).cap = b.cap ∧ (run b items).data.length ≤ b.cap ∧
    Fill b.cap b.data items (run b items).data ∧
    ∃ kept : List Item, kept.Sublist items ∧ (run b items).data = b.data ++ kept.flatMap Item.text :=
  ⟨run_cap items b, fill_length (run_fill items b) hb hok, run_fill items b, fill_sublist (run_fill items b)⟩

/-- an accepted item is strictly shorter than the space that was available: the copy (and the NUL that
`debugString` / the in-place conversions store behind it) never leaves the array -/
theorem insert_in_bounds (b : FixedBuf) (it : Item) (hok : it.ok) (hf : it.fits (avail b)) :
    (insert b it).data = b.data ++ it.text ∧ it.text.length < avail b :=
  ⟨by simp [MuduoVerif.LogStream.insert, hf], text_lt_room _ it hok ((fits_iff_not_short _ _).1 hf)⟩

/-- the hypotheses of `buffer_inv` are satisfiable by a sequence that overflows the buffer -/
example : ∃ items : List Item, (∀ it ∈ items, it.ok) ∧ (run (mkBuf 8) items).data = [97, 98, 99, 100, 49] :=
  ⟨[.str [97, 98, 99, 100], .int (-5), .str [1, 2, 3, 4], .bool true], by decide, by decide⟩

/-! ## level gate, source file -/

/-- **the gate of the `LOG_*` macros** (from the generated macro table): a TRACE, DEBUG or INFO statement
emits a line iff its level is at least the configured level; WARN, ERROR, FATAL, SYSERR and SYSFATAL
statements always do; and every macro constructs the Logger with its own level -/
theorem gate : ∀ m, m < numMacros → ∀ configured, configured < numLogLevels →
    (emits m configured ↔ (configured ≤ macroLevel m ∨ levelWARN ≤ macroLevel m)) ∧
    macroLevel m = [levelTRACE, levelDEBUG, levelINFO, levelWARN, levelERROR, levelFATAL, levelERROR, levelFATAL].getD m 0 := by
  decide

/-- **`SourceFile` keeps what follows the last `/`**: the path is a directory part, empty or ending in
`/`, followed by the base name, which contains no `/` -/
theorem basename_spec (path : Bytes) :
    ∃ dir : Bytes, path = dir ++ basename path ∧ 47 ∉ basename path ∧ (dir = [] ∨ dir.getLast? = some 47) := by
  refine ⟨(path.reverse.dropWhile (· ≠ 47)).reverse, basename_split path, basename_no_slash path, ?_⟩
  rcases dropWhile_head (· ≠ 47) path.reverse with h | ⟨x, t, h, hx⟩
  · left; rw [h]; rfl
  · right
    have : x = 47 := by simpa using hx
    rw [h, this]; simp

end MuduoVerif.C17
