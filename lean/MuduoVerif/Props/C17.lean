import MuduoVerif.Proofs.LogStream
import MuduoVerif.Proofs.LogStreamTid
import MuduoVerif.Proofs.LogStreamNum
import MuduoVerif.Proofs.LogStreamSkelTie
import MuduoVerif.Proofs.ThreadSkelTie
/-!
# C17 — log text equals printf output, stays in bounds and carries true metadata

Property theorems only; lemmas live in `Proofs/LogStream*.lean`.  The model
(`Model/LogStream.lean`) uses the constants, digit tables, space guards, printf formats,
line pieces, the statement order of `Logger::Impl::Impl`, the tid-cache guards / initial values / start-up steps,
macro gates and the `formatSI`/`formatIEC` branch tables of
`Generated/LogStream.lean`, re-extracted from /repo on every run.
-/
namespace MuduoVerif.C17
open MuduoVerif.LogStream MuduoVerif.Gen.LogStream

/-! ## integers, pointers -/

/-- `%d`/`%u`/`%ld`/… specification used below is the canonical decimal numeral (core's `Nat.toDigits 10`,
the digits of `Nat.repr`), with a leading `-` for negative values -/
theorem decimal_canonical (v : Int) :
    decimal v = (if v < 0 then [45] else []) ++ (Nat.toDigits 10 v.natAbs).map Char.toNat := by
  unfold decimal; rw [decimalNat_eq_toDigits]; split <;> rfl

/-- **the digit loop of `detail::convert` prints exactly the canonical decimal text**, for every integer
(no bound: in particular every type minimum, where `i % 10` is negative and `-i` would overflow) -/
theorem convert_spec (v : Int) : convert v = decimal v := convert_eq_decimal v

/-- `detail::convertHex` prints `%X` (upper case, no leading zeros), and a pointer is `0x` followed by it -/
theorem convertHex_spec (v : Nat) :
    convertHex v = (Nat.toDigits 16 v).map (fun c => c.toUpper.toNat) ∧
    (Item.ptr v).text = [48, 120] ++ hexUpper v := by
  refine ⟨by rw [convertHex_eq, hexUpper_eq_toDigits], ?_⟩
  simp only [Item.text, convertHex_eq]; rfl

/-- a value of any integer type of at most 64 bits needs at most 20 characters, a pointer at most 18,
both less than `kMaxNumericSize - 1`: the in-place write (digits and the terminating NUL) stays inside
the headroom `formatInteger` / `operator<<(const void*)` tested -/
theorem convert_len (v : Int) (h1 : -2 ^ 63 ≤ v) (h2 : v < 2 ^ 64) :
    (convert v).length ≤ 20 ∧ 20 < kMaxNumericSize := by
  rw [convert_eq_decimal]; exact ⟨decimal_length_le v h1 h2, by decide⟩

theorem pointer_len (v : Nat) (h : v < 2 ^ 64) :
    (Item.ptr v).text.length ≤ 18 ∧ 18 < kMaxNumericSize := by
  have := hexUpper_length_le 15 v (by omega)
  have hp : pointerPrefix.length = 2 := by decide
  refine ⟨?_, by decide⟩
  simp only [Item.text, convertHex_eq, List.length_append, hp]; omega

/-! ## the fixed buffer -/

/-- **every insertion sequence stays inside the buffer and loses only whole items, only for lack of space**:
from any buffer that is within its capacity, after any sequence of items (of any length, also far
beyond the capacity) the content is within the capacity; it is what `Fill` specifies — each item
appended whole when the space was not short for it (`≥ kMaxNumericSize` for numbers, `> length` for
everything else), left out whole otherwise — hence the old content followed by the texts of a
sub-sequence of the items -/
theorem buffer_inv (b : FixedBuf) (items : List Item) (hb : b.data.length ≤ b.cap)
    (hok : ∀ it ∈ items, it.ok) :
    (run b items).cap = b.cap ∧ (run b items).data.length ≤ b.cap ∧
    Fill b.cap b.data items (run b items).data ∧
    ∃ kept : List Item, kept.Sublist items ∧ (run b items).data = b.data ++ kept.flatMap Item.text :=
  ⟨run_cap items b, fill_length (run_fill items b) hb hok, run_fill items b, fill_sublist (run_fill items b)⟩

/-- an accepted item is strictly shorter than the space that was available: the copy (and the NUL that
`debugString` / the in-place conversions store behind it) never leaves the array -/
theorem insert_in_bounds (b : FixedBuf) (it : Item) (hok : it.ok) (hf : it.fits (avail b)) :
    (insert b it).data = b.data ++ it.text ∧ it.text.length < avail b :=
  ⟨by simp [MuduoVerif.LogStream.insert, hf], text_lt_room _ it hok ((fits_iff_not_short _ _).1 hf)⟩

/-- the hypotheses of `buffer_inv` are satisfiable by a sequence that overflows the buffer -/
example : ∃ items : List Item, (∀ it ∈ items, it.ok) ∧ (run (mkBuf 8) items).data = [97, 98, 99, 100, 49] :=
  ⟨[.str [97, 98, 99, 100], .int (-5), .str [1, 2, 3, 4], .bool true], by decide, by decide⟩

/-! ## level gate, source file -/

/-- **the gate of the `LOG_*` macros** (from the generated macro table): a TRACE, DEBUG or INFO statement
emits a line iff its level is at least the configured level; WARN, ERROR, FATAL, SYSERR and SYSFATAL
statements always do; and every macro constructs the Logger with its own level -/
theorem gate : ∀ m, m < numMacros → ∀ configured, configured < numLogLevels →
    (emits m configured ↔ (configured ≤ macroLevel m ∨ levelWARN ≤ macroLevel m)) ∧
    macroLevel m = [levelTRACE, levelDEBUG, levelINFO, levelWARN, levelERROR, levelFATAL, levelERROR, levelFATAL].getD m 0 := by
  decide

/-- **`SourceFile` keeps what follows the last `/`**: the path is a directory part, empty or ending in
`/`, followed by the base name, which contains no `/` -/
theorem basename_spec (path : Bytes) :
    ∃ dir : Bytes, path = dir ++ basename path ∧ 47 ∉ basename path ∧ (dir = [] ∨ dir.getLast? = some 47) := by
  refine ⟨(path.reverse.dropWhile (· ≠ 47)).reverse, basename_split path, basename_no_slash path, ?_⟩
  rcases dropWhile_head (· ≠ 47) path.reverse with h | ⟨x, t, h, hx⟩
  · left; rw [h]; rfl
  · right
    have : x = 47 := by simpa using hx
    rw [h, this]; simp

/-! ## the thread id -/

/-- the extracted `Logger::Impl::Impl` calls `CurrentThread::tid()` before it reads `tidString()` (the Boolean the
generator computed from the AST is the one the model's reading of the statement list gives) -/
theorem tid_cached_before_use : tidCachedBeforeUse = true ∧ cachedBeforeUse implSteps = true :=
  ⟨by decide, by rw [← tidCachedBeforeUse_tie]; decide⟩

/-- **each emitted line carries the calling thread's id**: for every state of the thread's tid cache — nothing
cached yet (a thread that reaches the logger without having run any other muduo code, whatever its three
thread-local variables hold) or its own id cached — the line consists of the time stamp (17 characters and the
8 / 9 characters of the microsecond field), then exactly the `"%5d "` rendering of `gettid()` of the calling thread
(right-aligned in five columns, then a space), then the rest; the `assert` of the helper class `T` holds (no abort
in a build with asserts), and afterwards the thread has its own id cached.  The proof goes through
`tidCachedBeforeUse`: it is the call `CurrentThread::tid();` in `Impl::Impl` that makes the two cases equal. -/
theorem tid_field_true (z : Zone) (gen : Int) (c : TimeCache) (t : TidState) (r : LogReq)
    (hpos : 0 < r.tid) (hmax : r.tid < 2 ^ 31)
    (ht : t.cached = 0 ∨ t = TidState.of r.tid) :
    (∃ stamp rest, stamp.length = 17 + usWidth z ∧
      (logLine z gen c t r).text = stamp ++ (fmtInt false 5 r.tid ++ [32]) ++ rest) ∧
    (logLine z gen c t r).asserts = true ∧ (logLine z gen c t r).tid = TidState.of r.tid := by
  have h0 : r.tid ≠ 0 := by omega
  have hb : tidCachedBeforeUse = true := tid_cached_before_use.1
  rw [tidCachedBeforeUse_tie] at hb
  -- whatever the thread had cached, `Impl::Impl` does what it does on a thread that has cached its own id
  have hrun : implRun z (lineEnv z gen c t r) implSteps = implRun z (lineEnv z gen c (TidState.of r.tid) r) implSteps :=
    implRun_cached z implSteps hb (lineEnv z gen c t r) h0 ht
  have hasserts : ∀ e : LineEnv, e.req.tid ≠ 0 → e.tid.okFor e.req.tid →
      implAsserts z e implSteps = implAsserts z { e with tid := TidState.of e.req.tid } implSteps := by
    intro e h0 hok
    rcases hok with hk | hk
    · simp [implSteps, implAsserts, implStep, tidCall_empty _ _ hk, tidCall_of _ h0]
    · rw [← hk]
  have htext : (logLine z gen c t r).text = (logLine z gen c (TidState.of r.tid) r).text := by
    simp only [logLine, logLineOf, lineItemsOf, hrun]
  refine ⟨?_, ?_, ?_⟩
  · rw [htext]
    obtain ⟨tail, e⟩ := implRun_shape z (lineEnv z gen c (TidState.of r.tid) r)
    have hf : tidField (tidCall r.tid (TidState.of r.tid)) = fmtInt false 5 r.tid ++ [32] := by
      rw [tidCall_of _ h0, tidField_of, tidText_eq]
    exact line_three implSteps z gen c (TidState.of r.tid) r _ (fmtInt_space_length r.tid (by omega) (by omega))
      ⟨tail, by rw [e]; simp only [lineEnv, hf]⟩
  · have := hasserts (lineEnv z gen c t r) h0 ht
    simp only [logLine, logLineOf]
    rw [this]
    exact implAsserts_of z _ h0 rfl
  · simp only [logLine, logLineOf, hrun]
    simp [implSteps, implRun, implStep, lineEnv, tidCall_of _ h0]

/-- **the excluded branch** — what the line would be without the call (the statement list of `Impl::Impl` with
`CurrentThread::tid();` taken out) on a thread that has run nothing of muduo: in place of the id, six bytes of the
zero-filled `t_tidString` (`t_tidStringLength` is statically 6), and the `assert` of `T` fails -/
theorem tid_field_without_call (z : Zone) (gen : Int) (c : TimeCache) (r : LogReq) :
    (∃ stamp rest, stamp.length = 17 + usWidth z ∧
      (logLineOf (implSteps.filter (· ≠ .callTid)) z gen c TidState.fresh r).text = stamp ++ List.replicate 6 0 ++ rest) ∧
    (logLineOf (implSteps.filter (· ≠ .callTid)) z gen c TidState.fresh r).asserts = false := by
  constructor
  · obtain ⟨tail, e⟩ := implRun_shape_nocall z (lineEnv z gen c TidState.fresh r)
    exact line_three _ z gen c TidState.fresh r _ (by decide)
      ⟨tail, by rw [e]; simp only [lineEnv, tidField_fresh.1]⟩
  · have hf : implSteps.filter (· ≠ .callTid) = [.formatTime, .ins [.tid], .ins [.level 6],
        .errnoIf [.errtext, .lit [32, 40, 101, 114, 114, 110, 111, 61], .errno, .lit [41, 32]]] := by decide
    have := tidField_fresh.2
    simp only [logLineOf]
    rw [hf]
    simp [implAsserts, implStep, lineEnv, this]

/-- **every kind of thread reaches its first log statement in a state `tid_field_true` covers**: the main thread (the
static initialiser called `tid()`), a `muduo::Thread` (`runInThread` calls it), a thread made with `pthread_create`
(nothing cached, or its own id when it called `tid()` itself), and the child of a `fork()` — whose cache, copied
from the forking thread with the *parent's* id in it, was reset and refilled by the registered `afterFork`
handler, so that the child's line carries the child's id -/
theorem entry_state_ok (tid : Int) (kind : ThreadKind) :
    (entryState tid kind).cached = 0 ∨ entryState tid kind = TidState.of tid := by
  cases kind with
  | main => right; show tidCall tid TidState.fresh = _; exact tidCall_empty tid _ rfl
  | muduoThread => right; show tidCall tid TidState.fresh = _; exact tidCall_empty tid _ rfl
  | foreign called =>
    cases called
    · left; rfl
    · right; show tidCall tid TidState.fresh = _; exact tidCall_empty tid _ rfl
  | forkChild ptid parent =>
    right
    have hr : atforkChildRegistered = true := by decide
    simp only [entryState, hr, if_true, afterForkSteps, tidRun, List.foldl_cons, List.foldl_nil, tidStep]
    exact tidCall_empty tid _ rfl

/-- **… on every kind of thread, also in a forked child**: the line of a thread of any kind carries that thread's
own id; for the child of a `fork()` this holds whatever the forking thread had cached (in particular its own,
different, id) -/
theorem tid_field_true_all_kinds (z : Zone) (gen : Int) (c : TimeCache) (r : LogReq) (kind : ThreadKind)
    (hpos : 0 < r.tid) (hmax : r.tid < 2 ^ 31) :
    ∃ stamp rest, stamp.length = 17 + usWidth z ∧
      (logLine z gen c (entryState r.tid kind) r).text = stamp ++ (fmtInt false 5 r.tid ++ [32]) ++ rest :=
  (tid_field_true z gen c _ r hpos hmax (entry_state_ok r.tid kind)).1

/-- the hypotheses are satisfiable, and the field is what one expects: thread 1234 that has cached nothing logs ` 1234 ` -/
example : ((logLine none 0 TimeCache.fresh TidState.fresh
    { level := 2, errno := 0, errText := [], func := none, file := [97], line := 1, tid := 1234, us := 1000000,
      msg := [] }).text.drop 26).take 6 = [32, 49, 50, 51, 52, 32] := by decide

/-! ## the time stamp -/

/-- one line: when the cached text is rebuilt, or was built for this second in the configured zone, the line starts
with the first 17 characters of `"%4d%02d%02d %02d:%02d:%02d"` of `toLocalTime` / `toUtcTime` of that second -/
theorem line_time_step (z : Zone) (gen : Int) (c : TimeCache) (t : TidState) (r : LogReq)
    (h : cacheMiss (splitSeconds r.us) c.lastSecond gen c.zoneGen ∨ c.text = secondText z (splitSeconds r.us)) :
    ∃ rest, (logLine z gen c t r).text = readN 17 (secondText z (splitSeconds r.us)) ++ rest := by
  have ht : (lineEnv z gen c t r).timeText = secondText z (splitSeconds r.us) := by
    simp only [lineEnv, cacheStep]
    by_cases hm : cacheMiss (splitSeconds r.us) c.lastSecond gen c.zoneGen
    · simp [hm]
    · simp [hm, h.resolve_left hm]
  obtain ⟨tail, e⟩ := implRun_shape z (lineEnv z gen c t r)
  simp only [logLine, logLineOf, lineItemsOf, e, List.cons_append, ht]
  rw [run_str _ _ _ (by simp [readN_length, avail, mkBuf, kSmallBuffer])]
  obtain ⟨more, em⟩ := run_prefix { mkBuf kSmallBuffer with data := (mkBuf kSmallBuffer).data ++ readN 17 (secondText z (splitSeconds r.us)) } _
  exact ⟨more, by rw [em]; simp [mkBuf]⟩

/-- **the time field of every line is the break-down of the logged instant in the zone that is configured when the
line is logged** — after any history of log statements and `Logger::setTimeZone` calls on the process, also when the
zone was changed inside the second the thread has cached (F18, repaired: `setTimeZone` bumps `g_logTimeZoneGen`, and
`formatTime` rebuilds the text when the second *or the generation* differs from what the thread cached).  Both for
the thread whose history `ops` is and for a thread that logs its first line at that moment (fresh cache). -/
theorem line_time (t : TidState) (ops : List LogOp) (r : LogReq)
    (hops : ∀ r', LogOp.log r' ∈ ops → splitSeconds r'.us ≠ 0) (hr : splitSeconds r.us ≠ 0) :
    let s := logAfter (LogState.init t) ops
    (∃ rest, (logLine s.zone s.gen s.cache s.tid r).text = readN 17 (secondText s.zone (splitSeconds r.us)) ++ rest) ∧
    (∀ t', ∃ rest, (logLine s.zone s.gen TimeCache.fresh t' r).text = readN 17 (secondText s.zone (splitSeconds r.us)) ++ rest) := by
  intro s
  have hinv : TimeInv s := timeInv_after ops (LogState.init t) (timeInv_init t) hops
  refine ⟨line_time_step _ _ _ _ _ ?_, fun t' => line_time_step _ _ _ _ _ (Or.inl ?_)⟩
  · exact timeInv_hit_or_miss s r hinv hr
  · exact cacheMiss_fresh _ _ hr

/-! ## formatSI / formatIEC -/

/-- **`formatSI` renders every `0 ≤ n < 2^63` in at most 5 characters** (on the exact model of the `int64 → double`
conversion, the correctly rounded division and `%.Nf`; the branch table is the extracted one) -/
theorem formatSI_width (n : Nat) (h : n < 2 ^ 63) : (formatSI n).length ≤ 5 := by
  unfold formatSI
  split
  · rename_i hlt
    have : n < 10 ^ (2 + 1) := by simp only [siIntBelow] at hlt; omega
    have := decimalNat_length_le 2 n this
    omega
  · exact siGo_length siTable (by decide +kernel) n h

/-- **`formatIEC` renders every `0 ≤ n < 2^63` in at most 6 characters** (all comparisons are made on the value
converted to `double`: a bound like `Pi*99.95` is itself a `double`, and the converted value below it is at most the
`double` in front of it) -/
theorem formatIEC_width (n : Nat) (h : n < 2 ^ 63) : (formatIEC n).length ≤ 6 := by
  unfold formatIEC
  split
  · rename_i hlt
    have h2 : n < 1024 := rnInt_lt_small n 1024 (by omega) (by simpa [iecIntBelow] using hlt)
    have := decimalNat_length_le 3 n (by omega)
    omega
  · exact iecGo_length_double iecTable iecTable_ok n (rnInt_le n _ (by omega) (rep_two_pow 63))

/-! ## statement order -/

/-- T1, statement order: in the functions of `LogStream.h` / `LogStream.cc` / `Logging.cc` the model implements
(`FixedBuffer::append` / `add` / `reset`, every insertion operator, `LogStream::append`, `convert`, `convertHex`,
`formatInteger`, `formatSI`, `formatIEC`, `Fmt`'s and `T`'s constructors, `Impl::formatTime`, `Impl::finish`,
`~Logger`; `Impl::Impl` itself is `implSteps`) the source performs the same stores (of the same expressions), engine
calls, libc calls, insertion chains (of the same pieces), assertions and returns, in the same order and under the same
nesting of the generated guards, table rows and digit loops as `Model/LogStream.lean`
(`Model/LogStreamSkelDecl.lean`); re-extracted from /repo on every run (`Generated/LogStreamSkel.lean`), proved in
`Proofs/LogStreamSkelTie.lean` -/
theorem statement_order_tied :
    Gen.LogStreamSkel.bufAppend = LogStreamSkel.Decl.bufAppend ∧
    Gen.LogStreamSkel.bufAdd = LogStreamSkel.Decl.bufAdd ∧
    Gen.LogStreamSkel.bufReset = LogStreamSkel.Decl.bufReset ∧
    Gen.LogStreamSkel.insBool = LogStreamSkel.Decl.insBool ∧
    Gen.LogStreamSkel.insFloat = LogStreamSkel.Decl.insFloat ∧
    Gen.LogStreamSkel.insChar = LogStreamSkel.Decl.insChar ∧
    Gen.LogStreamSkel.insCStr = LogStreamSkel.Decl.insCStr ∧
    Gen.LogStreamSkel.insUCStr = LogStreamSkel.Decl.insUCStr ∧
    Gen.LogStreamSkel.insString = LogStreamSkel.Decl.insString ∧
    Gen.LogStreamSkel.insPiece = LogStreamSkel.Decl.insPiece ∧
    Gen.LogStreamSkel.insBuffer = LogStreamSkel.Decl.insBuffer ∧
    Gen.LogStreamSkel.streamAppend = LogStreamSkel.Decl.streamAppend ∧
    Gen.LogStreamSkel.resetBuffer = LogStreamSkel.Decl.resetBuffer ∧
    Gen.LogStreamSkel.insFmt = LogStreamSkel.Decl.insFmt ∧
    Gen.LogStreamSkel.convert = LogStreamSkel.Decl.convert ∧
    Gen.LogStreamSkel.convertHex = LogStreamSkel.Decl.convertHex ∧
    Gen.LogStreamSkel.formatSI = LogStreamSkel.Decl.formatSI ∧
    Gen.LogStreamSkel.formatIEC = LogStreamSkel.Decl.formatIEC ∧
    Gen.LogStreamSkel.formatInteger = LogStreamSkel.Decl.formatInteger ∧
    Gen.LogStreamSkel.insShort = LogStreamSkel.Decl.insShort ∧
    Gen.LogStreamSkel.insUShort = LogStreamSkel.Decl.insUShort ∧
    Gen.LogStreamSkel.insInt = LogStreamSkel.Decl.insInteger ∧
    Gen.LogStreamSkel.insUInt = LogStreamSkel.Decl.insInteger ∧
    Gen.LogStreamSkel.insLong = LogStreamSkel.Decl.insInteger ∧
    Gen.LogStreamSkel.insULong = LogStreamSkel.Decl.insInteger ∧
    Gen.LogStreamSkel.insLongLong = LogStreamSkel.Decl.insInteger ∧
    Gen.LogStreamSkel.insULongLong = LogStreamSkel.Decl.insInteger ∧
    Gen.LogStreamSkel.insPointer = LogStreamSkel.Decl.insPointer ∧
    Gen.LogStreamSkel.insDouble = LogStreamSkel.Decl.insDouble ∧
    Gen.LogStreamSkel.fmtCtor = LogStreamSkel.Decl.fmtCtor ∧
    Gen.LogStreamSkel.tCtor = LogStreamSkel.Decl.tCtor ∧
    Gen.LogStreamSkel.insT = LogStreamSkel.Decl.insT ∧
    Gen.LogStreamSkel.insSourceFile = LogStreamSkel.Decl.insSourceFile ∧
    Gen.LogStreamSkel.formatTime = LogStreamSkel.Decl.formatTime ∧
    Gen.LogStreamSkel.finish = LogStreamSkel.Decl.finish ∧
    Gen.LogStreamSkel.loggerDtor = LogStreamSkel.Decl.loggerDtor :=
  LogStreamSkel.skeletons_agree

end MuduoVerif.C17

namespace MuduoVerif.C17

/-- **tid_cache_refresh_tied**: the functions behind the tid field of a log line do what `Model/LogStream.lean` takes
them to do (`tidCall`, `cacheTid`, `entryState`): `CurrentThread::tid()` calls `cacheTid()` exactly when the cached
number is 0 and returns the cached number; `cacheTid()` writes the number (`detail::gettid()` =
`syscall(SYS_gettid)`), its text (`snprintf` of THAT number into `t_tidString`) and the text's length together, under
one test; `detail::afterFork` - the `pthread_atfork` CHILD handler the static `ThreadNameInitializer` registers -
empties the cache and calls `tid()`, i.e. recomputes both cached forms (number AND text) through `cacheTid`, it does
not patch the number alone; a `muduo::Thread` fills its cache in `runInThread` before it runs anything else.
Statement skeletons re-extracted from /repo on every run (`Generated/ThreadSkel.lean`), equal to
`Model/ThreadSkelDecl.lean`. -/
theorem tid_cache_refresh_tied :
    Gen.ThreadSkel.tid = ThreadSkel.Decl.tid ∧
    Gen.ThreadSkel.cacheTid = ThreadSkel.Decl.cacheTid ∧
    Gen.ThreadSkel.gettid = ThreadSkel.Decl.gettid ∧
    Gen.ThreadSkel.afterFork = ThreadSkel.Decl.afterFork ∧
    Gen.ThreadSkel.threadNameInitializer = ThreadSkel.Decl.threadNameInitializer ∧
    Gen.ThreadSkel.runInThread = ThreadSkel.Decl.runInThread ∧
    Gen.ThreadSkel.isMainThread = ThreadSkel.Decl.isMainThread :=
  ⟨ThreadSkel.skeleton_tid, ThreadSkel.skeleton_cacheTid, ThreadSkel.skeleton_gettid, ThreadSkel.skeleton_afterFork,
   ThreadSkel.skeleton_threadNameInitializer, ThreadSkel.skeleton_runInThread, ThreadSkel.skeleton_isMainThread⟩

end MuduoVerif.C17
