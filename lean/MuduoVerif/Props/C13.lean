import MuduoVerif.Proofs.ConnCb
import MuduoVerif.Proofs.ConnBlocks
import MuduoVerif.Proofs.ConnSkelTie
/-!
# C13 — write-complete and high-water-mark callbacks track the unsent backlog exactly

Property theorems only (lemmas: `Proofs/ConnCb.lean`, `Proofs/ConnBlocks.lean`).
The backlog is `outBuf.length`.  A callback is *scheduled* by appending `Task.writeComplete` /
`Task.highWater n` to the loop's functor queue (`pending`) and *runs* when `runTask` reaches it
(event `wc` / `hwm n`).  The scheduling theorems hold for **every** state, block and kernel
answer — no reachability hypothesis — so they cover all send-size sequences, all marks
(0 and 1 included) and all acceptance patterns.

The branch guards (`hwmCross`, `sendWholeWC`, `drained`, `queueRest`, `directWrite`, …) are
extracted from `TcpConnection.cc` on every run; the `_iff` lemmas of `Proofs/ConnCb.lean`
re-prove their meaning, so `<` → `<=`, a dropped conjunct or a swapped operand in the source
breaks the build of this file.
-/
namespace MuduoVerif.C13
open MuduoVerif.Conn MuduoVerif.Gen.Conn

/-- **hwm_iff / wc (send side)**: `sendInLoop` schedules
* a write-complete callback iff the callback is set and the block was written directly and
  taken whole by the kernel (the backlog was and stays empty);
* a high-water callback iff the callback is set and this very send raised the backlog from
  below the mark to at least the mark — and its argument is the resulting backlog;
and nothing else -/
theorem send_schedules (c : Conn) (data : Bytes) (q : Bool) :
    let c' := sendInLoop c data q
    c'.pending = c.pending
      ++ (if c.hasWC = true ∧ c.st ≠ .kDisconnected ∧ c.ch.evWrite = false ∧ c.outBuf = []
            ∧ tookWhole (peekWrite c) data.length = true then [Task.writeComplete] else [])
      ++ (if c.hasHWM = true ∧ c.outBuf.length < c.mark ∧ c.mark ≤ c'.outBuf.length
            ∧ c.outBuf.length < c'.outBuf.length then [Task.highWater c'.outBuf.length] else []) :=
  sendInLoop_sched c data q

/-- the kernel "took the block whole": `write` returned at least its length -/
theorem tookWhole_iff (r : WriteRes) (len : Nat) : tookWhole r len = true ↔ ∃ n, r = .took n ∧ len ≤ n :=
  Conn.tookWhole_iff r len

/-- the backlog after a `send`: the part of the block the kernel did not take is appended;
nothing changes when the connection is down or a fatal error (`EPIPE`, `ECONNRESET`) occurred -/
theorem send_backlog (c : Conn) (data : Bytes) (q : Bool) :
    (sendInLoop c data q).outBuf =
      if c.st = .kDisconnected then c.outBuf
      else if c.ch.evWrite = false ∧ c.outBuf = [] then
        match peekWrite c with
        | .took k => c.outBuf ++ data.drop k
        | .err e => if fatalErr e then c.outBuf else c.outBuf ++ data
      else c.outBuf ++ data :=
  sendInLoop_backlog c data q

/-- **wc (drain side)**: a writable event schedules a write-complete callback iff the callback is
set and this write emptied a non-empty backlog; in that case, and only then, the deferred
half-close of a connection in `kDisconnecting` is queued behind it -/
theorem drain_schedules (c : Conn) (hne : c.outBuf ≠ []) :
    let c' := handleWrite c
    c'.pending = c.pending
      ++ (if c.hasWC = true ∧ c.ch.evWrite = true ∧ c'.outBuf = [] then [Task.writeComplete] else [])
      ++ (if (c.ch.evWrite = true ∧ c'.outBuf = []) ∧ c.st = .kDisconnecting then [Task.drainShutdownInLoop] else []) :=
  handleWrite_sched' c hne

/-- the same without the hypothesis, in terms of the kernel's answer -/
theorem drain_schedules_all (c : Conn) :
    (handleWrite c).pending = c.pending
      ++ (if c.hasWC = true ∧ drainsNow c = true then [Task.writeComplete] else [])
      ++ (if drainsNow c = true ∧ c.st = .kDisconnecting then [Task.drainShutdownInLoop] else []) :=
  handleWrite_sched c

/-- **hwm_not_again** (local form): right after a high-water callback was scheduled the backlog is
at or above the mark, and a send that finds the backlog at or above the mark schedules none -/
theorem hwm_not_again (c : Conn) (data : Bytes) (q : Bool) (h : c.mark ≤ c.outBuf.length) :
    ∀ n, Task.highWater n ∉ (sendInLoop c data q).pending.drop c.pending.length := by
  intro n
  have hs := sendInLoop_sched c data q
  simp only at hs
  rw [hs, List.append_assoc, List.drop_left]
  have : ¬ (c.hasHWM = true ∧ c.outBuf.length < c.mark ∧ c.mark ≤ (sendInLoop c data q).outBuf.length ∧
      c.outBuf.length < (sendInLoop c data q).outBuf.length) := by
    intro hh; omega
  rw [if_neg this]
  split <;> simp

/-- **deferred**: no user operation runs either callback inside the call; they are delivered only
by the loop when it reaches the queued functor -/
theorem deferred (c : Conn) (f : Bool) (a : Act) :
    (act c f a).trace.take c.trace.length = c.trace ∧
    ∀ e ∈ (act c f a).trace.drop c.trace.length, e ≠ .wc ∧ ∀ n, e ≠ .hwm n :=
  wc_hwm_only_via_queue c f a

/-- … and when the loop reaches it, the callback is the first thing that happens, with the
argument that was computed when it was scheduled -/
theorem delivered_by_loop (c : Conn) (n : Nat) (ha : c.alive = true) :
    (∃ s, (runTask c .writeComplete).trace = c.trace ++ Ev.wc :: s ∧ ∀ x ∈ s, x.isQueuedCb = false) ∧
    (∃ s, (runTask c (.highWater n)).trace = c.trace ++ Ev.hwm n :: s ∧ ∀ x ∈ s, x.isQueuedCb = false) :=
  ⟨runTask_wc c ha, runTask_hwm c n ha⟩

/-- no other functor runs either callback -/
theorem only_those_functors (c : Conn) (t : Task) (h1 : t ≠ .writeComplete) (h2 : ∀ n, t ≠ .highWater n) :
    TraceExt c (runTask c t) :=
  runTask_other_tx c t h1 h2

/-- **wc_needs_send**: in every history, the write-complete callbacks that ran, plus those queued,
plus one for a non-empty backlog (its drain will schedule one) never exceed the number of
accepted `send()`s: each is paid for by its own send, none comes without one -/
theorem wc_needs_send (c0 : Conn) (h0 : Fresh c0) (ins : List Input) (hne : ∀ i ∈ ins, i.notEstablish) :
    let c := run (step c0 .establish) ins
    wcRun c + wcQueued c + (if c.outBuf = [] then 0 else 1) ≤ c.blocks.length :=
  Conn.wc_needs_send c0 h0 ins hne

/-- the meaning of the extracted crossing test -/
theorem crossing_test (old rem mark : Nat) (has : Bool) :
    hwmCross old rem mark has ↔ (has = true ∧ old < mark ∧ mark ≤ old + rem) :=
  hwmCross_iff old rem mark has

/-- non-vacuity: mark 10, backlog 4, a send of 8 bytes none of which is written: `highWater 12` -/
example :
    let c : Conn := { st := .kConnected, mark := 10, outBuf := [0, 0, 0, 0], ch := { evWrite := true, evRead := true, slot := .added, watch := true } }
    (sendInLoop c [1, 2, 3, 4, 5, 6, 7, 8] false).pending = [Task.highWater 12] := by decide

/-- T1, statement order: in every `TcpConnection` member function the model implements (and in
`Channel::handleEventWithGuard`) the source performs the same significant actions - state stores, channel
operations, callbacks, hand-offs to the loop, member calls, system calls, buffer operations - in the same order
and under the same nesting of the generated guards as `Model/Conn.lean` (`Model/ConnSkelDecl.lean`); re-extracted
from /repo on every run (`Generated/ConnSkel.lean`), proved in `Proofs/ConnSkelTie.lean` -/
theorem statement_order_tied :
    Gen.ConnSkel.sendInLoop = ConnSkel.Decl.sendInLoop ∧
    Gen.ConnSkel.shutdown = ConnSkel.Decl.shutdown ∧
    Gen.ConnSkel.shutdownInLoop = ConnSkel.Decl.shutdownInLoop ∧
    Gen.ConnSkel.forceClose = ConnSkel.Decl.forceClose ∧
    Gen.ConnSkel.forceCloseWithDelay = ConnSkel.Decl.forceCloseWithDelay ∧
    Gen.ConnSkel.forceCloseInLoop = ConnSkel.Decl.forceCloseInLoop ∧
    Gen.ConnSkel.startReadInLoop = ConnSkel.Decl.startReadInLoop ∧
    Gen.ConnSkel.stopReadInLoop = ConnSkel.Decl.stopReadInLoop ∧
    Gen.ConnSkel.connectEstablished = ConnSkel.Decl.connectEstablished ∧
    Gen.ConnSkel.connectDestroyed = ConnSkel.Decl.connectDestroyed ∧
    Gen.ConnSkel.handleRead = ConnSkel.Decl.handleRead ∧
    Gen.ConnSkel.handleWrite = ConnSkel.Decl.handleWrite ∧
    Gen.ConnSkel.handleClose = ConnSkel.Decl.handleClose ∧
    Gen.ConnSkel.handleError = ConnSkel.Decl.handleError ∧
    Gen.ConnSkel.handleEventWithGuard = ConnSkel.Decl.handleEventWithGuard :=
  ConnSkel.skeletons_agree

end MuduoVerif.C13
