import MuduoVerif.Proofs.ConnCb
import MuduoVerif.Proofs.ConnBlocks
import MuduoVerif.Proofs.ConnSkelTie
/-!
# C13 — write-complete and high-water-mark callbacks track the unsent backlog exactly

Property theorems only (lemmas: `Proofs/ConnCb.lean`, `Proofs/ConnBlocks.lean`).
The backlog is `outBuf.length`.  A callback is *scheduled* by appending `Task.writeComplete cb` /
`Task.highWater cb n` to the loop's functor queue (`pending`) and *runs* when `runTask` reaches it
(event `wc k` / `hwm k n`).  `cb : Bound` is what the functor carries of the user's callback: `.val k` = a copy
of the `std::function` installed at that moment (identity `k`; `setWriteCompleteCallback` /
`setHighWaterMarkCallback(cb, mark)` are the operations `Act.setWc k` / `Act.setHwm k mark`, `k = 0` = empty),
`.ref` = a reference to the member, read when the functor runs.  Which of the two the source does is extracted
(`wcBindSend`, `wcBindDrain`, `hwmBind`); the theorems below need `byValue`.  The scheduling theorems hold for **every** state, block and kernel
answer — no reachability hypothesis — so they cover all send-size sequences, all marks
(0 and 1 included) and all acceptance patterns.

The branch guards (`hwmCross`, `sendWholeWC`, `drained`, `queueRest`, `directWrite`, …) are
extracted from `TcpConnection.cc` on every run; the `_iff` lemmas of `Proofs/ConnCb.lean`
re-prove their meaning, so `<` → `<=`, a dropped conjunct or a swapped operand in the source
breaks the build of this file.
-/
namespace MuduoVerif.C13
open MuduoVerif.Conn MuduoVerif.Gen.Conn

/-- **hwm_iff / wc (send side)**: `sendInLoop` schedules
* a write-complete callback iff the callback is set and the block was written directly and
  taken whole by the kernel (the backlog was and stays empty);
* a high-water callback iff the callback is set and this very send raised the backlog from
  below the mark to at least the mark — and its argument is the resulting backlog;
and nothing else; the functor carries a copy of the callback installed at this moment (`.val c.wcId` /
`.val c.hwmId`) and the mark is the one current at this moment (`c.mark`) -/
theorem send_schedules (c : Conn) (data : Bytes) (q : Bool) :
    let c' := sendInLoop c data q
    c'.pending = c.pending
      ++ (if c.hasWC = true ∧ c.st ≠ .kDisconnected ∧ c.ch.evWrite = false ∧ c.outBuf = []
            ∧ tookWhole (peekWrite c) data.length = true then [Task.writeComplete (.val c.wcId)] else [])
      ++ (if c.hasHWM = true ∧ c.outBuf.length < c.mark ∧ c.mark ≤ c'.outBuf.length
            ∧ c.outBuf.length < c'.outBuf.length then [Task.highWater (.val c.hwmId) c'.outBuf.length] else []) :=
  sendInLoop_sched c data q

/-- the kernel "took the block whole": `write` returned at least its length -/
theorem tookWhole_iff (r : WriteRes) (len : Nat) : tookWhole r len = true ↔ ∃ n, r = .took n ∧ len ≤ n :=
  Conn.tookWhole_iff r len

/-- the backlog after a `send`: the part of the block the kernel did not take is appended;
nothing changes when the connection is down or a fatal error (`EPIPE`, `ECONNRESET`) occurred -/
theorem send_backlog (c : Conn) (data : Bytes) (q : Bool) :
    (sendInLoop c data q).outBuf =
      if c.st = .kDisconnected then c.outBuf
      else if c.ch.evWrite = false ∧ c.outBuf = [] then
        match peekWrite c with
        | .took k => c.outBuf ++ data.drop k
        | .err e => if fatalErr e then c.outBuf else c.outBuf ++ data
      else c.outBuf ++ data :=
  sendInLoop_backlog c data q

/-- **wc (drain side)**: a writable event schedules a write-complete callback iff the callback is
set and this write emptied a non-empty backlog; in that case, and only then, the deferred
half-close of a connection in `kDisconnecting` is queued behind it -/
theorem drain_schedules (c : Conn) (hne : c.outBuf ≠ []) :
    let c' := handleWrite c
    c'.pending = c.pending
      ++ (if c.hasWC = true ∧ c.ch.evWrite = true ∧ c'.outBuf = [] then [Task.writeComplete (.val c.wcId)] else [])
      ++ (if (c.ch.evWrite = true ∧ c'.outBuf = []) ∧ c.st = .kDisconnecting then [Task.drainShutdownInLoop] else []) :=
  handleWrite_sched' c hne

/-- the same without the hypothesis, in terms of the kernel's answer -/
theorem drain_schedules_all (c : Conn) :
    (handleWrite c).pending = c.pending
      ++ (if c.hasWC = true ∧ drainsNow c = true then [Task.writeComplete (.val c.wcId)] else [])
      ++ (if drainsNow c = true ∧ c.st = .kDisconnecting then [Task.drainShutdownInLoop] else []) :=
  handleWrite_sched c

/-- **hwm_not_again** (local form): right after a high-water callback was scheduled the backlog is
at or above the mark, and a send that finds the backlog at or above the mark schedules none -/
theorem hwm_not_again (c : Conn) (data : Bytes) (q : Bool) (h : c.mark ≤ c.outBuf.length) :
    ∀ b n, Task.highWater b n ∉ (sendInLoop c data q).pending.drop c.pending.length := by
  intro b n
  have hs := sendInLoop_sched c data q
  simp only at hs
  rw [hs, List.append_assoc, List.drop_left]
  have : ¬ (c.hasHWM = true ∧ c.outBuf.length < c.mark ∧ c.mark ≤ (sendInLoop c data q).outBuf.length ∧
      c.outBuf.length < (sendInLoop c data q).outBuf.length) := by
    intro hh; omega
  rw [if_neg this]
  split <;> simp

/-- **deferred**: no user operation runs either callback inside the call; they are delivered only
by the loop when it reaches the queued functor -/
theorem deferred (c : Conn) (f : Bool) (a : Act) :
    (act c f a).trace.take c.trace.length = c.trace ∧
    ∀ e ∈ (act c f a).trace.drop c.trace.length, (∀ k, e ≠ .wc k) ∧ ∀ k n, e ≠ .hwm k n :=
  wc_hwm_only_via_queue c f a

/-- … and when the loop reaches it, the callback is the first thing that happens, with the
argument that was computed when it was scheduled; the callback invoked is the one the functor carries
(`Bound.resolve`: the copy, or - for a functor that holds a reference - whatever is installed now) -/
theorem delivered_by_loop (c : Conn) (b : Bound) (n : Nat) (ha : c.alive = true) :
    (∃ s, (runTask c (.writeComplete b)).trace = c.trace ++ Ev.wc (b.resolve c.wcId) :: s ∧ ∀ x ∈ s, x.isQueuedCb = false) ∧
    (∃ s, (runTask c (.highWater b n)).trace = c.trace ++ Ev.hwm (b.resolve c.hwmId) n :: s ∧ ∀ x ∈ s, x.isQueuedCb = false) :=
  ⟨runTask_wc c b ha, runTask_hwm c b n ha⟩

/-- T1: at all three sites (`sendInLoop` x2, `handleWrite`) the notification functor is bound with a COPY of the
user's callback (`std::bind(&notify.., weak, callback_member, ..)`), not with `std::ref/std::cref` of the member
or a lambda that reads it later -/
theorem callbacks_bound_by_value : wcBindSend = .byValue ∧ wcBindDrain = .byValue ∧ hwmBind = .byValue :=
  ⟨rfl, rfl, rfl⟩

/-- **delivered_is_scheduled_callback**: the callback that a notification delivers is the one that was
installed when the notification was SCHEDULED, whatever `setWriteCompleteCallback` /
`setHighWaterMarkCallback` calls (from the loop thread, from inside callbacks) happen before it is delivered:
(1) every notification functor `sendInLoop` / `handleWrite` queue carries the identity installed in the state
they ran in; (2) whenever the loop later runs such a functor - in ANY state `c'`, i.e. with any callbacks
installed, removed (`0`) or marks changed since - exactly that identity is invoked, first thing, with the
argument computed at scheduling time -/
theorem delivered_is_scheduled_callback :
    (∀ (c : Conn) (data : Bytes) (q : Bool), ∀ t ∈ (sendInLoop c data q).pending.drop c.pending.length,
        t = .writeComplete (.val c.wcId) ∨ t = .highWater (.val c.hwmId) (sendInLoop c data q).outBuf.length) ∧
    (∀ (c : Conn), ∀ t ∈ (handleWrite c).pending.drop c.pending.length,
        t = .writeComplete (.val c.wcId) ∨ t = .drainShutdownInLoop) ∧
    (∀ (c' : Conn) (k n : Nat), c'.alive = true →
      (∃ s, (runTask c' (.writeComplete (.val k))).trace = c'.trace ++ Ev.wc k :: s ∧ ∀ x ∈ s, x.isQueuedCb = false) ∧
      (∃ s, (runTask c' (.highWater (.val k) n)).trace = c'.trace ++ Ev.hwm k n :: s ∧ ∀ x ∈ s, x.isQueuedCb = false)) := by
  refine ⟨?_, ?_, ?_⟩
  · intro c data q t ht
    have hs := send_schedules c data q
    simp only at hs
    rw [hs, List.append_assoc, List.drop_left] at ht
    rcases List.mem_append.mp ht with h | h
    · split at h
      · exact Or.inl (List.mem_singleton.mp h)
      · cases h
    · split at h
      · exact Or.inr (List.mem_singleton.mp h)
      · cases h
  · intro c t ht
    have hs : (handleWrite c).pending = _ := handleWrite_sched c
    rw [hs, List.append_assoc, List.drop_left] at ht
    rcases List.mem_append.mp ht with h | h
    · split at h
      · exact Or.inl (List.mem_singleton.mp h)
      · cases h
    · split at h
      · exact Or.inr (List.mem_singleton.mp h)
      · cases h
  · intro c' k n ha
    exact ⟨runTask_wc c' (.val k) ha, runTask_hwm c' (.val k) n ha⟩

/-- installing a callback (and a mark) takes effect for what is scheduled FROM NOW ON and touches nothing that
is already queued: the functor queue, the backlog and the trace are unchanged -/
theorem set_callback_frame (c : Conn) (f : Bool) :
    (∀ k, (act c f (.setWc k)).pending = c.pending ∧ (act c f (.setWc k)).batch = c.batch
        ∧ (act c f (.setWc k)).outBuf = c.outBuf ∧ (act c f (.setWc k)).trace = c.trace
        ∧ (act c f (.setWc k)).wcId = k ∧ (act c f (.setWc k)).hasWC = decide (k ≠ 0)) ∧
    (∀ k m, (act c f (.setHwm k m)).pending = c.pending ∧ (act c f (.setHwm k m)).batch = c.batch
        ∧ (act c f (.setHwm k m)).outBuf = c.outBuf ∧ (act c f (.setHwm k m)).trace = c.trace
        ∧ (act c f (.setHwm k m)).hwmId = k ∧ (act c f (.setHwm k m)).hasHWM = decide (k ≠ 0)
        ∧ (act c f (.setHwm k m)).mark = m) :=
  ⟨fun _ => ⟨rfl, rfl, rfl, rfl, rfl, rfl⟩, fun _ _ => ⟨rfl, rfl, rfl, rfl, rfl, rfl, rfl⟩⟩

/-- **hwm_uses_current_mark**: after `setHighWaterMarkCallback(k, m)` the next send reports a crossing iff a
callback was installed (`k ≠ 0`) and THIS send raised the backlog from below the NEW mark `m` to at least `m`;
the functor carries `k` and the new backlog -/
theorem hwm_uses_current_mark (c : Conn) (f : Bool) (k m : Nat) (data : Bytes) (q : Bool) :
    let c' := sendInLoop (act c f (.setHwm k m)) data q
    ∀ b n, Task.highWater b n ∈ c'.pending.drop c.pending.length ↔
      (k ≠ 0 ∧ c.outBuf.length < m ∧ m ≤ c'.outBuf.length ∧ c.outBuf.length < c'.outBuf.length
        ∧ b = .val k ∧ n = c'.outBuf.length) := by
  intro c' b n
  have hs := send_schedules (act c f (.setHwm k m)) data q
  simp only at hs
  have e1 : (act c f (.setHwm k m)).pending = c.pending := rfl
  have e2 : (act c f (.setHwm k m)).outBuf = c.outBuf := rfl
  have e3 : (act c f (.setHwm k m)).mark = m := rfl
  have e4 : (act c f (.setHwm k m)).hwmId = k := rfl
  have e5 : (act c f (.setHwm k m)).hasHWM = decide (k ≠ 0) := rfl
  show Task.highWater b n ∈ (sendInLoop (act c f (.setHwm k m)) data q).pending.drop c.pending.length ↔ _
  rw [hs, e1, e2, e3, e4, e5, List.append_assoc, List.drop_left]
  constructor
  · intro h
    rcases List.mem_append.mp h with h | h
    · split at h
      · have := List.mem_singleton.mp h; cases this
      · cases h
    · split at h
      · rename_i hc
        have := List.mem_singleton.mp h
        injection this with hb hn
        exact ⟨by simpa using hc.1, hc.2.1, hc.2.2.1, hc.2.2.2, hb, hn⟩
      · cases h
  · rintro ⟨hk, h1, h2, h3, hb, hn⟩
    apply List.mem_append_right
    rw [if_pos ⟨by simpa using hk, h1, h2, h3⟩, hb, hn]
    exact List.mem_singleton.mpr rfl

/-- no other functor runs either callback -/
theorem only_those_functors (c : Conn) (t : Task) (h1 : ∀ b, t ≠ .writeComplete b) (h2 : ∀ b n, t ≠ .highWater b n) :
    TraceExt c (runTask c t) :=
  runTask_other_tx c t h1 h2

/-- **wc_needs_send**: in every history, the write-complete callbacks that ran, plus those queued,
plus one for a non-empty backlog (its drain will schedule one) never exceed the number of
accepted `send()`s: each is paid for by its own send, none comes without one -/
theorem wc_needs_send (c0 : Conn) (h0 : Fresh c0) (ins : List Input) (hne : ∀ i ∈ ins, i.notEstablish) :
    let c := run (step c0 .establish) ins
    wcRun c + wcQueued c + (if c.outBuf = [] then 0 else 1) ≤ c.blocks.length :=
  Conn.wc_needs_send c0 h0 ins hne

/-- the meaning of the extracted crossing test -/
theorem crossing_test (old rem mark : Nat) (has : Bool) :
    hwmCross old rem mark has ↔ (has = true ∧ old < mark ∧ mark ≤ old + rem) :=
  hwmCross_iff old rem mark has

/-- non-vacuity: mark 10, backlog 4, a send of 8 bytes none of which is written: `highWater 12` -/
example :
    let c : Conn := { st := .kConnected, mark := 10, outBuf := [0, 0, 0, 0], ch := { evWrite := true, evRead := true, slot := .added, watch := true } }
    (sendInLoop c [1, 2, 3, 4, 5, 6, 7, 8] false).pending = [Task.highWater (.val 1) 12] := by decide

/-- non-vacuity of `delivered_is_scheduled_callback`: a send taken whole schedules the write-complete callback
installed then (1); another one (2) - or none (0) - is installed before the loop runs its functors; (1) is
delivered.  High-water: callback 1 with mark 5 is crossed (backlog 8); callback 2 with mark 100 is installed
before delivery; (1) is told about 8 -/
example :
    (run (step {} .establish) [.envWrite (.took 3), .act false (.send [1, 2, 3]), .act false (.setWc 2), .iter []]).trace
      = [.up, .sysWrite 3 (.took 3), .wc 1] ∧
    (run (step {} .establish) [.envWrite (.took 3), .act false (.send [1, 2, 3]), .act false (.setWc 0), .iter []]).trace
      = [.up, .sysWrite 3 (.took 3), .wc 1] ∧
    (run (step {} .establish) [.act false (.setHwm 1 5), .envWrite (.err 11), .act false (.send [1, 2, 3, 4, 5, 6, 7, 8]),
        .act false (.setHwm 2 100), .iter []]).trace
      = [.up, .sysWrite 8 (.err 11), .hwm 1 8] ∧
    -- … while what is scheduled afterwards uses the new callback and the new mark
    (run (step {} .establish) [.act false (.setHwm 1 5), .envWrite (.err 11), .act false (.send [1, 2, 3, 4, 5, 6, 7, 8]),
        .act false (.setHwm 2 10), .act false (.send [9, 9]), .iter []]).trace
      = [.up, .sysWrite 8 (.err 11), .hwm 1 8, .hwm 2 10] := by decide

/-- T1, statement order: in every `TcpConnection` member function the model implements (and in
`Channel::handleEventWithGuard`) the source performs the same significant actions - state stores, channel
operations, callbacks, hand-offs to the loop, member calls, system calls, buffer operations - in the same order
and under the same nesting of the generated guards as `Model/Conn.lean` (`Model/ConnSkelDecl.lean`); re-extracted
from /repo on every run (`Generated/ConnSkel.lean`), proved in `Proofs/ConnSkelTie.lean` -/
theorem statement_order_tied :
    Gen.ConnSkel.sendInLoop = ConnSkel.Decl.sendInLoop ∧
    Gen.ConnSkel.shutdown = ConnSkel.Decl.shutdown ∧
    Gen.ConnSkel.shutdownInLoop = ConnSkel.Decl.shutdownInLoop ∧
    Gen.ConnSkel.forceClose = ConnSkel.Decl.forceClose ∧
    Gen.ConnSkel.forceCloseWithDelay = ConnSkel.Decl.forceCloseWithDelay ∧
    Gen.ConnSkel.forceCloseInLoop = ConnSkel.Decl.forceCloseInLoop ∧
    Gen.ConnSkel.startReadInLoop = ConnSkel.Decl.startReadInLoop ∧
    Gen.ConnSkel.stopReadInLoop = ConnSkel.Decl.stopReadInLoop ∧
    Gen.ConnSkel.connectEstablished = ConnSkel.Decl.connectEstablished ∧
    Gen.ConnSkel.connectDestroyed = ConnSkel.Decl.connectDestroyed ∧
    Gen.ConnSkel.handleRead = ConnSkel.Decl.handleRead ∧
    Gen.ConnSkel.handleWrite = ConnSkel.Decl.handleWrite ∧
    Gen.ConnSkel.handleClose = ConnSkel.Decl.handleClose ∧
    Gen.ConnSkel.handleError = ConnSkel.Decl.handleError ∧
    Gen.ConnSkel.handleEventWithGuard = ConnSkel.Decl.handleEventWithGuard :=
  ConnSkel.skeletons_agree

/-- T1, the functions that deliver the two notifications: `notifyWriteComplete` / `notifyHighWaterMark` lock the
weak pointer, call the bound callback only if the connection still exists, with the connection (and the bound
backlog) as arguments, and do nothing else; the default callbacks do what the model assumes (`defaultConnectionCallback`
leaves the connection alone, `defaultMessageCallback` drops everything that was read) -/
theorem notification_trampolines_tied :
    notifyLocks = true ∧
    Gen.ConnSkel.notifyWriteComplete = ConnSkel.Decl.notifyWriteComplete ∧
    Gen.ConnSkel.notifyHighWaterMark = ConnSkel.Decl.notifyHighWaterMark ∧
    Gen.ConnSkel.weakCallbackCall = ConnSkel.Decl.weakCallbackCall ∧
    Gen.ConnSkel.defaultConnectionCallback = ConnSkel.Decl.defaultConnectionCallback ∧
    Gen.ConnSkel.defaultMessageCallback = ConnSkel.Decl.defaultMessageCallback :=
  ⟨rfl, ConnSkel.trampolines_agree⟩

end MuduoVerif.C13
