import MuduoVerif.Model.Rpc
/-! C19 (placeholder while the proofs are being written) -/
namespace MuduoVerif.C19
open MuduoVerif.Rpc MuduoVerif.Gen.Rpc

theorem tie_locks : callInsertUnderLock = true ∧ respLookupUnderLock = true ∧ respRunOutsideLock = true ∧ callSendOutsideLock = true := by
  decide

end MuduoVerif.C19
