import MuduoVerif.Proofs.RpcLife
import MuduoVerif.Proofs.RpcSkelTie
import MuduoVerif.Proofs.RpcLock
/-!
# C19 — every RPC completes exactly once with the response that carries its own id

Property theorems only (lemmas: `Proofs/Rpc.lean`, `RpcCall.lean`, `RpcResp.lean` - the state invariant
`CallInv`; `RpcOnce.lean` - the trace invariant `TraceInv`; `RpcServe.lean` - the serving side `SrvInv`;
`RpcLife.lean` - halting, done-callbacks, destructor, `RpcServer`; `RpcShape.lean` - closed forms of the
REQUEST branch and the specification `expected` of the reply; `RpcLock.lean` - the machine with the mutex
and chained calls of `Model/RpcLock.lean`: refinement, lock invariant; theorems in the last section).

Quantification: `reach asserts hasServices acts` is the channel after **any** list `acts` of the model's
atomic steps (`Model/Rpc.lean`): any number of `CallMethod` calls, each split into id fetch / insert under
the lock / send, interleaved in any way with each other (= any number of calling threads) and with the loop
thread's steps; arriving messages of every type with any id (answers in any order, duplicated, never sent,
for ids not handed out yet or never), with payload, unparsable payload, error, both, neither; requests for
known / unknown services and methods with parsable / unparsable payload, answered inside `CallMethod` or
later (`fireDone`, at any time, any number of times); both build flavours (`asserts`), channels with and
without services.  Steps that the code cannot take in a state (a `callSend` before its `callInsert`, a
`recv` while the loop thread is between its critical section and the completion) are no-ops of the model,
so arbitrary lists are exactly the interleavings.

The log is newest-first: in `log = post ++ e :: pre` the events of `pre` happened before `e`, those of
`post` after it.
-/
namespace MuduoVerif.C19
open MuduoVerif.Rpc MuduoVerif.Gen.Rpc

/-- the channel after a history of atomic steps -/
abbrev reach (asserts hasServices : Bool) (acts : List Act) : Chan := run asserts hasServices acts

/-- the lock scopes the atomic steps of the model stand for (extracted from the source) -/
theorem tie_locks : callInsertUnderLock = true ∧ respLookupUnderLock = true ∧ respRunOutsideLock = true ∧ callSendOutsideLock = true := by
  decide

/-- T1, statement order: in `~RpcChannel`, `CallMethod`, `onMessage`, `onRpcMessage` (RESPONSE, REQUEST and ERROR
branch), `doneCallback` and `RpcServer::onConnection` the source performs the same significant actions - id fetch,
field sets of the outgoing frames, insert / erase on `outstandings_`, sends, parses, allocations, `unique_ptr` scopes,
`delete`s, `Run()`, `service->CallMethod`, stores, assertions - in the same order and under the same nesting of the
same sites (generated guards, `MutexLockGuard` scopes, the destructor's loop) as `Model/Rpc.lean`
(`Model/RpcSkelDecl.lean`); re-extracted from /repo on every run (`Generated/RpcSkel.lean`), proved in
`Proofs/RpcSkelTie.lean` -/
theorem statement_order_tied :
    Gen.RpcSkel.dtor = RpcSkel.Decl.dtor ∧
    Gen.RpcSkel.callMethod = RpcSkel.Decl.callMethod ∧
    Gen.RpcSkel.onMessage = RpcSkel.Decl.onMessage ∧
    Gen.RpcSkel.onRpcMessage = RpcSkel.Decl.onRpcMessage ∧
    Gen.RpcSkel.doneCallback = RpcSkel.Decl.doneCallback ∧
    Gen.RpcSkel.onConnection = RpcSkel.Decl.onConnection :=
  RpcSkel.skeletons_agree

/-- the RESPONSE branch asserts nothing about the peer's message (T1: `respAssert` is re-extracted from
`RpcChannel::onRpcMessage` on every run; with the `assert(has_response || has_error)` that finding C19-F1 was
about, this theorem - and with it `complete_once` - does not compile) -/
theorem assert_removed : ∀ a b : Bool, respAssert a b := fun _ _ => trivial

section
variable (asserts hs : Bool) (acts : List Act)

/-- the model's process never stops: no assertion of the channel can fail on any input, in either flavour -/
theorem never_halts : (reach asserts hs acts).halted = false ∧ Ev.abort ∉ (reach asserts hs acts).log := by
  have hi : HaltInv (reach asserts hs acts) := HaltInv.run asserts hs acts
  have hh : (reach asserts hs acts).halted = false := by
    cases h : (reach asserts hs acts).halted with
    | false => rfl
    | true =>
      obtain ⟨_, _, m, _, _, _, hw⟩ := hi.halt h
      exact absurd (assert_removed _ _) hw
  exact ⟨hh, hi.noAbort hh⟩

/-- **ids_unique**: the ids handed out on a channel are pairwise distinct, for any number of calling
threads; they are positive; a REQUEST frame carries the id of its call; two frames with the same id
belong to the same call; a call sends at most one frame -/
theorem ids_unique :
    (∀ j k, j < (reach asserts hs acts).nextCall → k < (reach asserts hs acts).nextCall → j ≠ k →
      (reach asserts hs acts).idOf j ≠ (reach asserts hs acts).idOf k) ∧
    (∀ k, k < (reach asserts hs acts).nextCall →
      1 ≤ (reach asserts hs acts).idOf k ∧ (reach asserts hs acts).idOf k ≤ (reach asserts hs acts).counter) ∧
    (∀ i k, Ev.sent i k ∈ (reach asserts hs acts).log →
      i = (reach asserts hs acts).idOf k ∧ k < (reach asserts hs acts).nextCall) ∧
    (∀ i j k, Ev.sent i j ∈ (reach asserts hs acts).log → Ev.sent i k ∈ (reach asserts hs acts).log → j = k) ∧
    (∀ k, sentCount k (reach asserts hs acts).log ≤ 1) := by
  have inv : CallInv (reach asserts hs acts) := CallInv.run asserts hs acts
  have ti : TraceInv (reach asserts hs acts) := TraceInv.run asserts hs acts
  have hw : ∀ i k, Ev.sent i k ∈ (reach asserts hs acts).log →
      i = (reach asserts hs acts).idOf k ∧ k < (reach asserts hs acts).nextCall := by
    intro i k h
    obtain ⟨a, b⟩ := inv.wire i k h
    exact ⟨a, inv.alive k (by rw [b]; simp)⟩
  refine ⟨?_, inv.idpos, hw, ?_, ?_⟩
  · intro j k hj hk hne he
    exact hne (inv.inj j k hj hk he)
  · intro i j k h1 h2
    obtain ⟨a1, b1⟩ := hw i j h1
    obtain ⟨a2, b2⟩ := hw i k h2
    exact inv.inj j k b1 b2 (a1.symm.trans a2)
  · intro k
    rw [ti.sentOnce k]
    split <;> omega

/-- **complete_once**, the direction that needs no hypothesis: a closure runs at most once -/
theorem complete_at_most_once (k : Nat) : ranCount k (reach asserts hs acts).log ≤ 1 :=
  ((CallInv.run asserts hs acts).once k).1

/-- **complete_once**, "with its own response": whenever the closure of call `k` runs, the message that
made it run is a RESPONSE carrying the id of call `k`, it is the message that arrived last before the
closure ran, and what the closure finds in its response object is the parsed payload of that very
message (nothing, if the message has no payload or the payload does not parse) -/
theorem complete_with_own_response (post pre : List Ev) (k i : Nat) (v : Option Nat)
    (h : (reach asserts hs acts).log = post ++ Ev.ran k i v :: pre) :
    i = (reach asserts hs acts).idOf k ∧
    ∃ m mid pre', pre = mid ++ Ev.arrived m :: pre' ∧ m.type = .RESPONSE ∧ m.id = i ∧
      v = m.payload.bind Body.parse ∧ ∀ e ∈ mid, e.isArrived = false := by
  have inv : CallInv (reach asserts hs acts) := CallInv.run asserts hs acts
  have ti : TraceInv (reach asserts hs acts) := TraceInv.run asserts hs acts
  refine ⟨(inv.own k i v (by rw [h]; simp)).1, ?_⟩
  obtain ⟨m, mid, pre', a, b, c, d, e⟩ := ti.cause post pre k i v h
  exact ⟨m, mid, pre', a, b, c, by rw [d, view_eq], e⟩

/-- **complete_once**, "exactly once if a response with its id arrives", in both build flavours and for
every RESPONSE (with payload, unparsable payload, error, both, neither).  A RESPONSE `m` arrives after the
REQUEST frame of call `k` left with the id `m` carries.  Then the closure of `k` has run exactly once (or
the loop thread stands between its critical section and the completion of `k`); and if `m` is the first
such response, the closure ran after this arrival with the payload of `m` (or the loop thread is about to
run it with `m`) -/
theorem complete_once (post pre : List Ev) (m : Msg) (k : Nat)
    (h : (reach asserts hs acts).log = post ++ Ev.arrived m :: pre) (ht : m.type = .RESPONSE)
    (hs' : Ev.sent m.id k ∈ pre) :
    (ranCount k (reach asserts hs acts).log = 1 ∨ ∃ m', (reach asserts hs acts).pending = some (k, m')) ∧
    (ranCount k pre = 0 →
      (Ev.ran k m.id (m.payload.bind Body.parse) ∈ post ∧ ranCount k (reach asserts hs acts).log = 1) ∨
      (reach asserts hs acts).pending = some (k, m)) := by
  have inv : CallInv (reach asserts hs acts) := CallInv.run asserts hs acts
  have ti : TraceInv (reach asserts hs acts) := TraceInv.run asserts hs acts
  have hle := (inv.once k).1
  have hw' : (reach asserts hs acts).asserts = false ∨ respAssert m.payload.isSome m.err.isSome :=
    Or.inr (assert_removed _ _)
  have hfirst : ranCount k pre = 0 →
      (Ev.ran k m.id (m.payload.bind Body.parse) ∈ post ∧ ranCount k (reach asserts hs acts).log = 1) ∨
      (reach asserts hs acts).pending = some (k, m) := by
    intro hr
    rcases ti.first post pre m k h ht hs' hr hw' with h1 | h1
    · left
      rw [view_eq] at h1
      refine ⟨h1, ?_⟩
      have : 0 < ranCount k (reach asserts hs acts).log := by
        unfold ranCount
        rw [List.countP_pos_iff]
        exact ⟨_, by rw [h]; exact List.mem_append_left _ h1, by simp [isRan]⟩
      omega
    · exact Or.inr h1
  refine ⟨?_, hfirst⟩
  by_cases hr : ranCount k pre = 0
  · rcases hfirst hr with h1 | h1
    · exact Or.inl h1.2
    · exact Or.inr ⟨m, h1⟩
  · left
    have : ranCount k pre ≤ ranCount k (reach asserts hs acts).log := by
      rw [h]
      unfold ranCount
      rw [List.countP_append, List.countP_cons]
      omega
    omega

/-- **complete_once**, one message at a time: in any reachable state in which the loop thread is idle, a
RESPONSE whose id is that of a registered call `k` that has not completed - whether its REQUEST frame has
left already or not - completes exactly that call: the entry is erased, the payload is parsed into the
response object of `k` (if the message has one), the closure of `k` runs once and sees the parsed payload,
the response object is freed once; no other call is affected -/
theorem response_completes (m : Msg) (k : Nat) (ht : m.type = .RESPONSE)
    (hp : (reach asserts hs acts).pending = none)
    (hk : Registered (reach asserts hs acts) k) (hid : (reach asserts hs acts).idOf k = m.id)
    (hr : ranCount k (reach asserts hs acts).log = 0) :
    (reach asserts hs (acts ++ [.recv m, .finish])).log =
      Ev.free (.resp k) :: Ev.ran k m.id (m.payload.bind Body.parse) ::
        ((if m.payload.isSome then [Ev.parse k] else []) ++ Ev.arrived m :: (reach asserts hs acts).log) ∧
    (reach asserts hs (acts ++ [.recv m, .finish])).outstanding = eraseKey m.id (reach asserts hs acts).outstanding ∧
    (reach asserts hs (acts ++ [.recv m, .finish])).pending = none ∧
    (∀ j, ranCount j (reach asserts hs (acts ++ [.recv m, .finish])).log =
      (if j = k then 1 else 0) + ranCount j (reach asserts hs acts).log) ∧
    (∀ j, freeCount j (reach asserts hs (acts ++ [.recv m, .finish])).log =
      (if j = k then 1 else 0) + freeCount j (reach asserts hs acts).log) := by
  have inv : CallInv (reach asserts hs acts) := CallInv.run asserts hs acts
  have hlook : lookup m.id (reach asserts hs acts).outstanding = some k := by
    rw [← hid]; exact inv.reg k hk hr (by rw [hp]; simp)
  have hh : (reach asserts hs acts).halted = false := (never_halts asserts hs acts).1
  have hrun : reach asserts hs (acts ++ [.recv m, .finish]) = step (step (reach asserts hs acts) (.recv m)) .finish := by
    simp [reach, run, List.foldl_append]
  rw [hrun]
  generalize reach asserts hs acts = s at hh hp hlook ⊢
  have hc : ¬ (s.asserts = true ∧ ¬ respAssert m.payload.isSome m.err.isSome) :=
    fun h => h.2 (assert_removed _ _)
  have h1 : step s (.recv m) = { s with outstanding := eraseKey m.id s.outstanding, pending := some (k, m), log := Ev.arrived m :: s.log } := by
    simp only [step, hh, recv, hp, (typeSwitch_response _).mpr ht, recvResponse, hlook, erases_eq]
    simp [hc]
  have h2 : step (step s (.recv m)) .finish =
      { s with outstanding := eraseKey m.id s.outstanding
               pending := none
               log := Ev.free (.resp k) :: Ev.ran k m.id (m.payload.bind Body.parse) ::
                        ((if m.payload.isSome then [Ev.parse k] else []) ++ Ev.arrived m :: s.log) } := by
    rw [h1]
    simp [step, hh, finish, runCount_eq, freeCount_eq, view_eq, respParses]
  rw [h2]
  have ht' : ∀ e ∈ (if m.payload.isSome then [Ev.parse k] else []), e = Ev.parse k := by
    intro e he
    split at he
    · simpa using he
    · cases he
  refine ⟨rfl, rfl, rfl, fun j => ?_, fun j => ?_⟩
  · have := (counts_finish k j m.id (m.payload.bind Body.parse) _ (Ev.arrived m :: s.log) ht').1
    rw [ranCount_cons_foreign j (Ev.arrived m) _ rfl] at this
    exact this
  · have := (counts_finish k j m.id (m.payload.bind Body.parse) _ (Ev.arrived m :: s.log) ht').2
    rw [freeCount_cons_foreign j (Ev.arrived m) _ rfl] at this
    exact this

/-- what a **bare RESPONSE** does (neither payload nor error - the message finding C19-F1 was about), in
both flavours: it is an answer like any other; the call with its id completes, its closure runs once and
finds the response object untouched (nothing is parsed into it), the object is freed once -/
theorem bare_response_completes (m : Msg) (k : Nat) (ht : m.type = .RESPONSE)
    (hbare : m.payload = none ∧ m.err = none)
    (hp : (reach asserts hs acts).pending = none)
    (hk : Registered (reach asserts hs acts) k) (hid : (reach asserts hs acts).idOf k = m.id)
    (hr : ranCount k (reach asserts hs acts).log = 0) :
    (reach asserts hs (acts ++ [.recv m, .finish])).log =
      Ev.free (.resp k) :: Ev.ran k m.id none :: Ev.arrived m :: (reach asserts hs acts).log ∧
    (reach asserts hs (acts ++ [.recv m, .finish])).halted = false ∧
    ranCount k (reach asserts hs (acts ++ [.recv m, .finish])).log = 1 ∧
    freeCount k (reach asserts hs (acts ++ [.recv m, .finish])).log = 1 := by
  obtain ⟨h1, _, _, h4, h5⟩ := response_completes asserts hs acts m k ht hp hk hid hr
  have inv : CallInv (reach asserts hs acts) := CallInv.run asserts hs acts
  have hf0 : freeCount k (reach asserts hs acts).log = 0 :=
    (inv.out ((reach asserts hs acts).idOf k) k (inv.reg k hk hr (by rw [hp]; simp))).2.2.2.1
  refine ⟨?_, (never_halts asserts hs _).1, ?_, ?_⟩
  · rw [h1]; simp [hbare.1]
  · rw [h4 k, hr]; simp
  · rw [h5 k, hf0]; simp

/-- **no_foreign_completion**: the loop thread is idle and a RESPONSE arrives whose id is unknown (no
registered call has it: never handed out, not inserted yet, foreign) or already consumed (the call with
this id has completed).  Handling it (`recv` and the completion step) logs the arrival and nothing else -
no closure runs, nothing is parsed into, nothing is freed - and `outstandings_` is left as it was -/
theorem no_foreign_completion (m : Msg) (ht : m.type = .RESPONSE)
    (hp : (reach asserts hs acts).pending = none)
    (hun : ∀ k, Registered (reach asserts hs acts) k → (reach asserts hs acts).idOf k = m.id →
      1 ≤ ranCount k (reach asserts hs acts).log) :
    (reach asserts hs (acts ++ [.recv m, .finish])).log = Ev.arrived m :: (reach asserts hs acts).log ∧
    (reach asserts hs (acts ++ [.recv m, .finish])).outstanding = (reach asserts hs acts).outstanding ∧
    (reach asserts hs (acts ++ [.recv m, .finish])).pending = none ∧
    (∀ k, ranCount k (reach asserts hs (acts ++ [.recv m, .finish])).log = ranCount k (reach asserts hs acts).log) ∧
    (∀ k, freeCount k (reach asserts hs (acts ++ [.recv m, .finish])).log = freeCount k (reach asserts hs acts).log) := by
  have inv : CallInv (reach asserts hs acts) := CallInv.run asserts hs acts
  have hh : (reach asserts hs acts).halted = false := (never_halts asserts hs acts).1
  have hlook : lookup m.id (reach asserts hs acts).outstanding = none := by
    cases hl : lookup m.id (reach asserts hs acts).outstanding with
    | none => rfl
    | some k =>
      obtain ⟨a, b, c, _⟩ := inv.out m.id k hl
      have := hun k b a
      omega
  have hrun : reach asserts hs (acts ++ [.recv m, .finish]) = step (step (reach asserts hs acts) (.recv m)) .finish := by
    simp [reach, run, List.foldl_append]
  rw [hrun]
  generalize reach asserts hs acts = s at hp hh hlook ⊢
  have hc : ¬ (s.asserts = true ∧ ¬ respAssert m.payload.isSome m.err.isSome) :=
    fun h => h.2 (assert_removed _ _)
  have h1 : step s (.recv m) = { s with log := Ev.arrived m :: s.log } := by
    simp only [step, hh, recv, hp, (typeSwitch_response _).mpr ht, recvResponse, hlook]
    simp [hc]
  have h2 : step (step s (.recv m)) .finish = { s with log := Ev.arrived m :: s.log } := by
    rw [h1]
    simp [step, hh, finish, hp]
  rw [h2]
  exact ⟨rfl, rfl, hp, fun k => ranCount_cons_foreign k _ _ rfl, fun k => freeCount_cons_foreign k _ _ rfl⟩

/-- **no double free, no use after free** (the heap-cell events of the model): the response object of a
call is freed at most once - exactly when its closure has run -; after the free no event touches it (no
parse, no closure run, no second free, no use); the caller side never uses a dead object at all -/
theorem no_double_free_no_use_after_free :
    (∀ k, freeCount k (reach asserts hs acts).log ≤ 1) ∧
    (∀ k, freeCount k (reach asserts hs acts).log = ranCount k (reach asserts hs acts).log) ∧
    (∀ post pre k, (reach asserts hs acts).log = post ++ Ev.free (.resp k) :: pre → ∀ e ∈ post, touches k e = false) ∧
    (∀ c, Ev.uaf c ∈ (reach asserts hs acts).log → ∃ r, c = .closure r) := by
  have inv : CallInv (reach asserts hs acts) := CallInv.run asserts hs acts
  have ti : TraceInv (reach asserts hs acts) := TraceInv.run asserts hs acts
  exact ⟨fun k => (inv.once k).2, ti.freeEq, ti.afterFree, ti.noUaf⟩

/-- `~RpcChannel` (on the loop thread, between two messages): destructor and completions together free the
response object of every registered call exactly once, and of no other call -/
theorem destroy_frees_once (hp : (reach asserts hs acts).pending = none) (k : Nat) :
    freeCount k (destroyEvents (reach asserts hs acts)) + freeCount k (reach asserts hs acts).log =
      if Registered (reach asserts hs acts) k then 1 else 0 :=
  Rpc.destroy_frees_once (CallInv.run asserts hs acts) (TraceInv.run asserts hs acts) hp k

/-- **outstanding_exact**: `outstandings_` maps `i` to call `k` exactly when `k` fetched the id `i`, was
inserted, has not completed and is not being completed by the loop thread right now; no key occurs twice,
so the list is that map -/
theorem outstanding_exact :
    (∀ i k, lookup i (reach asserts hs acts).outstanding = some k ↔
      ((reach asserts hs acts).idOf k = i ∧ Registered (reach asserts hs acts) k ∧
       ranCount k (reach asserts hs acts).log = 0 ∧ ∀ m, (reach asserts hs acts).pending ≠ some (k, m))) ∧
    ((reach asserts hs acts).outstanding.map Prod.fst).Nodup ∧
    (∀ i k, (i, k) ∈ (reach asserts hs acts).outstanding ↔ lookup i (reach asserts hs acts).outstanding = some k) := by
  have inv : CallInv (reach asserts hs acts) := CallInv.run asserts hs acts
  have ti : TraceInv (reach asserts hs acts) := TraceInv.run asserts hs acts
  refine ⟨?_, ti.keys, ?_⟩
  · intro i k
    constructor
    · intro h
      obtain ⟨a, b, c, _, e⟩ := inv.out i k h
      exact ⟨a, b, c, e⟩
    · rintro ⟨a, b, c, e⟩
      rw [← a]
      exact inv.reg k b c e
  · intro i k
    exact ⟨lookup_of_mem _ ti.keys i k, mem_of_lookup _ i k⟩

/-- a call that is registered has either completed, or is being completed, or is in `outstandings_`:
an inserted call is never lost -/
theorem registered_accounted (k : Nat) (h : Registered (reach asserts hs acts) k) :
    ranCount k (reach asserts hs acts).log = 1 ∨ (∃ m, (reach asserts hs acts).pending = some (k, m)) ∨
    lookup ((reach asserts hs acts).idOf k) (reach asserts hs acts).outstanding = some k := by
  have inv : CallInv (reach asserts hs acts) := CallInv.run asserts hs acts
  by_cases hr : ranCount k (reach asserts hs acts).log = 0
  · by_cases hp : ∃ m, (reach asserts hs acts).pending = some (k, m)
    · exact Or.inr (Or.inl hp)
    · exact Or.inr (Or.inr (inv.reg k h hr (fun m hm => hp ⟨m, hm⟩)))
  · have := (inv.once k).1
    left; omega

/-- **one_reply**.  Request number `r` (the `r`-th REQUEST the channel handled) was the message `m`.
Hypothesis on the service (`ServiceDoneOnce`): it invokes a done-callback only while it holds it.  Then:
the channel has sent at most one RESPONSE for `r`; exactly one unless the service still holds the
done-callback (possible only for a valid request to a method that answers later); every RESPONSE for `r`
carries the id of `m` and is the reply `expected` demands (`expected_spec`: the service's answer, or
NO_SERVICE / NO_METHOD / INVALID_REQUEST); the service was called exactly once if the request is valid,
else not at all, with the parsed request; the reply's response object is freed at most once; no
done-callback is used after it deleted itself -/
theorem one_reply (hsvc : ServiceDoneOnce asserts hs acts) (r : Nat) (m : Msg)
    (hr : (reach asserts hs acts).reqs r = some m) :
    replyCount r (reach asserts hs acts).log ≤ 1 ∧
    (held r (reach asserts hs acts).closures = 0 → replyCount r (reach asserts hs acts).log = 1) ∧
    (held r (reach asserts hs acts).closures ≠ 0 → m.meth = some .defer ∧ (expected hs m).1.isSome = true) ∧
    (∀ id p e, Ev.reply r id p e ∈ (reach asserts hs acts).log → id = m.id ∧ (p, e) = expected hs m) ∧
    dispatchCount r (reach asserts hs acts).log = (if (expected hs m).1.isSome then 1 else 0) ∧
    (∀ p, Ev.dispatch r p ∈ (reach asserts hs acts).log → m.request.parse = some p) ∧
    freeSrvCount r (reach asserts hs acts).log ≤ 1 ∧
    (∀ c, Ev.uaf c ∉ (reach asserts hs acts).log) := by
  have si : SrvInv (reach asserts hs acts) := SrvInv.run asserts hs acts
  have hhs : (reach asserts hs acts).hasServices = hs := (run_consts asserts hs acts).2
  have hlt := si.lt_of_req hr
  have hone := si.one r hlt
  have hd := si.disp r m hr
  rw [hhs] at hd
  refine ⟨by omega, fun h => by omega, ?_, ?_, hd.1, hd.2, ?_, no_uaf_run asserts hs acts hsvc⟩
  · intro h
    have hpos : 0 < held r (reach asserts hs acts).closures := by omega
    unfold held at hpos
    rw [List.countP_pos_iff] at hpos
    obtain ⟨c, hc, hcr⟩ := hpos
    have hcr' : c.1 = r := by simpa using hcr
    obtain ⟨m', a, _, c', d⟩ := si.clos c hc
    rw [hcr', hr] at a
    injection a with a
    subst a
    rw [hhs] at c'
    exact ⟨d, by rw [c']; rfl⟩
  · intro id p e he
    obtain ⟨m', a, b, c⟩ := si.rep r id p e he
    rw [hr] at a
    injection a with a
    subst a
    rw [hhs] at c
    exact ⟨b, c.symm⟩
  · have := si.freeSrv r
    omega

/-- the part of `one_reply` that does not need the hypothesis on the service: in the model a second
invocation of a done-callback is a use-after-free event, not a second reply -/
theorem at_most_one_reply (r : Nat) : replyCount r (reach asserts hs acts).log ≤ 1 := by
  have si : SrvInv (reach asserts hs acts) := SrvInv.run asserts hs acts
  by_cases hlt : r < (reach asserts hs acts).nextReq
  · have := si.one r hlt; omega
  · have := (si.unborn r (by omega)).2.1; omega

/-- every REQUEST the channel handled has a request number (so `one_reply` speaks about every request),
and the numbered requests are exactly the REQUESTs that arrived -/
theorem requests_numbered :
    (∀ m, Ev.arrived m ∈ (reach asserts hs acts).log → m.type = .REQUEST → ∃ r, (reach asserts hs acts).reqs r = some m) ∧
    (∀ r m, (reach asserts hs acts).reqs r = some m →
      r < (reach asserts hs acts).nextReq ∧ m.type = .REQUEST ∧ Ev.arrived m ∈ (reach asserts hs acts).log) := by
  have si : SrvInv (reach asserts hs acts) := SrvInv.run asserts hs acts
  refine ⟨si.numbered, ?_⟩
  intro r m h
  have hlt := si.lt_of_req h
  obtain ⟨m', a, b, c⟩ := si.known r hlt
  rw [h] at a
  injection a with a
  subst a
  exact ⟨hlt, b, c⟩

end

/-- what `expected` says, case by case: no services or unknown service → NO_SERVICE; unknown method →
NO_METHOD; request does not parse → INVALID_REQUEST; else the service's answer to the parsed request -/
theorem expected_spec (hs : Bool) (m : Msg) :
    ((hs = false ∨ m.serviceFound = false) → expected hs m = (none, some .NO_SERVICE)) ∧
    (hs = true → m.serviceFound = true → m.meth = none → expected hs m = (none, some .NO_METHOD)) ∧
    (hs = true → m.serviceFound = true → m.meth.isSome = true → m.request.parse = none →
      expected hs m = (none, some .INVALID_REQUEST)) ∧
    (∀ p, hs = true → m.serviceFound = true → m.meth.isSome = true → m.request.parse = some p →
      expected hs m = (some p, none)) := by
  obtain ⟨ty, id, pl, er, sf, me, rq⟩ := m
  cases hs <;> cases sf <;> cases me <;> cases rq <;> simp [expected, Body.parse]

/-- `RpcServer`: after any history of connections coming up, going down and channel steps, a connection
has at most one channel, and that channel is a reachable state of a channel with services - every theorem
above holds for it; a step on one connection leaves every other connection's channel alone -/
theorem server_channels (asserts : Bool) (ops : List SrvOp) :
    ((Server.runOps asserts ops).chans.map Prod.fst).Nodup ∧
    (∀ c ch, (Server.runOps asserts ops).chan? c = some ch → ∃ acts, ch = reach asserts true acts) ∧
    (∀ c c' a, c' ≠ c → ((Server.runOps asserts ops).act c a).chan? c' = (Server.runOps asserts ops).chan? c') := by
  have h := ServerInv.runOps asserts ops
  refine ⟨h.one, ?_, fun c c' a hne => Server.act_other _ c c' a hne⟩
  intro c ch hc
  unfold Server.chan? at hc
  cases hf : (Server.runOps asserts ops).chans.find? (fun e => e.1 = c) with
  | none => rw [hf] at hc; cases hc
  | some e =>
    rw [hf] at hc
    injection hc with hc
    obtain ⟨acts, ha⟩ := h.reach e (List.mem_of_find?_eq_some hf)
    exact ⟨acts, by rw [← hc]; exact ha⟩

/-! ### finding C19-F1 (repaired): a bare RESPONSE used to abort an asserts-on build -/

/-- corpus/C19/F1-bare-response-asserts.case (and bare-response-ndebug.case): two calls; a RESPONSE for
id 1 with neither payload nor error; a good RESPONSE for id 2 -/
def f1Acts : List Act :=
  [.callBegin, .callInsert 0, .callSend 0, .callBegin, .callInsert 1, .callSend 1,
   .recv { type := .RESPONSE, id := 1 }, .finish,
   .recv { type := .RESPONSE, id := 2, payload := some (.ok 5) }, .finish]

/-- the witness of the old defect on the model, now in both flavours alike: nothing halts, both calls
complete once - the first with an untouched response object -, nothing stays registered -/
theorem f1_witness_passes (asserts : Bool) :
    (reach asserts false f1Acts).halted = false ∧
    Ev.ran 0 1 none ∈ (reach asserts false f1Acts).log ∧ Ev.ran 1 2 (some 5) ∈ (reach asserts false f1Acts).log ∧
    ranCount 0 (reach asserts false f1Acts).log = 1 ∧ ranCount 1 (reach asserts false f1Acts).log = 1 ∧
    (reach asserts false f1Acts).outstanding = [] := by
  cases asserts <;> decide

/-! ### the hypotheses are satisfiable, the statements are not vacuous -/

/-- `complete_once` on the corpus case in the build with `assert`: the first call is completed by the bare
response with id 1 (the closure sees nothing), the second by the response with id 2, with payload 5 -/
example : ∃ post pre m k, (reach true false f1Acts).log = post ++ Ev.arrived m :: pre ∧ m.type = .RESPONSE ∧
    Ev.sent m.id k ∈ pre ∧ ranCount k pre = 0 ∧ ¬ m.wellFormed ∧ Ev.ran k m.id none ∈ post :=
  ⟨[.free (.resp 1), .ran 1 2 (some 5), .parse 1, .arrived { type := .RESPONSE, id := 2, payload := some (.ok 5) },
     .free (.resp 0), .ran 0 1 none],
    [.sent 2 1, .sent 1 0], { type := .RESPONSE, id := 1 }, 0,
    by decide, rfl, by decide, by decide, by decide, by decide⟩

example : ∃ post pre m k, (reach true false f1Acts).log = post ++ Ev.arrived m :: pre ∧ m.type = .RESPONSE ∧
    Ev.sent m.id k ∈ pre ∧ ranCount k pre = 0 ∧ m.wellFormed ∧ Ev.ran k m.id (some 5) ∈ post :=
  ⟨[.free (.resp 1), .ran 1 2 (some 5), .parse 1],
    [.free (.resp 0), .ran 0 1 none, .arrived { type := .RESPONSE, id := 1 }, .sent 2 1, .sent 1 0],
    { type := .RESPONSE, id := 2, payload := some (.ok 5) }, 1,
    by decide, rfl, by decide, by decide, by decide, by decide⟩

/-- `response_completes` / `bare_response_completes` apply to a call that is inserted but whose REQUEST
frame has not left yet (the peer guessed the id) -/
example : Registered (reach true false [.callBegin, .callInsert 0]) 0 ∧
    (reach true false [.callBegin, .callInsert 0]).idOf 0 = 1 ∧
    ranCount 0 (reach true false [.callBegin, .callInsert 0]).log = 0 ∧
    (reach true false [.callBegin, .callInsert 0]).pending = none ∧
    (reach true false [.callBegin, .callInsert 0]).halted = false ∧
    Ev.sent 1 0 ∉ (reach true false [.callBegin, .callInsert 0]).log := by
  decide

/-- a duplicate of an answered id and an id that was never handed out satisfy the hypothesis of
`no_foreign_completion` -/
example : (reach true false f1Acts).pending = none ∧
    ∀ i, i = 2 ∨ i = 7 → ∀ k, k < 2 → Registered (reach true false f1Acts) k → (reach true false f1Acts).idOf k = i →
      1 ≤ ranCount k (reach true false f1Acts).log := by
  refine ⟨by decide, ?_⟩
  intro i hi k hk
  have : k = 0 ∨ k = 1 := by omega
  rcases this with h | h <;> subst h <;> rcases hi with h | h <;> subst h <;> decide

/-- a server history: a synchronous request, a deferred one answered later, an unknown method -/
def srvActs : List Act :=
  [.recv { type := .REQUEST, id := 7, serviceFound := true, meth := some .sync, request := .ok 100 },
   .recv { type := .REQUEST, id := 7, serviceFound := true, meth := some .defer, request := .ok 101 },
   .recv { type := .REQUEST, id := 9, serviceFound := true, meth := none, request := .ok 103 },
   .fireDone 1]

example : ServiceDoneOnce true true srvActs := by
  intro pre r post h
  unfold srvActs at h
  rcases cons_split h with ⟨_, h2, _⟩ | ⟨p1, e1, h⟩
  · cases h2
  rcases cons_split h with ⟨_, h2, _⟩ | ⟨p2, e2, h⟩
  · cases h2
  rcases cons_split h with ⟨_, h2, _⟩ | ⟨p3, e3, h⟩
  · cases h2
  rcases cons_split h with ⟨e4, h2, _⟩ | ⟨p4, e4, h⟩
  · injection h2 with h2
    subst h2
    rw [e1, e2, e3, e4]
    decide
  · simp at h

example : (reach true true srvActs).log =
    [.free (.srvResp 1), .reply 1 7 (some 101) none,
     .reply 2 9 none (some .NO_METHOD), .arrived { type := .REQUEST, id := 9, serviceFound := true, meth := none, request := .ok 103 },
     .dispatch 1 101, .arrived { type := .REQUEST, id := 7, serviceFound := true, meth := some .defer, request := .ok 101 },
     .free (.srvResp 0), .reply 0 7 (some 100) none, .dispatch 0 100,
     .arrived { type := .REQUEST, id := 7, serviceFound := true, meth := some .sync, request := .ok 100 }] := by
  decide

/-- a second invocation of a done-callback violates `ServiceDoneOnce`, and the model shows the use after free -/
example : ¬ ServiceDoneOnce true true (srvActs ++ [.fireDone 1]) ∧
    Ev.uaf (.closure 1) ∈ (reach true true (srvActs ++ [.fireDone 1])).log := by
  refine ⟨?_, by decide⟩
  intro h
  have := h srvActs 1 [] rfl
  revert this
  decide

/-! ### the channel's mutex; completion closures that call back into their own channel (chained calls)

`Model/RpcLock.lean`: the machine `LChan` = the channel of `Model/Rpc.lean` + `held` (the loop thread keeps `mutex_` beyond
an atomic step - decided by the extracted lock scope of the RESPONSE branch) + the effect of a running closure (it may
issue `CallMethod` on its own channel: `chainBegin` · `chainInsert` · `chainSend`, any number of times, while other
threads' steps interleave) + the outcome `deadlocked`.  `lreach asserts hasServices acts` quantifies over **any** list of
its steps. -/

/-- the channel with its mutex after a history in which completion closures may call back into their channel -/
abbrev lreach (asserts hasServices : Bool) (acts : List LAct) : LChan := lrun asserts hasServices acts

section
variable (asserts hs : Bool) (acts : List LAct)

/-- **refinement**: whatever the closures do to their channel and however the mutex delays the other threads, the channel is
in a state that `Model/Rpc.lean` reaches by some history of its own steps (a chained call's steps are call steps; a
blocked or disabled step is no step) -/
theorem locked_refines : ∃ base, (lreach asserts hs acts).ch = reach asserts hs base :=
  lrun_refines asserts hs acts

/-- ... hence every statement proved for all histories of `Model/Rpc.lean` - every theorem above - holds for all
histories with chained calls -/
theorem chained_histories_inherit (P : Chan → Prop) (h : ∀ base, P (reach asserts hs base)) :
    P (lreach asserts hs acts).ch := by
  obtain ⟨base, hb⟩ := locked_refines asserts hs acts
  rw [hb]; exact h base

/-- **closure_runs_unlocked** (T1: `respLookupUnderLock`, `respRunOutsideLock` are re-extracted from
`RpcChannel::onRpcMessage` on every run; with a guard whose scope covers the completion the first conjunct - and with it
`Proofs/RpcLock.lean` - does not compile): the lock scope of the RESPONSE branch ends before parse and `Run()`; in every
reachable state the loop thread does not hold `mutex_` between two steps - in particular not while a completion closure
runs (from the look-up that found the call to the closure's return) -; nothing is ever deadlocked -/
theorem closure_runs_unlocked :
    lockHeldIntoCompletion = false ∧
    (lreach asserts hs acts).held = false ∧
    (∀ k m, (lreach asserts hs acts).ch.pending = some (k, m) → (lreach asserts hs acts).held = false) ∧
    (lreach asserts hs acts).deadlocked = false :=
  ⟨lockHeldIntoCompletion_eq, (LockInv.run asserts hs acts).unlocked, fun _ _ _ => (LockInv.run asserts hs acts).unlocked,
   (LockInv.run asserts hs acts).live⟩

/-- **chained_call_registers**: the loop thread is running the closure of call `k` (it found `k` for the message `m` and has
not finished it) and the closure is not inside `CallMethod` already.  The closure issues a call on its own channel
(`chainOnce` = id fetch, insert under the lock, send).  Then: nothing deadlocks and the lock is free again; the new call is
call number `nextCall`, recorded as chained by `k`; it got the id `counter + 1`, which no earlier call has; the ids of the
earlier calls are untouched; it is registered: `outstandings_` maps its id to it and is otherwise unchanged; its REQUEST
frame left (the only new event); the completion of `k` is still in progress, with the same message; the new call's closure
has not run -/
theorem chained_call_registers (k : Nat) (m : Msg)
    (hp : (lreach asserts hs acts).ch.pending = some (k, m)) (hc : (lreach asserts hs acts).chain = none) :
    (lreach asserts hs (acts ++ chainOnce)).deadlocked = false ∧
    (lreach asserts hs (acts ++ chainOnce)).held = false ∧
    (lreach asserts hs (acts ++ chainOnce)).chain = none ∧
    (lreach asserts hs (acts ++ chainOnce)).chained =
      ((lreach asserts hs acts).ch.nextCall, k) :: (lreach asserts hs acts).chained ∧
    (lreach asserts hs (acts ++ chainOnce)).ch.nextCall = (lreach asserts hs acts).ch.nextCall + 1 ∧
    (lreach asserts hs (acts ++ chainOnce)).ch.idOf (lreach asserts hs acts).ch.nextCall = (lreach asserts hs acts).ch.counter + 1 ∧
    (∀ j, j < (lreach asserts hs acts).ch.nextCall →
      (lreach asserts hs (acts ++ chainOnce)).ch.idOf j = (lreach asserts hs acts).ch.idOf j ∧
      (lreach asserts hs acts).ch.idOf j ≠ (lreach asserts hs acts).ch.counter + 1) ∧
    Registered (lreach asserts hs (acts ++ chainOnce)).ch (lreach asserts hs acts).ch.nextCall ∧
    (∀ i, lookup i (lreach asserts hs (acts ++ chainOnce)).ch.outstanding =
      if i = (lreach asserts hs acts).ch.counter + 1 then some (lreach asserts hs acts).ch.nextCall
      else lookup i (lreach asserts hs acts).ch.outstanding) ∧
    (lreach asserts hs (acts ++ chainOnce)).ch.log =
      Ev.sent ((lreach asserts hs acts).ch.counter + 1) (lreach asserts hs acts).ch.nextCall :: (lreach asserts hs acts).ch.log ∧
    (lreach asserts hs (acts ++ chainOnce)).ch.pending = some (k, m) ∧
    ranCount (lreach asserts hs acts).ch.nextCall (lreach asserts hs (acts ++ chainOnce)).ch.log = 0 := by
  have hl := LockInv.run asserts hs acts
  obtain ⟨base, hb⟩ := locked_refines asserts hs acts
  have inv : CallInv (lreach asserts hs acts).ch := by rw [hb]; exact CallInv.run asserts hs base
  have hh : (lreach asserts hs acts).ch.halted = false := by rw [hb]; exact (never_halts asserts hs base).1
  have happ : lreach asserts hs (acts ++ chainOnce) = chainOnce.foldl lstep (lreach asserts hs acts) := by
    simp [lreach, lrun, List.foldl_append]
  rw [happ]
  simp only [lreach] at *
  generalize lrun asserts hs acts = s at *
  rw [chainOnce_eq hl.live hh hl.unlocked hp hc]
  have hborn := inv.born s.ch.nextCall (Nat.le_refl _)
  have hfr := inv.fresh s.ch.nextCall (by simp [Registered, hborn])
  refine ⟨hl.live, hl.unlocked, rfl, rfl, rfl, by simp [setAt_same], ?_, ?_, ?_, rfl, hp, ?_⟩
  · intro j hj
    have := inv.idpos j hj
    refine ⟨by simp [setAt, Nat.ne_of_lt hj], by omega⟩
  · right; simp [setAt_same]
  · intro i
    simp only [lookup_insertKey]
    by_cases h : i = s.ch.counter + 1
    · simp [h]
    · have : ¬ s.ch.counter + 1 = i := fun h' => h h'.symm
      simp [h, this]
  · show ranCount s.ch.nextCall (Ev.sent _ _ :: s.ch.log) = 0
    rw [ranCount_cons_foreign _ _ _ rfl]; exact hfr.1


/-- **chained histories**: `ids_unique`, `complete_at_most_once`, `complete_with_own_response`, `complete_once`,
`no_double_free_no_use_after_free` and `outstanding_exact` for every history in which closures call back into their channel
(the chained calls are calls like any other: they get ids of their own, complete once, with their own response) -/
theorem chained_histories :
    ((∀ j k, j < (lreach asserts hs acts).ch.nextCall → k < (lreach asserts hs acts).ch.nextCall → j ≠ k →
        (lreach asserts hs acts).ch.idOf j ≠ (lreach asserts hs acts).ch.idOf k) ∧
      (∀ i j k, Ev.sent i j ∈ (lreach asserts hs acts).ch.log → Ev.sent i k ∈ (lreach asserts hs acts).ch.log → j = k) ∧
      (∀ k, sentCount k (lreach asserts hs acts).ch.log ≤ 1)) ∧
    (∀ k, ranCount k (lreach asserts hs acts).ch.log ≤ 1) ∧
    (∀ post pre k i v, (lreach asserts hs acts).ch.log = post ++ Ev.ran k i v :: pre →
      i = (lreach asserts hs acts).ch.idOf k ∧
      ∃ m mid pre', pre = mid ++ Ev.arrived m :: pre' ∧ m.type = .RESPONSE ∧ m.id = i ∧
        v = m.payload.bind Body.parse ∧ ∀ e ∈ mid, e.isArrived = false) ∧
    (∀ post pre m k, (lreach asserts hs acts).ch.log = post ++ Ev.arrived m :: pre → m.type = .RESPONSE →
      Ev.sent m.id k ∈ pre →
      (ranCount k (lreach asserts hs acts).ch.log = 1 ∨ ∃ m', (lreach asserts hs acts).ch.pending = some (k, m')) ∧
      (ranCount k pre = 0 →
        (Ev.ran k m.id (m.payload.bind Body.parse) ∈ post ∧ ranCount k (lreach asserts hs acts).ch.log = 1) ∨
        (lreach asserts hs acts).ch.pending = some (k, m))) ∧
    ((∀ k, freeCount k (lreach asserts hs acts).ch.log = ranCount k (lreach asserts hs acts).ch.log) ∧
      (∀ c, Ev.uaf c ∈ (lreach asserts hs acts).ch.log → ∃ r, c = .closure r)) ∧
    ((∀ i k, lookup i (lreach asserts hs acts).ch.outstanding = some k ↔
        ((lreach asserts hs acts).ch.idOf k = i ∧ Registered (lreach asserts hs acts).ch k ∧
         ranCount k (lreach asserts hs acts).ch.log = 0 ∧ ∀ m, (lreach asserts hs acts).ch.pending ≠ some (k, m))) ∧
      ((lreach asserts hs acts).ch.outstanding.map Prod.fst).Nodup) := by
  refine chained_histories_inherit asserts hs acts (fun c =>
    ((∀ j k, j < c.nextCall → k < c.nextCall → j ≠ k → c.idOf j ≠ c.idOf k) ∧
      (∀ i j k, Ev.sent i j ∈ c.log → Ev.sent i k ∈ c.log → j = k) ∧ (∀ k, sentCount k c.log ≤ 1)) ∧
    (∀ k, ranCount k c.log ≤ 1) ∧
    (∀ post pre k i v, c.log = post ++ Ev.ran k i v :: pre → i = c.idOf k ∧
      ∃ m mid pre', pre = mid ++ Ev.arrived m :: pre' ∧ m.type = .RESPONSE ∧ m.id = i ∧
        v = m.payload.bind Body.parse ∧ ∀ e ∈ mid, e.isArrived = false) ∧
    (∀ post pre m k, c.log = post ++ Ev.arrived m :: pre → m.type = .RESPONSE → Ev.sent m.id k ∈ pre →
      (ranCount k c.log = 1 ∨ ∃ m', c.pending = some (k, m')) ∧
      (ranCount k pre = 0 →
        (Ev.ran k m.id (m.payload.bind Body.parse) ∈ post ∧ ranCount k c.log = 1) ∨ c.pending = some (k, m))) ∧
    ((∀ k, freeCount k c.log = ranCount k c.log) ∧ (∀ c', Ev.uaf c' ∈ c.log → ∃ r, c' = .closure r)) ∧
    ((∀ i k, lookup i c.outstanding = some k ↔
        (c.idOf k = i ∧ Registered c k ∧ ranCount k c.log = 0 ∧ ∀ m, c.pending ≠ some (k, m))) ∧
      (c.outstanding.map Prod.fst).Nodup)) ?_
  intro base
  have hu := ids_unique asserts hs base
  have hf := no_double_free_no_use_after_free asserts hs base
  have ho := outstanding_exact asserts hs base
  exact ⟨⟨hu.1, hu.2.2.2.1, hu.2.2.2.2⟩, complete_at_most_once asserts hs base,
    fun post pre k i v h => complete_with_own_response asserts hs base post pre k i v h,
    fun post pre m k h ht hs' => complete_once asserts hs base post pre m k h ht hs',
    ⟨hf.2.1, hf.2.2.2⟩, ⟨ho.1, ho.2.1⟩⟩

/-- `response_completes` for the machine with the mutex: a RESPONSE for a registered call that has not completed - a
chained one (`chained_call_registers` puts it into this state) or any other - handled by an idle loop thread runs exactly
that call's closure once, with the message's payload, and leaves the lock free -/
theorem chained_call_completes (m : Msg) (k : Nat) (ht : m.type = .RESPONSE)
    (hp : (lreach asserts hs acts).ch.pending = none) (hc : (lreach asserts hs acts).chain = none)
    (hk : Registered (lreach asserts hs acts).ch k) (hid : (lreach asserts hs acts).ch.idOf k = m.id)
    (hr : ranCount k (lreach asserts hs acts).ch.log = 0) :
    (lreach asserts hs (acts ++ [.base (.recv m), .base .finish])).ch.log =
      Ev.free (.resp k) :: Ev.ran k m.id (m.payload.bind Body.parse) ::
        ((if m.payload.isSome then [Ev.parse k] else []) ++ Ev.arrived m :: (lreach asserts hs acts).ch.log) ∧
    (lreach asserts hs (acts ++ [.base (.recv m), .base .finish])).ch.outstanding =
      eraseKey m.id (lreach asserts hs acts).ch.outstanding ∧
    (lreach asserts hs (acts ++ [.base (.recv m), .base .finish])).ch.pending = none ∧
    (∀ j, ranCount j (lreach asserts hs (acts ++ [.base (.recv m), .base .finish])).ch.log =
      (if j = k then 1 else 0) + ranCount j (lreach asserts hs acts).ch.log) ∧
    (lreach asserts hs (acts ++ [.base (.recv m), .base .finish])).held = false ∧
    (lreach asserts hs (acts ++ [.base (.recv m), .base .finish])).deadlocked = false := by
  have hl := LockInv.run asserts hs acts
  have hl' := LockInv.run asserts hs (acts ++ [.base (.recv m), .base .finish])
  obtain ⟨base, hb⟩ := locked_refines asserts hs acts
  have happ : lreach asserts hs (acts ++ [.base (.recv m), .base .finish]) =
      lstep (lstep (lreach asserts hs acts) (.base (.recv m))) (.base .finish) := by
    simp [lreach, lrun, List.foldl_append]
  have hch := (lstep_recv_finish (lreach asserts hs acts) m hl.live hp hc).1
  have hbase : reach asserts hs (base ++ [.recv m, .finish]) = step (step (reach asserts hs base) (.recv m)) .finish := by
    simp [reach, run, List.foldl_append]
  rw [hb] at hp hk hid hr
  obtain ⟨a, b, c, d, _⟩ := response_completes asserts hs base m k ht hp hk hid hr
  rw [happ, hch, hb, ← hbase]
  refine ⟨a, b, c, d, ?_, ?_⟩
  · rw [← happ]; exact hl'.unlocked
  · rw [← happ]; exact hl'.live

end

/-- the **deadlock outcome**: had the loop thread kept `mutex_` into the completion (`held`), the `CallMethod` that a closure
issues on its own channel would block at its `MutexLockGuard` for ever: the machine is `deadlocked`, the chained call is
never registered, and whatever is attempted afterwards (`acts`) changes nothing - no closure of any call still outstanding
ever runs.  (`closure_runs_unlocked`: with the lock scopes of the source this state is not reachable.) -/
theorem reentry_under_lock_deadlocks (s : LChan) (k' : Nat) (hd : s.deadlocked = false) (hh : s.ch.halted = false)
    (hu : s.held = true) (hc : s.chain = some k') (hst : atInsert s.ch k' = true) (acts : List LAct) :
    (acts.foldl lstep (lstep s .chainInsert)).deadlocked = true ∧
    (acts.foldl lstep (lstep s .chainInsert)).ch = s.ch ∧
    ¬ Registered s.ch k' := by
  rw [chainInsert_deadlocks hd hh hu hc hst, lfoldl_deadlocked acts _ rfl]
  refine ⟨rfl, rfl, ?_⟩
  simp only [atInsert, insertBeforeSend_eq, if_true, decide_eq_true_eq] at hst
  simp [Registered, hst]

/-! ### chained calls: the statements are not vacuous -/

/-- a chain of depth 2: call 0 (id 1); its closure, run for an answer with payload 5, issues call 1 (id 2); the closure
of call 1, run for an error reply, issues call 2 (id 3); call 2 is answered with payload 7 -/
def chainActs : List LAct :=
  [.base .callBegin, .base (.callInsert 0), .base (.callSend 0),
   .base (.recv { type := .RESPONSE, id := 1, payload := some (.ok 5) })] ++ chainOnce ++ [.base .finish,
   .base (.recv { type := .RESPONSE, id := 2, err := some 3 })] ++ chainOnce ++ [.base .finish,
   .base (.recv { type := .RESPONSE, id := 3, payload := some (.ok 7) }), .base .finish]

example : (lreach true false chainActs).chained = [(2, 1), (1, 0)] ∧
    (lreach true false chainActs).deadlocked = false ∧ (lreach true false chainActs).held = false ∧
    (lreach true false chainActs).ch.outstanding = [] ∧
    (lreach true false chainActs).ch.log =
      [.free (.resp 2), .ran 2 3 (some 7), .parse 2, .arrived { type := .RESPONSE, id := 3, payload := some (.ok 7) },
       .free (.resp 1), .ran 1 2 none, .sent 3 2, .arrived { type := .RESPONSE, id := 2, err := some 3 },
       .free (.resp 0), .ran 0 1 (some 5), .parse 0, .sent 2 1, .arrived { type := .RESPONSE, id := 1, payload := some (.ok 5) },
       .sent 1 0] := by
  decide

/-- the hypotheses of `chained_call_registers` hold while the first closure runs -/
example : (lreach true false (chainActs.take 4)).ch.pending = some (0, { type := .RESPONSE, id := 1, payload := some (.ok 5) }) ∧
    (lreach true false (chainActs.take 4)).chain = none := by
  decide

/-- the state that `reentry_under_lock_deadlocks` speaks about: the same history, had the lock been kept -/
example : ∃ s : LChan, s.deadlocked = false ∧ s.ch.halted = false ∧ s.held = true ∧ s.chain = some 1 ∧ atInsert s.ch 1 = true ∧
    ranCount 0 s.ch.log = 0 :=
  ⟨{ lreach true false (chainActs.take 5) with held := true }, by decide⟩

end MuduoVerif.C19
