import MuduoVerif.Proofs.TPool
import MuduoVerif.Proofs.ThreadSkelTie
/-!
# C15 — ThreadPool runs each accepted task once, applies back-pressure, always stops

All statements are about every state reachable in the transition system of `Model/TPool.lean` (`pstep`):
any number of worker threads `n ≥ 0`, any number of callers with any programs of `run`/`stop`, any
`maxQueueSize`, every interleaving of lock acquisitions, critical sections, unlocked reads of `running_`,
task executions, joins and spurious wake-ups, every choice `notify` makes.  The system interprets the
statement skeletons and guards extracted from /repo's `ThreadPool.cc` (`Generated/Monitor.lean`);
`Proofs/TPoolTie.lean` pins them to the skeleton the proofs are about.

Tasks may depend on one another: task ids of kind `waits` block inside `task()` until the *gate* is open, ids of
kind `opens` (and the caller operation `open`) open it (`Model/TPool.lean`, `TKind`).  A program of that shape
can park workers for good, so the two "nobody is left behind" theorems name exactly who may be left:
workers inside a waiting task while the gate is closed (and a `stop()` joining such a worker).  With plain
tasks only, or once the gate is open, they are the unconditional statements (`…_plain`).

Ghost vocabulary: a task is `(serial, id)` with `serial` = its rank among the accepted tasks;
`acceptedOf`/`tookOf`/`execOf` = the tasks pushed by `run()` / popped by `take()` / started by a worker,
in the order of these events.
-/
namespace MuduoVerif.C15
open MuduoVerif.Monitor

variable {n maxq : Nat} {kind : Nat → TKind} {prog : Nat → List POp} {sched : List Nat} {s : PState}

/-- no task is started twice -/
theorem at_most_once (hr : PReach (pinit n maxq kind prog sched) s) : (execOf s.log).Nodup :=
  (pinv_reach (pinv_init n maxq kind prog sched) hr).b.execNodup

/-- accepted tasks are pairwise different objects (their serial numbers are 0, 1, 2, …), so
`at_most_once` is about task instances, not about ids -/
theorem accepted_distinct (hr : PReach (pinit n maxq kind prog sched) s) :
    (acceptedOf s.log).map (·.1) = List.range s.nacc :=
  (pinv_reach (pinv_init n maxq kind prog sched) hr).b.serial

/-- tasks are taken up in the order they were accepted: what `take()` removed so far, followed by what
is still queued, is the list of accepted tasks -/
theorem fifo_takeup (hr : PReach (pinit n maxq kind prog sched) s) : tookOf s.log ++ s.q = acceptedOf s.log :=
  (pinv_reach (pinv_init n maxq kind prog sched) hr).b.fifo

/-- only accepted tasks are started, and only after `take()` handed them out -/
theorem started_were_taken (hr : PReach (pinit n maxq kind prog sched) s) (x : Task) (hx : x ∈ execOf s.log) :
    x ∈ tookOf s.log ∧ x ∈ acceptedOf s.log := by
  have h := pinv_reach (pinv_init n maxq kind prog sched) hr
  have h1 := (h.b.execTook x hx).1
  exact ⟨h1, by rw [← h.b.fifo]; exact List.mem_append_left _ h1⟩

/-- with a maximum queue size the queue never exceeds it -/
theorem bounded (hr : PReach (pinit n maxq kind prog sched) s) (hm : 0 < maxq) : s.q.length ≤ maxq := by
  have h := pinv_reach (pinv_init n maxq kind prog sched) hr
  have hc := (preach_const hr).2
  have : s.maxq = maxq := hc
  rw [← this]; exact h.a.bnd (by rw [this]; exact hm)

/-- tasks are executed on pool threads — by the caller itself exactly when the pool has no threads -/
theorem on_pool_thread (hr : PReach (pinit n maxq kind prog sched) s) :
    (∀ w x, PEv.exec w x ∈ s.log → 1 ≤ w ∧ w ≤ n) ∧ (∀ t id, PEv.inl t id ∈ s.log → n = 0) := by
  have h := pinv_reach (pinv_init n maxq kind prog sched) hr
  have hn : s.n = n := (preach_const hr).1
  constructor
  · intro w x hx; have := h.c.place _ hx; rw [hn] at this; exact this
  · intro t id hx; have := h.c.place _ hx; rw [hn] at this; exact this

/-- no wake-up of a worker is lost: while the pool runs and a worker waits unsignalled, there are at
least as many signalled workers on their way as there are queued tasks -/
theorem no_lost_signal (hr : PReach (pinit n maxq kind prog sched) s) (hrun : s.running = true) (hW : s.ne.W ≠ []) :
    s.q.length ≤ s.ne.S.length :=
  (pinv_reach (pinv_init n maxq kind prog sched) hr).a.sigE hrun hW

/-- no wake-up of a producer is lost: while the pool runs and a producer waits unsignalled on the full queue, there
are at least as many signalled producers on their way as there are free places -/
theorem no_lost_signal_producer (hr : PReach (pinit n maxq kind prog sched) s) (hrun : s.running = true) (hm : 0 < s.maxq)
    (hW : s.nf.W ≠ []) : s.maxq - s.q.length ≤ s.nf.S.length :=
  (pinv_reach (pinv_init n maxq kind prog sched) hr).a.sigF hrun hm hW

/-- no worker is inside a waiting task: the case when every task is plain or opens the gate, and the case of a
state in which nobody can move while the gate is open -/
theorem no_gated (hr : PReach (pinit n maxq kind prog sched) s)
    (hg : (∀ id, kind id ≠ .waits) ∨ (PBlocked s ∧ s.gate = true)) (w : Nat) (x : Task) : s.pc w ≠ .wGate x := by
  intro hw
  rcases hg with hk | ⟨hb, hg⟩
  · have h := pinv_reach (pinv_init n maxq kind prog sched) hr
    have := h.gated w x hw
    rw [preach_kind hr] at this
    exact hk _ this
  · exact body_wGate hw hg (hb w).2

/-- exactly once unless stopped: in every reachable state in which no thread can take a step, every
accepted task has been started (once, by `at_most_once`), or it is still queued and either `stop()` has cleared
the flag while it was queued, or **every** pool thread is inside a task that waits for the closed gate — as long
as one worker is free, a queued task is taken up (a task may rely on a task accepted after it) -/
theorem exactly_once_unless_stopped (hr : PReach (pinit n maxq kind prog sched) s) (hb : PBlocked s) (x : Task)
    (hx : x ∈ acceptedOf s.log) :
    x ∈ execOf s.log ∨ (x ∈ s.q ∧ (s.running = false ∨
      (s.gate = false ∧ ∀ w, 1 ≤ w → w ≤ n → ∃ y, s.pc w = .wGate y))) := by
  have h := pinv_reach (pinv_init n maxq kind prog sched) hr
  rw [← h.b.fifo, List.mem_append] at hx
  rcases hx with hx | hx
  · rcases h.b.tookDone x hx with h1 | ⟨w, hw⟩
    · exact Or.inl h1
    · exact absurd (hb w).2 (body_wExec hw)
  · right
    refine ⟨hx, ?_⟩
    cases hrun : s.running with
    | false => exact Or.inl rfl
    | true =>
      right
      have hsn : s.n = n := (preach_const hr).1
      have hn : s.n ≠ 0 := by
        intro h0; have := h.noq h0; rw [this] at hx; cases hx
      have key : ∀ w, 1 ≤ w → w ≤ n → (∃ y, s.pc w = .wGate y) ∧ s.gate = false := by
        intro w hw1 hw2
        rcases p_blocked_worker h hb (w := w) ⟨hw1, by omega⟩ with h1 | ⟨_, h1⟩ | h1
        · have := h.c.doneOff w h1; rw [hrun] at this; cases this
        · exfalso
          have := h.a.sigE hrun (ne_nil_of_mem h1)
          rw [(p_blocked_S h hb).1] at this
          have hq : s.q = [] := List.eq_nil_of_length_eq_zero (by simpa using this)
          rw [hq] at hx; cases hx
        · exact h1
      exact ⟨(key 1 (Nat.le_refl 1) (by omega)).2, fun w hw1 hw2 => (key w hw1 hw2).1⟩

/-- `exactly_once_unless_stopped` for plain tasks, and whenever the gate is open: every accepted task has been
started, or `stop()` has cleared the flag while it was still queued -/
theorem exactly_once_unless_stopped_plain (hr : PReach (pinit n maxq kind prog sched) s) (hb : PBlocked s)
    (hg : (∀ id, kind id ≠ .waits) ∨ s.gate = true) (x : Task) (hx : x ∈ acceptedOf s.log) :
    x ∈ execOf s.log ∨ (x ∈ s.q ∧ s.running = false) := by
  rcases exactly_once_unless_stopped hr hb x hx with h1 | ⟨h1, h2 | ⟨_, h2⟩⟩
  · exact Or.inl h1
  · exact Or.inr ⟨h1, h2⟩
  · exfalso
    have h := pinv_reach (pinv_init n maxq kind prog sched) hr
    have hsn : s.n = n := (preach_const hr).1
    have hn : n ≠ 0 := by
      intro h0; have := h.noq (by rw [hsn]; exact h0); rw [this] at h1; cases h1
    obtain ⟨y, hy⟩ := h2 1 (Nat.le_refl 1) (by omega)
    exact no_gated hr (hg.imp id fun g => ⟨hb, g⟩) 1 y hy

/-- `stop()` returns for every interleaving: once `stop()` has cleared the flag there is no reachable
state in which somebody is left parked — idle workers, busy workers, producers blocked on a full queue and
the thread inside `stop()` itself all run to completion; the only threads that can be left are a worker inside
a task that waits for the closed gate, and the thread whose `stop()` is joining that worker -/
theorem stop_returns (hr : PReach (pinit n maxq kind prog sched) s) (hb : PBlocked s) (hstop : s.running = false) (t : Nat) :
    s.finished t ∨ ((∃ x, s.pc t = .wGate x) ∧ s.gate = false) ∨
      (∃ i x, s.pc t = .stopJoin i ∧ s.pc (i + 1) = .wGate x ∧ s.gate = false) := by
  have h := pinv_reach (pinv_init n maxq kind prog sched) hr
  have hown := p_blocked_owner h hb
  have hW : s.ne.W = [] ∧ s.nf.W = [] := by
    rcases h.a.stopped hstop with h1 | ⟨u, hu, _⟩
    · exact h1
    · rw [hown] at hu; cases hu
  have hnE : t ∉ s.ne.W := by rw [hW.1]; exact List.not_mem_nil
  have hnF : t ∉ s.nf.W := by rw [hW.2]; exact List.not_mem_nil
  unfold PState.finished
  cases hpc : s.pc t with
  | wDone => exact Or.inl (Or.inl rfl)
  | wTest => exact absurd (hb t).2 (body_wTest hpc)
  | wExec x => exact absurd (hb t).2 (body_wExec hpc)
  | wGate x =>
    right; left
    refine ⟨⟨x, rfl⟩, ?_⟩
    cases hg : s.gate with
    | false => rfl
    | true => exact absurd (hb t).2 (body_wGate hpc hg)
  | wTake => exact absurd (hb t).1 (acq_enabled hown (by simp [PState.needsLock, hpc]) hnE hnF)
  | stopNotify => have := h.a.ownStop t hpc; rw [hown] at this; cases this
  | stopJoin i =>
    obtain ⟨_, hi, _⟩ := h.c.join t i hpc
    rcases p_blocked_worker h hb (w := i + 1) ⟨by omega, by omega⟩ with h1 | ⟨_, h1⟩ | ⟨⟨x, h1⟩, h2⟩
    · exfalso
      have := (hb t).2
      simp [pstep, hpc, h1] at this
    · rw [hW.1] at h1; cases h1
    · exact Or.inr (Or.inr ⟨i, x, rfl, h1, h2⟩)
  | idle =>
    left; right
    refine ⟨rfl, ?_⟩
    cases hp : s.prog t with
    | nil => rfl
    | cons op rest =>
      exfalso
      cases op with
      | stop => exact (acq_enabled hown (by simp [PState.needsLock, hpc, hp]) hnE hnF) (hb t).1
      | «open» =>
        have := (hb t).2
        simp [pstep, hpc, hp] at this
      | run id =>
        by_cases hin : s.inline = true
        · have := (hb t).2
          simp [pstep, hpc, hp, hin] at this
        · exact (acq_enabled hown (by simp [PState.needsLock, hpc, hp, hin]) hnE hnF) (hb t).1

/-- `stop_returns` for plain tasks, and whenever the gate is open: nobody at all is left parked -/
theorem stop_returns_plain (hr : PReach (pinit n maxq kind prog sched) s) (hb : PBlocked s) (hstop : s.running = false)
    (hg : (∀ id, kind id ≠ .waits) ∨ s.gate = true) (t : Nat) : s.finished t := by
  have hng := no_gated hr (hg.imp id fun g => ⟨hb, g⟩)
  rcases stop_returns hr hb hstop t with h1 | ⟨⟨x, h1⟩, _⟩ | ⟨i, x, _, h1, _⟩
  · exact h1
  · exact absurd h1 (hng t x)
  · exact absurd h1 (hng (i + 1) x)

/-- after `stop()` has returned on a pool that has threads, no step starts a task and no `run()`
enqueues or executes anything -/
theorem quiet_after_stop (hr : PReach (pinit n maxq kind prog sched) s) (hn : 0 < n) (hret : ∃ t, PEv.stopRet t ∈ s.log)
    {a : Act} {s' : PState} (hs : pstep s a = some s') :
    execOf s'.log = execOf s.log ∧ acceptedOf s'.log = acceptedOf s.log ∧ ∀ t id, PEv.inl t id ∉ s'.log := by
  have h := pinv_reach (pinv_init n maxq kind prog sched) hr
  have hsn : s.n = n := (preach_const hr).1
  obtain ⟨hoff, hdone⟩ := h.c.quiet hret (by rw [hsn]; exact hn)
  have hr' : PReach (pinit n maxq kind prog sched) s' := .step a hr hs
  have hinl : ∀ t id, PEv.inl t id ∉ s'.log := by
    intro t id hx
    have := (on_pool_thread hr').2 t id hx
    omega
  have hplain : ∀ {evs : List PEv}, (∀ e ∈ evs, e.plain) →
      execOf (s.log ++ evs) = execOf s.log ∧ acceptedOf (s.log ++ evs) = acceptedOf s.log := by
    intro evs he
    obtain ⟨a1, _, a3⟩ := ghost_plain he s.log
    exact ⟨a3, a1⟩
  have hnw : ∀ t, isWorkerPc (s.pc t) = true → s.pc t = .wDone := by
    intro t ht
    have := (h.c.workers t).mp ht
    exact hdone t this.1 this.2
  have key : execOf s'.log = execOf s.log ∧ acceptedOf s'.log = acceptedOf s.log := by
    cases pstep_sound hs with
    | acq t ho hl hE hF => exact ⟨rfl, rfl⟩
    | spur t c ht => exact ⟨rfl, rfl⟩
    | test t hpc => exact ⟨rfl, rfl⟩
    | takePark t S' hpc ho hS hq hr => exact ⟨rfl, rfl⟩
    | takeNone t S' hpc ho hS hq hr => exact ⟨rfl, rfl⟩
    | takeSome t S' x q' hpc ho hS hq => have := hnw t (by rw [hpc]; rfl); rw [hpc] at this; cases this
    | exec t x p g hpc hp => have := hnw t (by rw [hpc]; rfl); rw [hpc] at this; cases this
    | pass t x hpc hg => have := hnw t (by rw [hpc]; rfl); rw [hpc] at this; cases this
    | openGate t rest hpc hp => exact hplain (evs := [.openRet t]) (by simp [PEv.plain])
    | runInline t id rest hpc hp hn0 => exact hplain (evs := [.inl t id, .runRet t id]) (by simp [PEv.plain])
    | runPark t id rest S' hpc hp hn0 ho hS hfull hr => exact ⟨rfl, rfl⟩
    | runStopped t id rest S' hpc hp hn0 ho hS hr => exact hplain (evs := [.runRet t id]) (by simp [PEv.plain])
    | runPush t id rest S' hpc hp hn0 ho hS hroom hr => rw [hoff] at hr; cases hr
    | stopFlag t rest hpc hp ho => exact hplain (evs := [.stopFlag t]) (by simp [PEv.plain])
    | stopNotify t hpc ho hn0 => exact ⟨rfl, rfl⟩
    | stopNotify0 t hpc ho hn0 => exact hplain (evs := [.stopRet t]) (by simp [PEv.plain])
    | joinNext t i hpc hd hi => exact ⟨rfl, rfl⟩
    | joinLast t i hpc hd hi => exact hplain (evs := [.stopRet t]) (by simp [PEv.plain])
  exact ⟨key.1, key.2, hinl⟩

/-! ### the hypotheses are satisfiable -/

/-- a run in which back-pressure, execution, a task dropped by `stop()` and the join all occur; its final
state satisfies the hypotheses of `exactly_once_unless_stopped`, `stop_returns` and `quiet_after_stop` -/
example : ∃ s, PReach (pinit 1 1 (fun _ => .plain) demoPool []) s ∧ PBlocked s ∧ s.running = false ∧
    execOf s.log = [(0, 7)] ∧ acceptedOf s.log = [(0, 7), (1, 8)] ∧ s.q = [(1, 8)] ∧ (∃ t, PEv.stopRet t ∈ s.log) := by
  have h : ((runP (pinit 1 1 (fun _ => .plain) demoPool []) demoPoolActs).map fun s =>
      (s.pc 1, s.pc 2, s.prog 2, s.running)) = some (.wDone, .idle, [], false) := by decide +kernel
  have h' : ((runP (pinit 1 1 (fun _ => .plain) demoPool []) demoPoolActs).map fun s =>
      (execOf s.log, acceptedOf s.log, s.q, decide (PEv.stopRet 2 ∈ s.log))) =
      some ([(0, 7)], [(0, 7), (1, 8)], [(1, 8)], true) := by decide +kernel
  cases hr : runP (pinit 1 1 (fun _ => .plain) demoPool []) demoPoolActs with
  | none => rw [hr] at h; cases h
  | some s =>
    rw [hr] at h h'
    simp only [Option.map_some, Option.some.injEq, Prod.mk.injEq, decide_eq_true_eq] at h h'
    obtain ⟨h1, h2, h3, h4⟩ := h
    obtain ⟨h5, h6, h7, h8⟩ := h'
    have hreach := runP_reach hr
    refine ⟨s, hreach, blocked_of_finished ?_, h4, h5, h6, h7, ⟨2, h8⟩⟩
    intro t
    by_cases ht1 : t = 1
    · subst ht1; exact Or.inl h1
    · by_cases ht2 : t = 2
      · subst ht2; exact Or.inr ⟨h2, h3⟩
      · refine finished_reach hreach (Or.inr ⟨?_, ?_⟩)
        · simp [pinit]; omega
        · have : demoPool t = [] := by
            unfold demoPool; split
            · exact absurd rfl ht2
            · rfl
          simp [pinit, this]

/-- a run with dependent tasks: task 7 makes worker 1 wait at the gate, task 8 — accepted later, taken up by the
free worker 2 — opens it; both complete, then the pool is stopped and everybody finishes (the hypotheses of
`stop_returns_plain` with the gate open) -/
example : ∃ s, PReach (pinit 2 0 demoDepKind demoDep []) s ∧ PBlocked s ∧ s.running = false ∧ s.gate = true ∧
    execOf s.log = [(0, 7), (1, 8)] ∧ PEv.pass 1 (0, 7) ∈ s.log := by
  have h : ((runP (pinit 2 0 demoDepKind demoDep []) demoDepActs).map fun s =>
      (s.pc 1, s.pc 2, s.pc 3, s.prog 3)) = some (.wDone, .wDone, .idle, []) := by decide +kernel
  have h'' : ((runP (pinit 2 0 demoDepKind demoDep []) demoDepActs).map fun s =>
      (s.running, s.gate)) = some (false, true) := by decide +kernel
  have h' : ((runP (pinit 2 0 demoDepKind demoDep []) demoDepActs).map fun s =>
      (execOf s.log, decide (PEv.pass 1 (0, 7) ∈ s.log))) = some ([(0, 7), (1, 8)], true) := by decide +kernel
  cases hr : runP (pinit 2 0 demoDepKind demoDep []) demoDepActs with
  | none => rw [hr] at h; cases h
  | some s =>
    rw [hr] at h h' h''
    simp only [Option.map_some, Option.some.injEq, Prod.mk.injEq, decide_eq_true_eq] at h h' h''
    obtain ⟨h1, h2, h3, h4⟩ := h
    obtain ⟨h5, h6⟩ := h''
    obtain ⟨h7, h8⟩ := h'
    have hreach := runP_reach hr
    refine ⟨s, hreach, blocked_of_finished ?_, h5, h6, h7, h8⟩
    intro t
    by_cases ht1 : t = 1
    · subst ht1; exact Or.inl h1
    · by_cases ht2 : t = 2
      · subst ht2; exact Or.inl h2
      · by_cases ht3 : t = 3
        · subst ht3; exact Or.inr ⟨h3, h4⟩
        · refine finished_reach hreach (Or.inr ⟨?_, ?_⟩)
          · simp [pinit]; omega
          · have : demoDep t = [] := by
              unfold demoDep; split
              · exact absurd rfl ht3
              · rfl
            simp [pinit, this]

end MuduoVerif.C15

namespace MuduoVerif.C15

/-- **primitives_tied**: what `Model/TPool.lean` takes as atomic - the mutex and the two conditions of the pool
(`MutexLockGuard`, `Condition::wait / notify / notifyAll`), a worker thread that exists and runs `runInThread` once
`threads_[i]->start()` has returned, and `threads_[i]->join()` that returns once that function has returned
(`stopJoin i`) - is what `Mutex.h`, `Condition.h` and `Thread.cc` ask pthread for: `lock` = `pthread_mutex_lock` then
the holder, `wait` = clear the holder; `pthread_cond_wait`; assign the holder, `start` = `started_ = true`; a fresh
`ThreadData`; `pthread_create(.., &startThread, data)`; `latch_.wait()`, the new thread counts the latch down BEFORE it
calls the user's function, `join` = `joined_ = true`; `pthread_join` (statement skeletons re-extracted from /repo on
every run, `Generated/ThreadSkel.lean`, equal to `Model/ThreadSkelDecl.lean`) -/
theorem primitives_tied :
    (Gen.ThreadSkel.mutexLock = ThreadSkel.Decl.mutexLock ∧
     Gen.ThreadSkel.mutexUnlock = ThreadSkel.Decl.mutexUnlock ∧
     Gen.ThreadSkel.lockGuardCtor = ThreadSkel.Decl.lockGuardCtor ∧
     Gen.ThreadSkel.lockGuardDtor = ThreadSkel.Decl.lockGuardDtor ∧
     Gen.ThreadSkel.assertLocked = ThreadSkel.Decl.assertLocked ∧
     Gen.ThreadSkel.isLockedByThisThread = ThreadSkel.Decl.isLockedByThisThread) ∧
    (Gen.ThreadSkel.condWait = ThreadSkel.Decl.condWait ∧
     Gen.ThreadSkel.condNotify = ThreadSkel.Decl.condNotify ∧
     Gen.ThreadSkel.condNotifyAll = ThreadSkel.Decl.condNotifyAll ∧
     Gen.ThreadSkel.unassignGuardCtor = ThreadSkel.Decl.unassignGuardCtor ∧
     Gen.ThreadSkel.unassignGuardDtor = ThreadSkel.Decl.unassignGuardDtor) ∧
    (Gen.ThreadSkel.threadCtor = ThreadSkel.Decl.threadCtor ∧
     Gen.ThreadSkel.threadStart = ThreadSkel.Decl.threadStart ∧
     Gen.ThreadSkel.startThread = ThreadSkel.Decl.startThread ∧
     Gen.ThreadSkel.runInThread = ThreadSkel.Decl.runInThread ∧
     Gen.ThreadSkel.threadJoin = ThreadSkel.Decl.threadJoin ∧
     Gen.ThreadSkel.threadDtor = ThreadSkel.Decl.threadDtor) :=
  let h := ThreadSkel.skeletons_agree
  ⟨⟨h.1.2.2.2.2.1, h.1.2.2.2.2.2.1, h.1.2.2.2.2.2.2.2.2.2.2.1, h.1.2.2.2.2.2.2.2.2.2.2.2, h.1.2.2.2.1, h.1.2.2.1⟩,
   ⟨h.2.1.2.2.1, h.2.1.2.2.2.1, h.2.1.2.2.2.2.1, h.1.2.2.2.2.2.2.2.2.1, h.1.2.2.2.2.2.2.2.2.2.1⟩,
   ⟨ThreadSkel.skeleton_threadCtor, ThreadSkel.skeleton_threadStart, ThreadSkel.skeleton_startThread,
    ThreadSkel.skeleton_runInThread, ThreadSkel.skeleton_threadJoin, ThreadSkel.skeleton_threadDtor⟩⟩

end MuduoVerif.C15
