import MuduoVerif.Proofs.TimerProps
import MuduoVerif.Proofs.TimerSkelTie
/-!
# C07 — cancel() stops a timer for good and never disturbs any other timer; no freed timer is read

Property theorems only (lemmas: `Proofs/Timer*.lean`).  Quantification as in C06: every theorem about `run ins` holds for
every input list of the timer-engine model — adds and cancels from the loop thread, from callbacks (self-cancel,
cancel of another timer of the same batch, of a pending timer, of a dead one) and from foreign threads (queued
`cancelInLoop` functors; `addTimer` split at the hand-over point), stale and default ids, address reuse chosen by the
environment (`In.addr`), every clock reading, every firing of the timerfd.

`cancelInLoop` records `Ev.cancel addr seq inBatch found` (`inBatch` = `callingExpiredTimers_`, `found` = the pair was in
`activeTimers_`, i.e. the timer was pending and not part of the batch being run).  `after m p t` counts the events
satisfying `p` that come after the oldest point of the trace `t` at which `m` became true (`Proofs/TimerCancelTr.lean`).
-/
namespace MuduoVerif.C07
open MuduoVerif.Timer MuduoVerif.Gen.Timer

/-! ### cancel_noop -/

/-- **cancel_noop**: a cancel whose (pointer, sequence) pair is not active (the timer already ran, was already
cancelled, the id is default-constructed or stale) outside an expiry batch changes nothing but the ghost record
that it was processed. -/
theorem cancel_noop (s : TQ) (id : TimerId) (h : (id.addr, id.seq) ∉ s.active) (hc : s.calling = false) :
    cancelInLoop s id = emit s (.cancel id.addr id.seq false false) := by
  unfold cancelInLoop
  simp [emit, cancelErases, cancelRemembers, h, hc]

/-- ... and inside an expiry batch it only remembers the pair in `cancelingTimers_`: both sets, the heap and the
timerfd stay as they are -/
theorem cancel_noop_in_batch (s : TQ) (id : TimerId) (h : (id.addr, id.seq) ∉ s.active) (hc : s.calling = true) :
    cancelInLoop s id = { emit s (.cancel id.addr id.seq true false) with cancelling := (id.addr, id.seq) :: s.cancelling } := by
  unfold cancelInLoop
  simp [emit, cancelErases, cancelRemembers, h, hc]

/-- a default-constructed `TimerId` and an id whose timer is dead (ran as a one-shot, was cancelled) are never active in a
reachable state, whatever lives at the address now -/
theorem inactive_ids (ins : List In) :
    (TimerId.dflt.addr, TimerId.dflt.seq) ∉ (run ins).active ∧
    ∀ a q, (∀ c, (run ins).heap a = some c → c.seq ≠ q) → (a, q) ∉ (run ins).active := by
  have hw := (run_top ins).wf
  refine ⟨?_, ?_⟩
  · intro hm
    obtain ⟨c, h1, _, _⟩ := hw.a_live _ hm
    exact absurd (hw.addr_ok _ _ h1).1 (by decide)
  · intro a q hd hm
    obtain ⟨c, h1, h2, _⟩ := hw.a_live _ hm
    exact hd c h1 h2

/-! ### identity -/

/-- **identity**: in every reachable state, `cancel(addr, seq)` removes a timer only if the live `Timer` at `addr` has
the sequence number `seq`; every other pending timer — in particular a later one that reuses `addr` — keeps its entry in
both sets and its cell; and if the pair is not active nothing in the queue changes at all -/
theorem identity (ins : List In) (id : TimerId) :
    ((id.addr, id.seq) ∈ (run ins).active → ∃ c, (run ins).heap id.addr = some c ∧ c.seq = id.seq) ∧
    (∀ p ∈ (run ins).active, p ≠ (id.addr, id.seq) →
      p ∈ (cancelInLoop (run ins) id).active ∧ (cancelInLoop (run ins) id).heap p.1 = (run ins).heap p.1 ∧
      ∀ c, (run ins).heap p.1 = some c → (c.exp, p.1) ∈ (cancelInLoop (run ins) id).timers) ∧
    ((id.addr, id.seq) ∉ (run ins).active →
      (cancelInLoop (run ins) id).timers = (run ins).timers ∧ (cancelInLoop (run ins) id).active = (run ins).active ∧
      (cancelInLoop (run ins) id).heap = (run ins).heap ∧ (cancelInLoop (run ins) id).alarm = (run ins).alarm ∧
      (cancelInLoop (run ins) id).readable = (run ins).readable) := by
  have hw := (run_top ins).wf
  have hl : (id.addr, id.seq) ∈ (run ins).active → ((run ins).heap id.addr).isSome := by
    intro hm
    obtain ⟨c, h1, _⟩ := hw.a_live _ hm
    exact isSome_of_eq h1
  refine ⟨?_, ?_, ?_⟩
  · intro hm
    obtain ⟨c, h1, h2, _⟩ := hw.a_live _ hm
    exact ⟨c, h1, h2⟩
  · intro p hp hne
    obtain ⟨c, h1, h2, h3⟩ := hw.a_live p hp
    rw [cancelInLoop_eq id hl]
    split
    · rename_i hm
      obtain ⟨c0, g1, g2, _⟩ := hw.a_live _ hm
      have hpa : p.1 ≠ id.addr := by
        intro hh
        have g1 : (run ins).heap id.addr = some c0 := g1
        rw [hh, g1] at h1; cases h1
        exact hne (Prod.ext hh (h2.symm.trans g2))
      refine ⟨List.mem_filter.2 ⟨hp, by simpa using hne⟩, hfree_other _ hpa, ?_⟩
      intro c' hc'
      rw [h1] at hc'; cases hc'
      refine List.mem_filter.2 ⟨h3, ?_⟩
      simp only [ne_eq, decide_eq_true_eq]
      intro hh; exact hpa (Prod.mk.inj hh).2
    · split
      · exact ⟨hp, rfl, fun c' hc' => by rw [h1] at hc'; cases hc'; exact h3⟩
      · exact ⟨hp, rfl, fun c' hc' => by rw [h1] at hc'; cases hc'; exact h3⟩
  · intro hm
    rw [cancelInLoop_eq id hl, if_neg hm]
    split <;> exact ⟨rfl, rfl, rfl, rfl, rfl⟩

/-- sequence numbers: every live `Timer` has a sequence number in 1..`s_numCreated_`, different live timers have
different ones, and a new `Timer` gets `s_numCreated_ + 1` (`created_deadline` of C06) — so an id never matches a later
timer at the same address -/
theorem seq_unique (ins : List In) :
    (∀ a c, (run ins).heap a = some c → 0 < c.seq ∧ c.seq ≤ (run ins).numCreated) ∧
    (∀ a a' c c', (run ins).heap a = some c → (run ins).heap a' = some c' → c.seq = c'.seq → a = a') :=
  ⟨(run_top ins).wf.seq_le, (run_top ins).wf.seq_inj⟩

/-- `s_numCreated_` never decreases -/
theorem seq_increasing (ins : List In) (i : In) : (run ins).numCreated ≤ (run (ins ++ [i])).numCreated := by
  rw [run_snoc]; exact step_numCreated (run_top ins) i

/-! ### no_uaf -/

/-- the order extracted from `TimerQueue::addTimer` (T1): the sequence number is read before the timer is handed to
the loop.  The proof of `no_uaf` depends on it (with `true` a parked foreign `addTimer` reads a freed `Timer`: F4). -/
theorem addTimer_reads_sequence_first : addTimerDerefsAfterHandOver = false := rfl

/-- **no_uaf**: no step of any history dereferences a freed `Timer` -/
theorem no_uaf (ins : List In) (a : Addr) : Ev.uaf a ∉ (run ins).trace := (run_top ins).wf.no_uaf a

/-! ### cancel_final -/

/-- after a processed `cancel(a, q)` — one that counts: any (`needReg = false`) or one processed when the timer was
registered (`needReg = true`) —: if it found the timer pending or was processed outside a batch, the timer never runs and
is never restarted afterwards; in any case it runs at most once more (the invocation of the running batch) and is never
restarted -/
def cancelFinalStmt (needReg : Bool) : Prop :=
  ∀ (ins : List In) (a : Addr) (q : Nat),
    after (markOut needReg a q) (isRunOf q) (run ins).trace = 0 ∧
    after (markOut needReg a q) (isRestartOf q) (run ins).trace = 0 ∧
    after (markAll needReg a q) (isRunOf q) (run ins).trace ≤ 1 ∧
    after (markAll needReg a q) (isRestartOf q) (run ins).trace = 0

/-- the full statement of the property: every processed cancel counts -/
def cancel_final_full : Prop := cancelFinalStmt false

/-- **cancel_final_partial**: `cancel_final` for cancels processed when the timer is registered (its `addTimerInLoop` has
run); a cancel that found the timer pending always counts -/
theorem cancel_final_partial : cancelFinalStmt true := by
  intro ins a q
  have hb := (run_cf ins a q).bounds
  exact ⟨hb.1, hb.2.1, hb.2.2.2, hb.2.2.1⟩

/-- the full statement is false (F21): a foreign thread's `addTimer` is still queued when the loop thread cancels the id
it returned: the cancel finds nothing, the timer is registered afterwards and runs
(corpus/C07/F21-loop-cancel-overtakes-foreign-add.case) -/
theorem cancel_final_fails_witness : ¬ cancel_final_full := by
  intro h
  have := (h [.addr 16, .add .foreign 1 (.at 1000), .cancel .loop (some 1) 1, .iter, .expire, .now 1000, .iter] 16 1).1
  revert this
  decide

/-- split form, pending timer: once a cancel has found the timer in `activeTimers_` (whether issued from the loop
thread, a foreign thread or a callback — also a callback of a batch the timer is not part of), no run and no restart of
it follows -/
theorem cancel_pending_final (ins : List In) (post pre : List Ev) (a : Addr) (q : Nat) (ib : Bool)
    (h : (run ins).trace = post ++ .cancel a q ib true :: pre) :
    post.countP (isRunOf q) = 0 ∧ post.countP (isRestartOf q) = 0 := by
  have hm : markOut true a q (.cancel a q ib true :: pre) = true := by simp [markOut, isCancelFound]
  have h1 := countP_le_after (markOut_mono true a q) (isRunOf q) post hm
  have h2 := countP_le_after (markOut_mono true a q) (isRestartOf q) post hm
  rw [← h] at h1 h2
  have := cancel_final_partial ins a q
  omega

/-- split form, registered timer: after a cancel processed when the timer was registered, at most one run follows
(none if the cancel was processed outside an expiry batch) and no restart: a repeating timer cancelled from its own
callback or from another callback of the same batch is not re-inserted -/
theorem cancel_registered_final (ins : List In) (post pre : List Ev) (a : Addr) (q : Nat) (ib f : Bool) (e : Time)
    (h : (run ins).trace = post ++ .cancel a q ib f :: pre) (hreg : Ev.registered a q e ∈ pre) :
    post.countP (isRunOf q) ≤ 1 ∧ (ib = false → post.countP (isRunOf q) = 0) ∧ post.countP (isRestartOf q) = 0 := by
  have hr : regB a q pre = true := by
    unfold regB; rw [List.any_eq_true]; exact ⟨_, hreg, by simp [isReg]⟩
  have hm : markAll true a q (.cancel a q ib f :: pre) = true := by simp [markAll, isCancel, qual, hr]
  have h1 := countP_le_after (markAll_mono true a q) (isRunOf q) post hm
  have h2 := countP_le_after (markAll_mono true a q) (isRestartOf q) post hm
  rw [← h] at h1 h2
  have hp := cancel_final_partial ins a q
  refine ⟨by omega, ?_, by omega⟩
  intro hib
  subst hib
  have hm' : markOut true a q (.cancel a q false f :: pre) = true := by simp [markOut, isCancelIdle, qual, hr]
  have h3 := countP_le_after (markOut_mono true a q) (isRunOf q) post hm'
  rw [← h] at h3
  omega

/-- whenever the loop may go back to `poll`, a timer whose cancel was processed while it was registered is in neither
set and has no live `Timer` any more -/
theorem cancelled_is_gone (ins : List In) (a : Addr) (q : Nat) (h : markAll true a q (run ins).trace = true) :
    (∀ x c, (run ins).heap x = some c → c.seq ≠ q) ∧ (∀ x, (x, q) ∉ (run ins).active) := by
  have hd := (run_cf ins a q).dead_of_mark h
  refine ⟨hd, ?_⟩
  intro x hm
  obtain ⟨c, h1, h2, _⟩ := (run_top ins).wf.a_live _ hm
  exact hd x c h1 h2

/-- the hypotheses are satisfiable, and the corpus witnesses behave as the property says: the repeating timer 2 is
cancelled by the callback of timer 1 of the same batch (W2): it still runs the invocation that was due, once, and is not
restarted; the cancel is recorded as `inBatch`, not `found` -/
example :
    (run [.addr 16, .addr 32, .now 0, .now 0, .script 1 (some 1) (.cancel (some 2)), .add .loop 1 (.every 1000 true),
      .add .loop 2 (.every 1000 true), .expire, .now 1000, .iter]).trace.filter
        (fun ev => isCancel 32 2 ev || isRunOf 2 ev || isRestartOf 2 ev || isRestartOf 1 ev) =
      [.restarted 16 1 2000, .run 2 2 1 32 true 1000 1000 1000 1000 1000, .cancel 32 2 true false] := by
  decide

/-- T1, statement order: in every function of `TimerQueue.cc` / `Timer.cc` the model implements the source performs
the same significant actions - clock readings, system calls, `new Timer` / `delete`, dereferences of a `Timer*`, set
operations, hand-offs to the loop, calls inside the engine, stores, `return` - in the same order and under the same
nesting of the generated guards and loops as `Model/Timer.lean` (`Model/TimerSkelDecl.lean`); re-extracted from /repo on
every run (`Generated/TimerSkel.lean`), proved in `Proofs/TimerSkelTie.lean` -/
theorem statement_order_tied :
    Gen.TimerSkel.howMuchTimeFromNow = TimerSkel.Decl.howMuchTimeFromNow ∧
    Gen.TimerSkel.readTimerfd = TimerSkel.Decl.readTimerfd ∧
    Gen.TimerSkel.resetTimerfd = TimerSkel.Decl.resetTimerfd ∧
    Gen.TimerSkel.addTimer = TimerSkel.Decl.addTimer ∧
    Gen.TimerSkel.cancel = TimerSkel.Decl.cancel ∧
    Gen.TimerSkel.addTimerInLoop = TimerSkel.Decl.addTimerInLoop ∧
    Gen.TimerSkel.cancelInLoop = TimerSkel.Decl.cancelInLoop ∧
    Gen.TimerSkel.handleRead = TimerSkel.Decl.handleRead ∧
    Gen.TimerSkel.getExpired = TimerSkel.Decl.getExpired ∧
    Gen.TimerSkel.reset = TimerSkel.Decl.reset ∧
    Gen.TimerSkel.insert = TimerSkel.Decl.insert ∧
    Gen.TimerSkel.restart = TimerSkel.Decl.restart :=
  TimerSkel.skeletons_agree

end MuduoVerif.C07
