import MuduoVerif.Proofs.Timer
/-! # C07 — cancel is final and never disturbs another timer; no freed timer is read -/
namespace MuduoVerif.C07
open MuduoVerif.Timer MuduoVerif.Gen.Timer

/-- `cancel_noop`: a cancel whose (pointer, sequence) pair is not active (the timer already ran, was already
cancelled, the id is default-constructed or stale) outside an expiry batch changes nothing but the ghost record
that it was processed. -/
theorem cancel_noop (s : TQ) (id : TimerId) (h : (id.addr, id.seq) ∉ s.active) (hc : s.calling = false) :
    cancelInLoop s id = emit s (.cancel id.addr id.seq false false) := by
  unfold cancelInLoop
  simp [emit, cancelErases, cancelRemembers, h, hc]

end MuduoVerif.C07
