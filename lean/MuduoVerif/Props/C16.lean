import MuduoVerif.Proofs.LogFile
/-!
# C16 — every log record handed to the back-end is written exactly once, whole, in order

Property theorems only; lemmas live in `Proofs/LogFile.lean` and `Proofs/AsyncLog.lean`.
Sequential half: `Model/LogFile.lean` is `LogFile::append_unlocked` / `rollFile` /
`AppendFile::append` as a pure function of the records, of every value `time()` returns and of
every `fwrite_unlocked` result; all its guards and the period arithmetic are the definitions of
`Generated/LogFile.lean`, re-extracted from /repo on every run.  The `tie_*` theorems pin each
generated definition to the comparison the property text relies on, so a changed operator or
constant in /repo makes an obligation fail even when the structure of the code is unchanged.
-/
namespace MuduoVerif.C16
open MuduoVerif.LogFile MuduoVerif.Gen.LogFile

/-! ## T1 ties: the generated guards are the documented comparisons -/

theorem tie_logfile_guards (written rollSize count checkEveryN now lastFlush flushInterval lastRoll thisPeriod startOfPeriod : Int) :
    (rollBySize written rollSize ↔ rollSize < written) ∧
    (checkDue count checkEveryN ↔ checkEveryN ≤ count) ∧ countReset = 0 ∧
    (periodChanged thisPeriod startOfPeriod ↔ thisPeriod ≠ startOfPeriod) ∧
    (flushDue now lastFlush flushInterval ↔ flushInterval < now - lastFlush) ∧
    (rollAllowed now lastRoll ↔ lastRoll < now) := by
  unfold rollBySize checkDue countReset periodChanged flushDue rollAllowed
  exact ⟨gt_iff_lt, ge_iff_le, rfl, Iff.rfl, gt_iff_lt, gt_iff_lt⟩

theorem tie_period (now : Int) :
    kRollPerSeconds = 86400 ∧ periodOf now = now.tdiv 86400 * 86400 ∧ rollStart now = periodOf now := by
  simp only [kRollPerSeconds, periodOf, rollStart, and_self]

theorem tie_append_loop (written len n remain : Nat) (total w : Int) :
    (appendContinues written len ↔ written ≠ len) ∧ appendRemain len written = len - written ∧
    appendOffset written = written ∧ appendRequest remain = remain ∧
    (appendShort n remain ↔ n ≠ remain) ∧ appendAdvance written n = written + n ∧
    appendTotal total w = total + w := by
  unfold appendContinues appendRemain appendOffset appendRequest appendShort appendAdvance appendTotal
  exact ⟨Iff.rfl, rfl, Nat.zero_add _, rfl, Iff.rfl, rfl, rfl⟩

/-! ## `AppendFile::append` -/

/-- **append_all**: whatever counts the stream accepts per call (every split pattern, including
zero-length progress), the bytes handed to the stream are a prefix of the record, in order and
without gaps or repetition; unless the stream reports an error the prefix is the whole record and
`writtenBytes_` grows by exactly its length. -/
theorem append_all (rec : Bytes) (fws : List FwRes) :
    (∃ k, k ≤ rec.length ∧ (appendFile rec fws).out = rec.take k ∧ (appendFile rec fws).counted ≤ k) ∧
    ((appendFile rec fws).failed = false →
      (appendFile rec fws).out = rec ∧ (appendFile rec fws).counted = rec.length) :=
  ⟨appendFile_prefix rec fws, appendFile_all rec fws⟩

/-- the requests are contiguous: what reaches the stream is the concatenation, in call order, of
the accepted part of each request (`offset` bytes into the record, `accepted` bytes long) -/
theorem append_calls_contiguous (rec : Bytes) (fws : List FwRes) :
    (appendFile rec fws).out =
      ((appendFile rec fws).calls.map fun c => (rec.drop c.1).take c.2.2).flatten :=
  appendLoop_calls rec fws 0 (Nat.zero_le _)

/-- the loop is left through `break` only when the environment raised the error flag -/
theorem append_fails_only_on_error (rec : Bytes) (fws : List FwRes) (h : ∀ r ∈ fws, r.err = false) :
    (appendFile rec fws).failed = false := by
  unfold appendFile
  generalize 0 = w
  induction fws generalizing w with
  | nil => unfold appendLoop; split <;> rfl
  | cons r rs ih =>
    unfold appendLoop
    have hr : r.err = false := h r (by simp)
    split
    · rw [if_neg (by simp [hr])]
      exact ih (fun x hx => h x (by simp [hx])) _
    · rfl

/-! ## the files -/

/-- **files_concat**: for every operation sequence, clock sequence and split pattern, the files in
creation order consist of whole groups of consecutive delivered records (no record is split across
two files: the roll happens after an append), and concatenated they are the delivered sequence. -/
theorem files_concat (cfg : Cfg) (clk : Nat → Int) (s0 : St) (h0 : init clk = some s0) (ops : List Op) :
    ∃ groups : List (List Bytes), groups.flatten = delivered ops ∧
      (run cfg clk s0 ops).files.map File.content = groups.map List.flatten := by
  obtain ⟨groups, cg, h1, h2, h3⟩ := FilesInv_run cfg clk ops (init_FilesInv h0)
  refine ⟨groups ++ [cg], by simpa using h3, ?_⟩
  simp [St.files, h1, h2]

/-- … and when no append is cut short by a stream error these are the appended records themselves,
byte for byte, exactly once, in order -/
theorem files_concat_records (cfg : Cfg) (clk : Nat → Int) (s0 : St) (h0 : init clk = some s0) (ops : List Op)
    (hok : noError ops) :
    ((run cfg clk s0 ops).files.map File.content).flatten = (records ops).flatten ∧
    ∃ groups : List (List Bytes), groups.flatten = records ops ∧
      (run cfg clk s0 ops).files.map File.content = groups.map List.flatten := by
  obtain ⟨groups, h1, h2⟩ := files_concat cfg clk s0 h0 ops
  rw [delivered_eq_records ops hok] at h1
  refine ⟨?_, groups, h1, h2⟩
  rw [h2, ← h1]
  simp [List.flatten_flatten]

/-- **roll_rate** (1): the names of the files — the seconds they were created in — are strictly
increasing, for every clock sequence (monotone or not): at most one new file per second, and no
file is ever opened a second time. -/
theorem roll_rate (cfg : Cfg) (clk : Nat → Int) (s0 : St) (h0 : init clk = some s0) (ops : List Op) :
    ((run cfg clk s0 ops).files.map File.name).Pairwise (· < ·) :=
  (NamesInv_run cfg clk ops (init_NamesInv h0)).1

theorem roll_names_distinct (cfg : Cfg) (clk : Nat → Int) (s0 : St) (h0 : init clk = some s0) (ops : List Op) :
    ((run cfg clk s0 ops).files.map File.name).Nodup :=
  (roll_rate cfg clk s0 h0 ops).imp (fun h => Int.ne_of_lt h)

/-- **roll_rate** (2): an `append` opens a new file exactly when the guards say so — the current
file grew beyond `rollSize_`, or the `checkEveryN_`-th append since the last check sees a new
period — and in both cases only if the clock has moved past the second of the last roll. -/
theorem roll_exactly (cfg : Cfg) (clk : Nat → Int) (s : St) (rec : Bytes) (fws : List FwRes) :
    let w := s.written + ((appendFile rec fws).counted : Int)
    let s' := step cfg clk s (.append rec fws)
    (s'.closed.length = s.closed.length + 1 ↔
      (cfg.rollSize < w ∧ s.lastRoll < clk s.tick) ∨
      (¬ cfg.rollSize < w ∧ cfg.checkEveryN ≤ s.count + 1 ∧
        (clk s.tick).tdiv 86400 * 86400 ≠ s.startOfPeriod ∧ s.lastRoll < clk (s.tick + 1))) ∧
    (s'.closed.length = s.closed.length ∨ s'.closed.length = s.closed.length + 1) := by
  simp only [step, afterAppend, afterWrite, rollFile, rollBySize, checkDue, periodChanged, periodOf, kRollPerSeconds,
    flushDue, rollAllowed, appendTotal, gt_iff_lt, ge_iff_le, ne_eq]
  split_ifs <;> simp_all <;> omega

/-- **roll_rate** (3): an `append` flushes exactly when it is a clock-check append that does not
roll and more than `flushInterval_` seconds passed since the last flush. -/
theorem flush_exactly (cfg : Cfg) (clk : Nat → Int) (s : St) (rec : Bytes) (fws : List FwRes) :
    let w := s.written + ((appendFile rec fws).counted : Int)
    let s' := step cfg clk s (.append rec fws)
    ((s'.closed = s.closed ∧ s'.cur.flushedAt.length = s.cur.flushedAt.length + 1) ↔
      (¬ cfg.rollSize < w ∧ cfg.checkEveryN ≤ s.count + 1 ∧
        (clk s.tick).tdiv 86400 * 86400 = s.startOfPeriod ∧ cfg.flushInterval < clk s.tick - s.lastFlush)) := by
  simp only [step, afterAppend, afterWrite, rollFile, rollBySize, checkDue, periodChanged, periodOf, kRollPerSeconds,
    flushDue, rollAllowed, appendTotal, File.flush, gt_iff_lt, ge_iff_le, ne_eq]
  split_ifs <;> simp_all <;> omega

/-- hypotheses of the theorems above are satisfiable by a non-trivial run: three records, a short
write, a roll by size refused within the same second and granted in the next -/
example :
    ∃ s0, init (fun i => [100, 100, 101].getD i 101) = some s0 ∧
      ((run { rollSize := 3, flushInterval := 3, checkEveryN := 1024 } (fun i => [100, 100, 101].getD i 101) s0
        [.append [1, 2] [], .append [3, 4] [⟨1, false⟩], .append [5] [], .append [6] []]).files.map File.content)
        = [[1, 2, 3, 4, 5], [6]] := by
  refine ⟨_, rfl, ?_⟩
  decide

end MuduoVerif.C16
