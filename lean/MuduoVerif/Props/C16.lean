import MuduoVerif.Proofs.LogFile
import MuduoVerif.Proofs.AsyncLog
import MuduoVerif.Proofs.LogFileSkelTie
import MuduoVerif.Proofs.ThreadSkelTie
/-!
# C16 — every log record handed to the back-end is written exactly once, whole, in order

Property theorems only; lemmas live in `Proofs/LogFile.lean` and `Proofs/AsyncLog.lean`.
Sequential half: `Model/LogFile.lean` is `LogFile::append_unlocked` / `rollFile` /
`AppendFile::append` as a pure function of the records, of every value `time()` returns and of
every `fwrite_unlocked` result; all its guards and the period arithmetic are the definitions of
`Generated/LogFile.lean`, re-extracted from /repo on every run.  The `tie_*` theorems pin each
generated definition to the comparison the property text relies on, so a changed operator or
constant in /repo makes an obligation fail even when the structure of the code is unchanged.

Concurrent half (second part of this file): `Model/AsyncLog.lean` is a transition system with arbitrary
interleaving of `AsyncLogging::append` calls (any number of threads), the phases of the back-end thread,
`start` and `stop`; the statements of every critical section and phase are the statement lists of
`Generated/AsyncLog.lean`, re-extracted from /repo on every run, and the model only interprets them.
The proofs (`Proofs/AsyncLog.lean`) evaluate those lists, so a dropped or reordered statement (the final
collect losing its `swap`, say) or a changed comparison (`>` → `>=` in the front-end's space test) makes an
obligation fail.
-/
namespace MuduoVerif.C16
open MuduoVerif.LogFile MuduoVerif.Gen.LogFile

/-! ## T1 ties: the generated guards are the documented comparisons -/

/-- the models below are sequential: that is `LogFile`'s behaviour under several threads only because both public
entry points that touch the file, `append` and `flush`, do all their work under `*mutex_` when the file was created
thread safe (`AppendFile` writes with `fwrite_unlocked`, so the stdio lock protects nothing).  Extracted from the
source on every run; the free-running scenario `harness/logfile_mt.cc` turns a broken tie into a failing input. -/
theorem threadsafe_paths_locked : appendLocks = true ∧ flushLocks = true := by decide

theorem tie_logfile_guards (written rollSize count checkEveryN now lastFlush flushInterval lastRoll thisPeriod startOfPeriod : Int) :
    (rollBySize written rollSize ↔ rollSize < written) ∧
    (checkDue count checkEveryN ↔ checkEveryN ≤ count) ∧ countReset = 0 ∧
    (periodChanged thisPeriod startOfPeriod ↔ thisPeriod ≠ startOfPeriod) ∧
    (flushDue now lastFlush flushInterval ↔ flushInterval < now - lastFlush) ∧
    (rollAllowed now lastRoll ↔ lastRoll < now) := by
  unfold rollBySize checkDue countReset periodChanged flushDue rollAllowed
  exact ⟨gt_iff_lt, ge_iff_le, rfl, Iff.rfl, gt_iff_lt, gt_iff_lt⟩

theorem tie_period (now : Int) :
    kRollPerSeconds = 86400 ∧ periodOf now = now.tdiv 86400 * 86400 ∧ rollStart now = periodOf now := by
  simp only [kRollPerSeconds, periodOf, rollStart, and_self]

theorem tie_append_loop (written len n remain : Nat) (total w : Int) :
    (appendContinues written len ↔ written ≠ len) ∧ appendRemain len written = len - written ∧
    appendOffset written = written ∧ appendRequest remain = remain ∧
    (appendShort n remain ↔ n ≠ remain) ∧ appendAdvance written n = written + n ∧
    appendTotal total w = total + w := by
  unfold appendContinues appendRemain appendOffset appendRequest appendShort appendAdvance appendTotal
  exact ⟨Iff.rfl, rfl, Nat.zero_add _, rfl, Iff.rfl, rfl, rfl⟩

/-! ## `AppendFile::append` -/

/-- **append_all**: whatever counts the stream accepts per call (every split pattern, including
zero-length progress), the bytes handed to the stream are a prefix of the record, in order and
without gaps or repetition; unless the stream reports an error the prefix is the whole record and
`writtenBytes_` grows by exactly its length. -/
theorem append_all (rec : Bytes) (fws : List FwRes) :
    (∃ k, k ≤ rec.length ∧ (appendFile rec fws).out = rec.take k ∧ (appendFile rec fws).counted ≤ k) ∧
    ((appendFile rec fws).failed = false →
      (appendFile rec fws).out = rec ∧ (appendFile rec fws).counted = rec.length) :=
  ⟨appendFile_prefix rec fws, appendFile_all rec fws⟩

/-- the requests are contiguous: what reaches the stream is the concatenation, in call order, of
the accepted part of each request (`offset` bytes into the record, `accepted` bytes long) -/
theorem append_calls_contiguous (rec : Bytes) (fws : List FwRes) :
    (appendFile rec fws).out =
      ((appendFile rec fws).calls.map fun c => (rec.drop c.1).take c.2.2).flatten :=
  appendLoop_calls rec fws 0 (Nat.zero_le _)

/-- the loop is left through `break` only when the environment raised the error flag -/
theorem append_fails_only_on_error (rec : Bytes) (fws : List FwRes) (h : ∀ r ∈ fws, r.err = false) :
    (appendFile rec fws).failed = false := by
  unfold appendFile
  generalize 0 = w
  induction fws generalizing w with
  | nil => unfold appendLoop; split <;> rfl
  | cons r rs ih =>
    unfold appendLoop
    have hr : r.err = false := h r (by simp)
    split
    · rw [if_neg (by simp [hr])]
      exact ih (fun x hx => h x (by simp [hx])) _
    · rfl

/-! ## the files -/

/-- **files_concat**: for every operation sequence, clock sequence and split pattern, the files in
creation order consist of whole groups of consecutive delivered records (no record is split across
two files: the roll happens after an append), and concatenated they are the delivered sequence. -/
theorem files_concat (cfg : Cfg) (clk : Nat → Int) (s0 : St) (h0 : init clk = some s0) (ops : List Op) :
    ∃ groups : List (List Bytes), groups.flatten = delivered ops ∧
      (run cfg clk s0 ops).files.map File.content = groups.map List.flatten := by
  obtain ⟨groups, cg, h1, h2, h3⟩ := FilesInv_run cfg clk ops (init_FilesInv h0)
  refine ⟨groups ++ [cg], by simpa using h3, ?_⟩
  simp [St.files, h1, h2]

/-- … and when no append is cut short by a stream error these are the appended records themselves,
byte for byte, exactly once, in order -/
theorem files_concat_records (cfg : Cfg) (clk : Nat → Int) (s0 : St) (h0 : init clk = some s0) (ops : List Op)
    (hok : noError ops) :
    ((run cfg clk s0 ops).files.map File.content).flatten = (records ops).flatten ∧
    ∃ groups : List (List Bytes), groups.flatten = records ops ∧
      (run cfg clk s0 ops).files.map File.content = groups.map List.flatten := by
  obtain ⟨groups, h1, h2⟩ := files_concat cfg clk s0 h0 ops
  rw [delivered_eq_records ops hok] at h1
  refine ⟨?_, groups, h1, h2⟩
  rw [h2, ← h1]
  simp [List.flatten_flatten]

/-- **roll_rate** (1): the names of the files — the seconds they were created in — are strictly
increasing, for every clock sequence (monotone or not): at most one new file per second, and no
file is ever opened a second time. -/
theorem roll_rate (cfg : Cfg) (clk : Nat → Int) (s0 : St) (h0 : init clk = some s0) (ops : List Op) :
    ((run cfg clk s0 ops).files.map File.name).Pairwise (· < ·) :=
  (NamesInv_run cfg clk ops (init_NamesInv h0)).1

theorem roll_names_distinct (cfg : Cfg) (clk : Nat → Int) (s0 : St) (h0 : init clk = some s0) (ops : List Op) :
    ((run cfg clk s0 ops).files.map File.name).Nodup :=
  (roll_rate cfg clk s0 h0 ops).imp (fun h => Int.ne_of_lt h)

/-- **roll_rate** (2): an `append` opens a new file exactly when the guards say so — the current
file grew beyond `rollSize_`, or the `checkEveryN_`-th append since the last check sees a new
period — and in both cases only if the clock has moved past the second of the last roll. -/
theorem roll_exactly (cfg : Cfg) (clk : Nat → Int) (s : St) (rec : Bytes) (fws : List FwRes) :
    let w := s.written + ((appendFile rec fws).counted : Int)
    let s' := step cfg clk s (.append rec fws)
    (s'.closed.length = s.closed.length + 1 ↔
      (cfg.rollSize < w ∧ s.lastRoll < clk s.tick) ∨
      (¬ cfg.rollSize < w ∧ cfg.checkEveryN ≤ s.count + 1 ∧
        (clk s.tick).tdiv 86400 * 86400 ≠ s.startOfPeriod ∧ s.lastRoll < clk (s.tick + 1))) ∧
    (s'.closed.length = s.closed.length ∨ s'.closed.length = s.closed.length + 1) := by
  simp only [step, afterAppend, afterWrite, rollFile, rollBySize, checkDue, periodChanged, periodOf, kRollPerSeconds,
    flushDue, rollAllowed, appendTotal, gt_iff_lt, ge_iff_le, ne_eq]
  split_ifs <;> simp_all <;> omega

/-- **roll_rate** (3): an `append` flushes exactly when it is a clock-check append that does not
roll and more than `flushInterval_` seconds passed since the last flush. -/
theorem flush_exactly (cfg : Cfg) (clk : Nat → Int) (s : St) (rec : Bytes) (fws : List FwRes) :
    let w := s.written + ((appendFile rec fws).counted : Int)
    let s' := step cfg clk s (.append rec fws)
    ((s'.closed = s.closed ∧ s'.cur.flushedAt.length = s.cur.flushedAt.length + 1) ↔
      (¬ cfg.rollSize < w ∧ cfg.checkEveryN ≤ s.count + 1 ∧
        (clk s.tick).tdiv 86400 * 86400 = s.startOfPeriod ∧ cfg.flushInterval < clk s.tick - s.lastFlush)) := by
  simp only [step, afterAppend, afterWrite, rollFile, rollBySize, checkDue, periodChanged, periodOf, kRollPerSeconds,
    flushDue, rollAllowed, appendTotal, File.flush, gt_iff_lt, ge_iff_le, ne_eq]
  split_ifs <;> simp_all <;> omega

/-- hypotheses of the theorems above are satisfiable by a non-trivial run: three records, a short
write, a roll by size refused within the same second and granted in the next -/
example :
    ∃ s0, init (fun i => [100, 100, 101].getD i 101) = some s0 ∧
      ((run { rollSize := 3, flushInterval := 3, checkEveryN := 1024 } (fun i => [100, 100, 101].getD i 101) s0
        [.append [1, 2] [], .append [3, 4] [⟨1, false⟩], .append [5] [], .append [6] []]).files.map File.content)
        = [[1, 2, 3, 4, 5], [6]] := by
  refine ⟨_, rfl, ?_⟩
  decide

/-- T1, statement order: in the functions of `LogFile` / `FileUtil::AppendFile` the model implements (constructor,
`append`, `flush`, `append_unlocked`, `rollFile`, `getLogFileName`; `AppendFile`'s constructor, destructor, `append`,
`flush`, `write`) the source performs the same stores (of the same expressions), engine calls, libc calls, lock
acquisitions, assertions, `break`s and returns, in the same order and under the same nesting of the generated guards
and of the write loop as `Model/LogFile.lean` (`Model/LogFileSkelDecl.lean`); re-extracted from /repo on every run
(`Generated/LogFileSkel.lean`), proved in `Proofs/LogFileSkelTie.lean` -/
theorem statement_order_tied :
    Gen.LogFileSkel.ctor = LogFileSkel.Decl.ctor ∧
    Gen.LogFileSkel.append = LogFileSkel.Decl.append ∧
    Gen.LogFileSkel.flush = LogFileSkel.Decl.flush ∧
    Gen.LogFileSkel.appendUnlocked = LogFileSkel.Decl.appendUnlocked ∧
    Gen.LogFileSkel.rollFile = LogFileSkel.Decl.rollFile ∧
    Gen.LogFileSkel.getLogFileName = LogFileSkel.Decl.getLogFileName ∧
    Gen.LogFileSkel.fileCtor = LogFileSkel.Decl.fileCtor ∧
    Gen.LogFileSkel.fileDtor = LogFileSkel.Decl.fileDtor ∧
    Gen.LogFileSkel.fileAppend = LogFileSkel.Decl.fileAppend ∧
    Gen.LogFileSkel.fileFlush = LogFileSkel.Decl.fileFlush ∧
    Gen.LogFileSkel.fileWrite = LogFileSkel.Decl.fileWrite :=
  LogFileSkel.skeletons_agree

end MuduoVerif.C16

namespace MuduoVerif.C16
open MuduoVerif.Gen.LogFile (fixedAppendFits kLargeBuffer)
open MuduoVerif.AsyncLog MuduoVerif.Gen.AsyncLog

/-! ## `AsyncLogging` (concurrent half) -/

/-- **front_fits_is_fixed_fits**: a record `AsyncLogging::append` decides to put into the current buffer is
really stored by `FixedBuffer::append` (which silently ignores a record unless its own test holds). -/
theorem front_fits_is_fixed_fits (a l : Nat) : frontFits a l → fixedAppendFits a l :=
  frontFits_fixed a l

/-- … and conversely the front-end switches buffers only when the current one really cannot take the record -/
theorem fixed_fits_is_front_fits (a l : Nat) : fixedAppendFits a l → frontFits a l :=
  fixed_frontFits a l

/-- a fresh buffer takes every record shorter than itself; the real class uses `FixedBuffer<kLargeBuffer>` -/
theorem fresh_buffer_takes (cap l : Nat) (h : l < cap) :
    fixedAppendFits (avail cap []) l ∧ asyncBufferSize = kLargeBuffer :=
  ⟨empty_takes cap l h, by simp [asyncBufferSize, kLargeBuffer]⟩

/-- **async_order**: for every buffer size, every number of threads, every history (interleaving of `append`
calls with the back-end's steps, `start`, `stop`) in which each record is shorter than a buffer: the ledger of
what the back-end has written or dropped, then the buffers it holds, then the queued buffers, then the current
buffer are — as lists of whole records — exactly the `append` calls of the history in the order of their
critical sections; the records in the file are the kept part of the ledger, in that order; and no null buffer
pointer is ever used. -/
theorem async_order (cap : Nat) (steps : List Step) (s : St) (hrun : run (init cap) steps = some s)
    (hfit : ∀ r ∈ fronts steps, r.len < cap) :
    expand s.ledger ++ (inflight s).flatten ++ s.bufs.flatten ++ s.cur = fronts steps ∧
    recsOf s.disk = keptOf s.ledger ∧ s.fault = false := by
  have h := AInv_run cap steps (init cap) s (AInv_init cap) hfit hrun
  have ha := appended_run steps (init cap) s hrun
  exact ⟨by rw [h.eq, ha]; simp [init], h.kept, h.ok.2.1⟩

/-- exactly once, never split, in order: what is in the file or still in some buffer is a sub-list of the
appended records (mutex order), hence each record occurs at most as often as it was appended and relative
order is kept -/
theorem async_exactly_once_in_order (cap : Nat) (steps : List Step) (s : St) (hrun : run (init cap) steps = some s)
    (hfit : ∀ r ∈ fronts steps, r.len < cap) :
    (recsOf s.disk ++ (inflight s).flatten ++ s.bufs.flatten ++ s.cur).Sublist (fronts steps) := by
  obtain ⟨h1, h2, _⟩ := async_order cap steps s hrun hfit
  rw [← h1, h2]
  exact List.Sublist.append (List.Sublist.append (List.Sublist.append (keptOf_sublist_expand _) (List.Sublist.refl _))
    (List.Sublist.refl _)) (List.Sublist.refl _)

/-- each thread's records reach the file in that thread's order -/
theorem async_thread_order (cap : Nat) (steps : List Step) (s : St) (hrun : run (init cap) steps = some s)
    (hfit : ∀ r ∈ fronts steps, r.len < cap) (t : Nat) :
    ((recsOf s.disk).filter (·.tid = t)).Sublist ((fronts steps).filter (·.tid = t)) := by
  have h := async_exactly_once_in_order cap steps s hrun hfit
  refine List.Sublist.filter _ (List.Sublist.trans ?_ h)
  simp only [List.append_assoc]
  exact List.sublist_append_left _ _

/-- **drop_only_announced**: the announcements in the file are, one for one and in order, the groups of
buffers the back-end discarded, each reporting the number of buffers of its group; the same announcements
went to stderr; and when there is no announcement the file holds the whole ledger — nothing vanished. -/
theorem drop_only_announced (cap : Nat) (steps : List Step) (s : St) (hrun : run (init cap) steps = some s)
    (hfit : ∀ r ∈ fronts steps, r.len < cap) :
    notesOf s.disk = dropsOf s.ledger ∧ s.errNotes = notesOf s.disk ∧
    (notesOf s.disk = [] →
      recsOf s.disk ++ (inflight s).flatten ++ s.bufs.flatten ++ s.cur = fronts steps) := by
  have h := AInv_run cap steps (init cap) s (AInv_init cap) hfit hrun
  obtain ⟨h1, h2, _⟩ := async_order cap steps s hrun hfit
  refine ⟨h.notes, h.err, fun hn => ?_⟩
  rw [← h1, h2, expand_eq_keptOf _ (h.notes ▸ hn)]

/-- **oversize_guard**, the excluded branch: a record that does not fit even an empty buffer is counted as
appended but stored nowhere — `FixedBuffer::append` ignores it without any announcement (the buffer switch
happens all the same).  Hence the hypothesis `r.len < cap` of the theorems above. -/
theorem oversize_dropped (s : St) (r : Rec) (hok : s.curOk = true) (h : s.cap ≤ r.len) :
    (front s r).bufs.flatten ++ (front s r).cur = s.bufs.flatten ++ s.cur ∧
    (front s r).appended = s.appended ++ [r] ∧ (front s r).bufs = s.bufs ++ [s.cur] := by
  have hnf := (full_refuses s.cap s.cur r.len h).1
  have hnx := (full_refuses s.cap [] r.len h).2
  have hb : bufAppend s.cap [] r = [] := by unfold bufAppend; rw [if_neg hnx]
  unfold front
  simp [hok, hnf, runOps_frontElse r s hok, hb]

/-- the buffer switch signals a waiting back-end -/
theorem switch_signals (s : St) (r : Rec) (hok : s.curOk = true) (hnf : ¬ frontFits (avail s.cap s.cur) r.len)
    (hw : s.pc = .waiting) : (front s r).woken = true := by
  unfold front
  simp [hok, hnf, runOps_frontElse r s hok, notified, hw]

/-- **stop_flushes**: when `stop()` has returned (which it does only after the back-end thread has ended),
everything appended before the call — `fronts pre` — is in the ledger of written-or-announced records, in
order; everything handed to the file is flushed; and without a drop announcement it is all in the file. -/
theorem stop_flushes (cap : Nat) (pre post : List Step) (s : St)
    (hrun : run (init cap) (pre ++ Step.stopCall :: post) = some s)
    (hfit : ∀ r ∈ fronts (pre ++ Step.stopCall :: post), r.len < cap) (hret : s.stopReturned = true) :
    s.pc = .done ∧ fronts pre <+: expand s.ledger ∧ s.flushed = s.disk.length ∧
    (notesOf s.disk = [] → fronts pre <+: recsOf s.disk) := by
  have h := AInv_run cap _ (init cap) s (AInv_init cap) hfit hrun
  rw [run_append] at hrun
  cases h1 : run (init cap) pre with
  | none => simp [h1] at hrun
  | some s1 =>
    simp only [h1, Option.bind_some, run] at hrun
    cases h2 : step s1 .stopCall with
    | none => simp [h2] at hrun
    | some s2 =>
      simp only [h2] at hrun
      obtain ⟨ha, hc⟩ := stopCall_atStop s1 s2 h2
      have hat : s.atStop = fronts pre := by
        rw [run_atStop post s2 s hc hrun, ha, appended_run pre (init cap) s1 h1]; simp [init]
      have hd := h.ret hret
      obtain ⟨_, hp, hfl⟩ := h.fin hd
      refine ⟨hd, hat ▸ hp, hfl, fun hn => ?_⟩
      rw [h.kept, ← expand_eq_keptOf _ (h.notes ▸ hn)]
      exact hat ▸ hp

/-- the hypotheses are satisfiable, exact-fit record: the second record is exactly as long as the space left
(it must go to the next buffer), `stop()` is called while both buffers are still with the front-end -/
example :
    ∃ s, run (init 10) [.start, .test, .front ⟨1, 0, 5⟩, .front ⟨1, 1, 5⟩, .front ⟨2, 0, 3⟩, .stopCall,
                         .enter, .write, .test, .final, .stopJoin] = some s ∧
      s.stopReturned = true ∧ recsOf s.disk = [⟨1, 0, 5⟩, ⟨1, 1, 5⟩, ⟨2, 0, 3⟩] ∧ s.bufs = [] ∧ notesOf s.disk = [] :=
  ⟨_, rfl, rfl, rfl, rfl, rfl⟩

/-- … `stop()` right after a buffer switch, with the back-end past its last swap (it sees `running_ == false`
at once): the final collect writes the queued buffer and the current one -/
example :
    ∃ s, run (init 10) [.start, .test, .enter, .wake 1, .write, .front ⟨1, 0, 6⟩, .front ⟨1, 1, 6⟩, .stopCall,
                         .test, .final, .stopJoin] = some s ∧
      s.stopReturned = true ∧ recsOf s.disk = [⟨1, 0, 6⟩, ⟨1, 1, 6⟩] ∧ s.flushed = 2 :=
  ⟨_, rfl, rfl, rfl, rfl⟩

/-- … and the overload valve: 27 buffers between two cycles, 2 are written, 25 announced as dropped -/
example :
    ∃ s, run (init 2) ((List.range 27).map (fun i => Step.front ⟨0, i, 1⟩) ++
                        [.start, .test, .enter, .write, .stopCall, .test, .final, .stopJoin]) = some s ∧
      s.stopReturned = true ∧ recsOf s.disk = [⟨0, 0, 1⟩, ⟨0, 1, 1⟩] ∧ notesOf s.disk = [25] ∧ dropsOf s.ledger = [25] :=
  ⟨_, rfl, rfl, rfl, rfl, rfl⟩

end MuduoVerif.C16

namespace MuduoVerif.C16

/-! ## the primitives under `AsyncLogging` (`Mutex.h`, `Condition.cc`, `CountDownLatch.cc`, `Thread.cc`) -/

/-- **backend_primitives_tied**: what `Model/AsyncLog.lean` takes as atomic - `MutexLockGuard lock(mutex_)` in `append` and
in the back-end's critical section, `cond_.notify()`, the timed wait `cond_.waitForSeconds(flushInterval_)` (pc `waiting`,
moves `wake 0 / 1 / 2`), `thread_.start()` followed by `latch_.wait()` in `start()`, `latch_.countDown()` at the head of
`threadFunc`, `thread_.join()` in `stop()` - is what muduo's wrappers ask pthread for: statement skeletons re-extracted
from /repo on every run (`Generated/ThreadSkel.lean`), equal to `Model/ThreadSkelDecl.lean`.  In particular the timed wait
is ONE clock reading, the two deadline assignments, and then the shape of `wait()` around `pthread_cond_timedwait` on the
same condition, mutex and deadline, reporting "timed out" iff pthread said `ETIMEDOUT`. -/
theorem backend_primitives_tied :
    (Gen.ThreadSkel.lockGuardCtor = ThreadSkel.Decl.lockGuardCtor ∧
     Gen.ThreadSkel.lockGuardDtor = ThreadSkel.Decl.lockGuardDtor ∧
     Gen.ThreadSkel.mutexLock = ThreadSkel.Decl.mutexLock ∧
     Gen.ThreadSkel.mutexUnlock = ThreadSkel.Decl.mutexUnlock) ∧
    (Gen.ThreadSkel.condNotify = ThreadSkel.Decl.condNotify ∧
     Gen.ThreadSkel.condWaitForSeconds = ThreadSkel.Decl.condWaitForSeconds ∧
     Gen.ThreadSkel.unassignGuardCtor = ThreadSkel.Decl.unassignGuardCtor ∧
     Gen.ThreadSkel.unassignGuardDtor = ThreadSkel.Decl.unassignGuardDtor) ∧
    (Gen.ThreadSkel.latchWait = ThreadSkel.Decl.latchWait ∧
     Gen.ThreadSkel.latchCountDown = ThreadSkel.Decl.latchCountDown ∧
     Gen.ThreadSkel.threadStart = ThreadSkel.Decl.threadStart ∧
     Gen.ThreadSkel.runInThread = ThreadSkel.Decl.runInThread ∧
     Gen.ThreadSkel.threadJoin = ThreadSkel.Decl.threadJoin) :=
  ⟨⟨ThreadSkel.skeleton_lockGuardCtor, ThreadSkel.skeleton_lockGuardDtor, ThreadSkel.skeleton_mutexLock,
    ThreadSkel.skeleton_mutexUnlock⟩,
   ⟨ThreadSkel.skeleton_condNotify, ThreadSkel.skeleton_condWaitForSeconds, ThreadSkel.skeleton_unassignGuardCtor,
    ThreadSkel.skeleton_unassignGuardDtor⟩,
   ⟨ThreadSkel.skeleton_latchWait, ThreadSkel.skeleton_latchCountDown, ThreadSkel.skeleton_threadStart,
    ThreadSkel.skeleton_runInThread, ThreadSkel.skeleton_threadJoin⟩⟩

/-- **flush_wait_deadline**: the deadline of the back-end's timed wait, `flushInterval` being the constructor's `int`
(the product `flushInterval * 10^9` is exact in a `double`): for `flushInterval ≥ 0` it is a valid `timespec`, exactly
`flushInterval` seconds after the clock reading; for `flushInterval < 0` - nothing in `AsyncLogging` or `Condition`
excludes it - it is an INVALID one (negative `tv_nsec`) unless the reading happens to have `tv_nsec = 0`:
`pthread_cond_timedwait` then fails with `EINVAL` at once, `waitForSeconds` reports "not timed out", and `threadFunc` goes
round its loop without ever blocking.  Hence the assumption `flushInterval ≥ 0` of this property. -/
theorem flush_wait_deadline (now : Gen.ThreadSkel.Timespec) (flushInterval : Int)
    (h0 : 0 ≤ now.tv_nsec) (h1 : now.tv_nsec < 1000000000) :
    (0 ≤ flushInterval →
      (Gen.ThreadSkel.waitForSecondsDeadline now (flushInterval * 1000000000)).tv_sec = now.tv_sec + flushInterval ∧
      (Gen.ThreadSkel.waitForSecondsDeadline now (flushInterval * 1000000000)).tv_nsec = now.tv_nsec) ∧
    (flushInterval < 0 → 0 < now.tv_nsec →
      (Gen.ThreadSkel.waitForSecondsDeadline now (flushInterval * 1000000000)).tv_nsec < 0) :=
  ThreadSkel.deadline_whole_seconds now flushInterval h0 h1

end MuduoVerif.C16
