import MuduoVerif.Proofs.LoopExit
import MuduoVerif.Proofs.LoopSkelTie
/-!
# C04 — tasks given to a loop run exactly once, in order, on its thread, without delay

Property theorems only; lemmas live in `Proofs/Loop.lean` (FIFO invariant), `Proofs/LoopWake.lean`
(wake-up invariant) and `Proofs/LoopExit.lean` (drain on exit).

`Model/Loop.lean` is a thread-indexed transition system: `step s k` is the code thread `k` executes between two
consecutive visible actions (named points in `EventLoop.cc`, the eventfd write/read, the start of a task body, the
return of `poll`).  Any number of threads, any programs (`queueInLoop`, `runInLoop`, `quit`, a byte for an I/O
handler; task bodies submit again, so nesting is unbounded; submissions before `loop()`), any schedule
(`run s sched = sched.foldl step s`).  **There is no poll timeout in the model**: the loop thread in `poll` moves
only when the eventfd counter is positive or the pipe is readable, so "never waits for the poll timeout" is the
safety property "never asleep in `poll` with work queued and nobody about to write the eventfd".

`loop()` may be entered again after it has returned (`quit_` is re-armed on the way out): in the model the owner's
program continues with further segments (`again`), each run outside `loop()` like the part before the first call, each
followed by another call of `loop()`.  A **run** is the stretch from one `loop:entry` to the next `returned`.  The queue,
`appendOrder` / `executed` and the eventfd belong to the loop object and go on across runs, so `once_fifo`,
`executed_prefix`, `no_lost_wakeup`, `prompt` … are statements about the whole life of the loop; `quitMark` / `retMark`
(`drain_on_exit`) speak about the run that has just ended.

Functors are objects: what a functor owns dies with it, on the loop thread, and that destructor is user code which may
submit again (`dtbl t` = what the destruction of task `t`'s functor object does).  The functor objects of a batch die
after the whole batch has run, in vector order, **before `callingPendingFunctors_` is reset** (`functors.clear()`;
extracted as `batchDestroyedBeforeReset`); the functor given to an inline `runInLoop` dies when the call returns.  Every
theorem below is about this extended system, so "a functor", "another functor" in the property text include whatever
runs because a functor object dies.

The wake condition of `queueInLoop`, the inline test of `runInLoop`, the swap in `doPendingFunctors`, the place where
the batch is destroyed, the final drain and the statement order of `loop()` are definitions of `Generated/Loop.lean`,
re-extracted from /repo on every run; the `tie_*` theorems pin them to what the property text relies on.
-/
namespace MuduoVerif.C04
open MuduoVerif.Loop MuduoVerif.Gen.Loop

/-! ## T1 ties -/

/-- the generated wake condition is "foreign thread, or inside a drain, or `loop()` not entered yet";
`runInLoop` runs the functor inline exactly on the loop thread -/
theorem tie_guards (isLoopThread calling looping : Bool) :
    (wakeGuard isLoopThread calling looping ↔ (isLoopThread = false ∨ calling = true ∨ looping = false)) ∧
    (runInline isLoopThread ↔ isLoopThread = true) := by
  unfold wakeGuard runInline
  cases isLoopThread <;> cases calling <;> cases looping <;> simp

/-- the statement order the model takes for granted: append under the lock before the wake-up test; the batch is
swapped out (queue left empty) under the lock with `callingPendingFunctors_` set before and cleared after the run —
and after the functor objects of the batch have been destroyed (`functors.clear()` precedes the reset);
every iteration ends with a drain; after the `while` the queue is drained **until it is empty**
(`do { doPendingFunctors(); } while (queueSize() > 0);`); `looping_` brackets the `while`; `wakeup()` writes a whole
non-zero counter value to the eventfd and `handleRead()` reads it back -/
theorem tie_shape :
    appendUnderLock = true ∧ drainSwaps = true ∧ callingSetBeforeSwap = true ∧ callingResetAfterRun = true ∧
    batchDestroyedBeforeReset = true ∧ drainEachIteration = true ∧ finalDrain = .untilEmpty ∧ loopingBracket = true ∧
    wakeupWritesOne = true ∧ handleReadDrains = true :=
  ⟨shape_tie.2.2.2, drainSwaps_tie, shape_tie.2.2.1, callingResetAfterRun_tie, batchDestroyedBeforeReset_tie, shape_tie.1, finalDrain_tie, shape_tie.2.1,
   eventfd_tie.1, eventfd_tie.2⟩

/-! ## exactly once, in submission order, on the loop thread -/

/-- **once_fifo**: in every reachable state the list of all functors ever appended (in the order of the critical
sections of `mutex_`) is: what the drains have started, then what is left of the batch being run, then what is
still queued.  So no submission is lost, none is started twice, and drains start them in submission order —
for all programs, thread counts and schedules. -/
theorem once_fifo (s : St) (h : Reachable s) : s.appendOrder = s.executed ++ s.batch ++ s.pending :=
  (reachable_invariant (P := FifoInv) init_fifo (fun _ k h => step_fifo k h) h).order

/-- what has been started is a prefix of what has been submitted (never twice, never out of order, never a
functor nobody submitted) -/
theorem executed_prefix (s : St) (h : Reachable s) : s.executed <+: s.appendOrder := by
  rw [once_fifo s h, List.append_assoc]; exact List.prefix_append _ _

/-- the functor a drain starts next is the oldest submission not started yet -/
theorem drain_takes_oldest (s : St) (h : Reachable s) (t : TaskId) (r : List TaskId)
    (hp : s.phase = .draining) (hb : busy s = false) (hbatch : s.batch = t :: r) :
    (stepLoop s).out = some (.exec t) ∧ (stepLoop s).executed = s.executed ++ [t] ∧
    s.appendOrder[s.executed.length]? = some t := by
  refine ⟨?_, ?_, ?_⟩
  · unfold stepLoop stepLoopFD stepLoopG; simp [hp, hb, hbatch]
  · unfold stepLoop stepLoopFD stepLoopG; simp [hp, hb, hbatch]
  · rw [once_fifo s h, hbatch]; simp

/-- a batch is taken only by the swap and holds exactly what was queued at that moment; outside a drain there is
no batch -/
theorem batch_only_while_draining (s : St) (h : Reachable s) (hp : s.phase ≠ .draining) : s.batch = [] :=
  (reachable_invariant (P := FifoInv) init_fifo (fun _ k h => step_fifo k h) h).batchNil hp

/-- `queueInLoop` from a foreign thread — and `runInLoop` from a foreign thread, which is the same — puts the functor
at the end of the queue: submissions of one thread are queued in its program order, all submissions in the order of
their critical sections -/
theorem foreign_submission_appends_last (s : St) (k : Nat) (x : TaskId) (r : List Sub) (hk : k ≠ s.L)
    (hpc : (s.thr k).pc = .idle) (hprog : (s.thr k).prog = .queue x :: r ∨ (s.thr k).prog = .run x :: r) :
    (step s k).appendOrder = s.appendOrder ++ [x] ∧ (step s k).pending = s.pending ++ [x] ∧
    (step s k).executed = s.executed ∧ ((step s k).thr k).pc = .appended := by
  have := runInline_foreign
  rcases hprog with hprog | hprog <;>
    simp [step, hk, stepOther, hpc, stepIdle, hprog, doAppend, this]

/-- a submission from inside a task body (a functor, an I/O handler, before `loop()`) through `queueInLoop` goes to
the end of the queue as well -/
theorem nested_queue_appends_last (s : St) (x : TaskId) (r : List Sub) (rest : List (List Sub))
    (hl : s.lpc = .idle) (hs : s.stack = (.queue x :: r) :: rest) :
    (runTop s).appendOrder = s.appendOrder ++ [x] ∧ (runTop s).pending = s.pending ++ [x] ∧
    (runTop s).executed = s.executed := by
  unfold runTop; simp [hl, hs]

/-- task bodies start on the loop thread only -/
theorem only_on_loop_thread (s : St) (h : Reachable s) : s.wrongThread = false :=
  reachable_invariant (P := fun s => s.wrongThread = false) (fun _ _ _ _ _ _ _ => rfl) (fun _ k h => step_wrongThread k h) h

/-- **inline_first**: `runInLoop` called on the loop thread (from a functor, an I/O handler, before `loop()`) starts
the task inside the call — it is the very next action, ahead of everything queued, and the queue is not touched; the
functor object dies when the task body has ended, before the caller goes on (`bury x`) -/
theorem inline_first (s : St) (x : TaskId) (r : List Sub) (rest : List (List Sub))
    (hl : s.lpc = .idle) (hs : s.stack = (.run x :: r) :: rest) :
    (runTop s).out = some (.exec x) ∧ (runTop s).stack = s.tbl x :: (.bury x :: r) :: rest ∧
    (runTop s).pending = s.pending ∧ (runTop s).appendOrder = s.appendOrder ∧ (runTop s).executed = s.executed := by
  have := runInline_loop
  unfold runTop; simp [hl, hs, this]

/-! ## without delay -/

/-- **no_lost_wakeup**: whenever the loop thread is in `poll` and a functor is queued, the eventfd is readable or
some other thread stands between its append and its `wakeup()` — whatever the interleaving of submissions with the
poll / dispatch / drain phases, and whether the functor was queued by a foreign thread, an I/O handler, a functor or
before `loop()` -/
theorem no_lost_wakeup (s : St) (h : Reachable s) (hp : s.phase = .polling) (hq : s.pending ≠ []) :
    0 < s.ev ∨ ∃ j, j ≠ s.L ∧ (s.thr j).pc = .appended := by
  have hw := reachable_invariant (P := WakeInv) init_wake (fun _ k h => step_wake k h) h
  rcases hw.woken (by simp [hp, needsWake]) hq with h1 | h1 | h1
  · exact Or.inl h1
  · have := (hw.idleOutside (by simp [hp, taskPhase])).1; simp [this] at h1
  · exact Or.inr h1

/-- the same on the way to `poll`: from the moment the loop object exists (before `loop()`, at its entry, at the end
of an iteration) a queued functor is always accompanied by a pending or imminent wake-up, so the next `poll`
returns at once -/
theorem queued_is_woken (s : St) (h : Reachable s)
    (hp : s.phase = .pre ∨ s.phase = .ready ∨ s.phase = .entered ∨ s.phase = .looptest ∨ s.phase = .polling ∨
      s.phase = .draining)
    (hq : s.pending ≠ []) :
    0 < s.ev ∨ s.lpc = .appended ∨ ∃ j, j ≠ s.L ∧ (s.thr j).pc = .appended := by
  have hw := reachable_invariant (P := WakeInv) init_wake (fun _ k h => step_wake k h) h
  exact hw.woken (by rcases hp with h | h | h | h | h | h <;> simp [h, needsWake]) hq

/-- **prompt**: a loop asleep in `poll` with work queued is never stuck — some thread can move (the loop itself
because the eventfd is readable, or the submitter that is about to write it); there is no poll timeout in the model,
so this is "never waits for the timeout or an unrelated event" -/
theorem prompt (s : St) (h : Reachable s) (hp : s.phase = .polling) (hq : s.pending ≠ []) :
    ∃ k, enabled s k = true := by
  rcases no_lost_wakeup s h hp hq with h1 | ⟨j, hj, hpc⟩
  · exact ⟨s.L, by simp [enabled, loopEnabled, hp, pollReady, h1]⟩
  · exact ⟨j, by simp [enabled, hj, otherEnabled, hpc]⟩

/-- when no thread can move and the loop sleeps in `poll`, the queue is empty -/
theorem asleep_means_queue_empty (s : St) (h : Reachable s) (hp : s.phase = .polling)
    (hs : ∀ k, enabled s k = false) : s.pending = [] := by
  cases hq : s.pending with
  | nil => rfl
  | cons a l =>
    obtain ⟨k, hk⟩ := prompt s h hp (by simp [hq])
    simp [hs k] at hk

/-! ## functor objects die on the loop thread, inside the drain, with the flag still set -/

/-- no run functor object outlives the drain that ran it: outside `doPendingFunctors` the local vector holds none, and
the destruction starts only when the whole batch has run -/
theorem functors_die_inside_drain (s : St) (h : Reachable s) :
    (s.phase ≠ .draining → s.corpses = [] ∧ s.burying = false) ∧ (s.burying = true → s.batch = []) := by
  have hb := reachable_invariant (P := BuryInv) init_bury (fun _ k h => step_bury k h) h
  exact ⟨hb.outside, hb.batchDone⟩

/-- when the `for` over the batch is over, the functor objects die in vector order; each destructor body starts as a
visible action of the loop thread (`dtor c`) and then runs like a task body — with `callingPendingFunctors_` **unchanged**
(the reset comes after the last of them) -/
theorem batch_destroyed_in_order (s : St) (c : TaskId) (cr : List TaskId) (hp : s.phase = .draining)
    (hb : busy s = false) (hbatch : s.batch = []) (hc : s.corpses = c :: cr) :
    (stepLoop s).out = some (.dtor c) ∧ (stepLoop s).stack = [s.dtbl c] ∧ (stepLoop s).corpses = cr ∧
    (stepLoop s).burying = true ∧ (stepLoop s).calling = s.calling ∧ (stepLoop s).phase = .draining ∧
    (stepLoop s).pending = s.pending ∧ (stepLoop s).executed = s.executed := by
  have := batchDestroyedBeforeReset_tie
  unfold stepLoop stepLoopFD stepLoopG; simp [hp, hb, hbatch, hc, this]

/-- while destructor bodies of the batch run, the loop thread is inside `doPendingFunctors` with
`callingPendingFunctors_` set -/
theorem calling_while_functors_die (s : St) (h : Reachable s) (hb : s.burying = true) :
    s.phase = .draining ∧ s.calling = true := by
  have hbi := reachable_invariant (P := BuryInv) init_bury (fun _ k h => step_bury k h) h
  have hw := reachable_invariant (P := WakeInv) init_wake (fun _ k h => step_wake k h) h
  have hp : s.phase = .draining := by
    apply Classical.byContradiction
    intro hn
    have := (hbi.outside hn).2
    simp [hb] at this
  exact ⟨hp, hw.callingDrain (Or.inl hp)⟩

/-- **dtor_queue_is_woken**: a functor queued by the destructor of what a functor of the batch owned — directly, or by a
task that destructor ran inline — is followed by a wake-up like a functor queued from a functor body: the step after
the append writes the eventfd, so the `poll` of the next iteration returns at once (`no_lost_wakeup`, `prompt` and
`queued_is_woken` cover the states in between: they are statements about every reachable state of this system) -/
theorem dtor_queue_is_woken (s : St) (h : Reachable s) (hb : s.burying = true) (hl : s.lpc = .appended) :
    (stepLoop s).out = some .wakeup ∧ 0 < (stepLoop s).ev ∧ (stepLoop s).lpc = .idle ∧
    (stepLoop s).pending = s.pending := by
  obtain ⟨hp, hc⟩ := calling_while_functors_die s h hb
  have hg := wakeGuard_calling true s.looping
  have hbusy : busy s = true := by simp [busy, hl]
  unfold stepLoop stepLoopFD stepLoopG
  simp only [hp, hbusy, if_true]
  unfold runTop
  simp [hl, hc, hg]

/-- the same for the functor handed to an inline `runInLoop`: when the call returns the object dies (`bury x`), its
destructor body starts at once on the loop thread, in the context of the caller -/
theorem inline_functor_dies_on_return (s : St) (x : TaskId) (r : List Sub) (rest : List (List Sub))
    (hl : s.lpc = .idle) (hs : s.stack = (.bury x :: r) :: rest) (hd : s.dtbl x ≠ []) :
    (runTop s).out = some (.dtor x) ∧ (runTop s).stack = s.dtbl x :: r :: rest ∧ (runTop s).calling = s.calling ∧
    (runTop s).pending = s.pending ∧ (runTop s).executed = s.executed := by
  have hne : (s.dtbl x).isEmpty = false := by cases hdx : s.dtbl x <;> simp_all
  unfold runTop; simp [hl, hs, hne]

/-- **negation witness for the earlier order** (`callingPendingFunctors_ = false` before the local vector dies, as
before the `functors.clear()` was added): the owner queues task 1 before `loop()`; the functor object of task 1 owns
something whose destructor queues task 2.  With the flag reset first, that `queueInLoop` runs on the loop thread, inside
`loop()`, outside "calling": no wake-up — the loop goes back to `poll` with task 2 queued, the eventfd not readable and
**no thread able to move** (in the real code: until an unrelated event or the 10 s poll timeout).  The code as it is
writes the eventfd and runs both. -/
theorem batch_destroyed_after_reset_strands_witness :
    let i := init false false (fun _ => []) (fun t => if t = 1 then [.queue 2] else []) [.queue 1] [] (fun _ => [])
    let sched := List.replicate 30 0
    ((runBD false i sched).phase = .polling ∧ (runBD false i sched).pending = [2] ∧
      (runBD false i sched).executed = [1] ∧ (runBD false i sched).ev = 0 ∧
      ∀ k, enabled (runBD false i sched) k = false) ∧
    ((run i sched).phase = .polling ∧ (run i sched).pending = [] ∧ (run i sched).executed = [1, 2]) := by
  intro i sched
  have key : ((runBD false i sched).phase = .polling ∧ (runBD false i sched).pending = [2] ∧
      (runBD false i sched).executed = [1] ∧ (runBD false i sched).ev = 0 ∧
      loopEnabled (runBD false i sched) = false) ∧
      ((run i sched).phase = .polling ∧ (run i sched).pending = [] ∧ (run i sched).executed = [1, 2]) := by
    decide +kernel
  obtain ⟨⟨k1, k2, k3, k4, k5⟩, k6⟩ := key
  refine ⟨⟨k1, k2, k3, k4, ?_⟩, k6⟩
  have h1 : (runBD false i sched).thr = i.thr := (runBD_owner_only false i 30 rfl).1
  have hthr : ∀ k, (runBD false i sched).thr k = { pc := .idle, prog := [] } := fun k => by rw [h1]; rfl
  generalize runBD false i sched = s' at *
  intro k
  unfold enabled
  split
  · exact k5
  · simp [otherEnabled, hthr k]

/-! ## `loop()` entered again -/

/-- **queued_between_runs_is_woken**: a functor that is queued while `loop()` is not running — after it has returned
(`returned`: by a foreign thread behind the last test of the queue) or while the owner executes the segment that
precedes the next call (`pre`: by the owner itself or by a foreign thread) — is accompanied by a pending or imminent
wake-up: the eventfd is readable, or the submitter stands between its append and its `wakeup()`.  So the first `poll` of
the next run returns at once (`no_lost_wakeup` is the same statement inside that run). -/
theorem queued_between_runs_is_woken (s : St) (h : Reachable s) (hp : s.phase = .returned ∨ s.phase = .pre)
    (hq : s.pending ≠ []) :
    0 < s.ev ∨ s.lpc = .appended ∨ ∃ j, j ≠ s.L ∧ (s.thr j).pc = .appended := by
  have hw := reachable_invariant (P := WakeInv) init_wake (fun _ k h => step_wake k h) h
  exact hw.woken (by rcases hp with h | h <;> simp [h, needsWake]) hq

/-- why, for the owner's own calls: between two runs `looping_` is false (it is cleared when `loop()` returns), so the
wake-up test of a `queueInLoop` made by the owner thread there succeeds — the step after the append writes the eventfd -/
theorem owner_queue_between_runs_wakes (s : St) (h : Reachable s) (hp : s.phase = .pre) (hl : s.lpc = .appended) :
    s.looping = false ∧ (stepLoop s).out = some .wakeup ∧ 0 < (stepLoop s).ev ∧ (stepLoop s).pending = s.pending := by
  have hw := reachable_invariant (P := WakeInv) init_wake (fun _ k h => step_wake k h) h
  have hnl : s.looping = false := hw.notLooping (by simp [hp, beforeLoop])
  have hg := wakeGuard_notLooping true s.calling
  have hbusy : busy s = true := by simp [busy, hl]
  refine ⟨hnl, ?_⟩
  unfold stepLoop stepLoopFD stepLoopG
  simp only [hp, hbusy, if_true]
  unfold runTop
  simp [hl, hnl, hg]

/-- the step that starts the next segment: taken from `returned` in the plain scenario when the owner's program goes
on; it leaves the loop object as it is (queue, eventfd, flags) and `looping_` is false -/
theorem relaunch_keeps_loop_state (s : St) (h : Reachable s) (seg : List Sub) (rest : List (List Sub))
    (hp : s.phase = .returned) (he : s.elt = false) (ha : s.again = seg :: rest) :
    (stepLoop s).phase = .pre ∧ (stepLoop s).again = rest ∧ (stepLoop s).pending = s.pending ∧
    (stepLoop s).ev = s.ev ∧ (stepLoop s).executed = s.executed ∧ (stepLoop s).appendOrder = s.appendOrder ∧
    (stepLoop s).quit = s.quit ∧ (stepLoop s).looping = false ∧ (stepLoop s).out = none := by
  have hw := reachable_invariant (P := WakeInv) init_wake (fun _ k h => step_wake k h) h
  have hnl : s.looping = false := hw.notLooping (by simp [hp, beforeLoop])
  unfold stepLoop stepLoopFD stepLoopG
  simp [hp, he, ha, relaunch, hnl]

/-! ## as long as the loop keeps running — and when it stops -/

/-- after the `while`, the drain is repeated as long as anything is queued: at the end of a pass of the final drain
with a non-empty queue the loop thread does not return but starts another pass (`callingPendingFunctors_` set again) -/
theorem final_drain_repeats (s : St) (hp : s.phase = .draining) (hf : s.final = true) (hb : busy s = false)
    (hbatch : s.batch = []) (hc : s.corpses = []) (hq : s.pending ≠ []) :
    (stepLoop s).phase = .preSwap ∧ (stepLoop s).final = true ∧ (stepLoop s).calling = true ∧
    (stepLoop s).pending = s.pending ∧ (stepLoop s).out = some (.point "doPendingFunctors:beforeSwap") := by
  have := finalDrain_tie
  have hne : s.pending.isEmpty = false := by cases hpd : s.pending <;> simp_all
  unfold stepLoop stepLoopFD stepLoopG; simp [hp, hf, hb, hbatch, hc, this, hne]

/-- `loop()` returns only at a test that finds the queue empty — after the batch has run and its functor objects have
been destroyed (what their destructors queued is seen by that test) — and `retMark` records how many functors had been
appended at that test -/
theorem returns_only_with_empty_queue (s : St) (hp : s.phase = .draining) (hr : (stepLoop s).phase = .returned) :
    s.pending = [] ∧ s.batch = [] ∧ s.corpses = [] ∧ (stepLoop s).retMark = some s.appendOrder.length := by
  have := finalDrain_tie
  have hrt : (runTop s).phase = s.phase := by
    unfold runTop; repeat' split
    all_goals rfl
  revert hr
  unfold stepLoop stepLoopFD stepLoopG
  simp only [hp]
  split
  · intro hr; rw [hrt, hp] at hr; cases hr
  · split
    · intro hr; simp at hr
    · split
      · intro hr; simp at hr
      · split
        · split
          · intro hr; simp at hr
          · intro _
            refine ⟨?_, by assumption, by assumption, by simp [leaveLoop]⟩
            cases hpd : s.pending with
            | nil => rfl
            | cons a l => simp_all
        · intro hr; simp at hr

/-- **drain_on_exit**: when `loop()` has returned, **every functor that was appended before it returned** — by the
loop thread itself (a functor run by the final drain that queues another one), by a foreign thread, before or after
the `quit()` call — has been started, in order: `executed` is exactly the first `m` appends, where `m = retMark` is
the number of appends at the loop's last test of the queue (`returns_only_with_empty_queue`).  What is still queued
was appended after that test — necessarily by another thread, the loop thread takes no step after returning — and
is never run.  In particular everything queued before the first `quit()` (`quitMark`) has run. -/
theorem drain_on_exit (s : St) (h : Reachable s) (hp : s.phase = .returned ∨ s.phase = .dead) :
    ∃ m n, s.retMark = some m ∧ s.quitMark = some n ∧ n ≤ m ∧
      s.executed = s.appendOrder.take m ∧ s.pending = s.appendOrder.drop m ∧ s.batch = [] := by
  have hx := reachable_invariant (P := fun s => FifoInv s ∧ ExitInv s)
    (fun a b c d e f g => ⟨init_fifo a b c d e f g, init_exit a b c d e f g⟩) (fun _ k h => step_exit k h) h
  have hex : exited s.phase = true := by rcases hp with h | h <;> simp [h, exited]
  obtain ⟨n, hn, hle⟩ := hx.2.done hex
  have hb : s.batch = [] := hx.1.batchNil (by rcases hp with h | h <;> simp [h])
  refine ⟨s.executed.length, n, hx.2.ret hex, hn, hle, ?_, ?_, hb⟩
  · rw [hx.1.order, hb]; simp
  · rw [hx.1.order, hb]; simp

/-- **negation witness for the earlier shape of the code** (one `doPendingFunctors()` after the `while`, before
6f04cfe): the owner queues task 1 and calls `quit()` before `loop()`; task 1, run by the final drain, queues task 2.
With a single final drain `loop()` returns with task 2 queued and never run; the code as it is runs both. -/
theorem drain_once_strands_witness :
    let i := init false false (fun t => if t = 1 then [.queue 2] else []) (fun _ => []) [.queue 1, .quit] [] (fun _ => [])
    let sched := List.replicate 24 0
    ((runFD .once i sched).phase = .returned ∧ (runFD .once i sched).pending = [2] ∧
      (runFD .once i sched).executed = [1]) ∧
    ((run i sched).phase = .returned ∧ (run i sched).pending = [] ∧ (run i sched).executed = [1, 2]) := by
  decide +kernel

/-- … and for the shape before 8a53a2a (no drain after the `while`): a functor queued behind the iteration's swap
and followed by `quit()` is never run -/
theorem drain_none_strands_witness :
    let i := init false false (fun _ => []) (fun _ => []) [.queue 1, .quit] [] (fun _ => [])
    let sched := List.replicate 12 0
    ((runFD .none i sched).phase = .returned ∧ (runFD .none i sched).pending = [1]) ∧
    ((run i sched).phase = .returned ∧ (run i sched).pending = [] ∧ (run i sched).executed = [1]) := by
  decide +kernel

/-- **limitation (termination)**: the drain after the `while` ends only when a test finds the queue empty.  A functor
that always queues itself again keeps `loop()` from returning after `quit()` — here task 1 re-queues itself: after
200 steps of the loop thread the loop has left its `while` long ago and is still draining.  Every statement of this
file and of C05 about `loop()` *returning* is therefore a statement about states (`phase = returned`), not a
promise that such a state is reached; it is reached whenever the functors eventually stop queueing. -/
theorem requeue_forever_never_returns_witness :
    let s := run (init false false (fun t => if t = 1 then [.queue 1] else []) (fun _ => []) [.queue 1, .quit] [] (fun _ => []))
                 (List.replicate 200 0)
    s.final = true ∧ s.phase ≠ .returned ∧ s.qreq = true ∧ 20 ≤ s.executed.length := by
  decide +kernel

/-! ## non-vacuity -/

/-- a concrete program: the owner queues task 1 before `loop()`, task 1 queues task 3 from inside the drain,
a foreign thread queues task 2 and then quits; under this schedule all three run, in submission order, and
`loop()` returns -/
example :
    let s := run (init false false (fun t => if t = 1 then [.queue 3] else []) (fun _ => []) [.queue 1] []
                    (fun k => if k = 1 then [.queue 2, .quit] else []))
                 [0, 0, 0, 0, 1, 1, 0, 0, 0, 0, 0, 0, 0, 0, 0, 0, 0, 0, 0, 0, 0, 0, 0, 1, 1, 0, 0, 0, 0, 0, 0, 0, 0]
    s.executed = [1, 2, 3] ∧ s.appendOrder = [1, 2, 3] ∧ s.phase = .returned ∧ s.pending = [] := by
  decide +kernel

/-- the hypotheses of `no_lost_wakeup` are satisfiable: the loop in `poll`, a functor queued by a foreign thread
that has not written the eventfd yet -/
example :
    let s := run (init false false (fun _ => []) (fun _ => []) [] [] (fun k => if k = 1 then [.queue 7] else [])) [0, 0, 1]
    s.phase = .polling ∧ s.pending = [7] ∧ s.ev = 0 ∧ (s.thr 1).pc = .appended := by
  decide

/-- the hypotheses of `dtor_queue_is_woken` are satisfiable: the functor object of task 1 owns something whose
destructor queues task 2; after the batch has run it dies, the append is made with `callingPendingFunctors_` set and the
next step of the loop thread writes the eventfd; in the end both tasks have run -/
example :
    let i := init false false (fun _ => []) (fun t => if t = 1 then [.queue 2] else []) [.queue 1] [] (fun _ => [])
    let s := run i (List.replicate 13 0)
    s.burying = true ∧ s.lpc = .appended ∧ s.phase = .draining ∧ s.calling = true ∧ s.pending = [2] ∧ s.ev = 0 ∧
    (stepLoop s).out = some .wakeup ∧ (run i (List.replicate 30 0)).executed = [1, 2] := by
  decide +kernel

/-- two runs of `loop()`: task 1 (queued before the first call) quits the loop; after `loop()` has returned the owner
queues task 2 — the hypotheses of `owner_queue_between_runs_wakes` hold after 20 steps, the next step writes the
eventfd — and calls `loop()` again; task 2 runs at once and quits; `loop()` returns a second time with both run -/
example :
    let i := init false false (fun t => if t = 1 ∨ t = 2 then [.quit] else []) (fun _ => []) [.queue 1] [[.queue 2]]
               (fun _ => [])
    let s := run i (List.replicate 20 0)
    s.phase = .pre ∧ s.lpc = .appended ∧ s.pending = [2] ∧ s.ev = 0 ∧ s.looping = false ∧ s.executed = [1] ∧
    (stepLoop s).out = some .wakeup ∧
    (run i (List.replicate 18 0)).phase = .returned ∧ (run i (List.replicate 18 0)).again = [[.queue 2]] ∧
    (run i (List.replicate 40 0)).phase = .returned ∧ (run i (List.replicate 40 0)).executed = [1, 2] ∧
    (run i (List.replicate 40 0)).again = [] := by
  decide +kernel

/-! ## T1: the statement order of `EventLoop.cc` -/

/-- **loop_statement_order_tied** (T1, statement order).  Every function defined in /repo's current `EventLoop.cc`
(`createEventfd` apart: `C09.loop_descriptors_nonblocking`) has the statement skeleton the steps of `Model/Loop.lean`
assume (`Model/LoopSkelDecl.lean`; re-extracted on every run by `vlib/gen/loopskel.py` into `Generated/LoopSkel.lean`,
proved equal in `Proofs/LoopSkelTie.lean`), and the orders this property rests on hold of the EXTRACTED skeletons:
(a) `queueInLoop` appends inside the critical section and calls `wakeup()` after the append and after the mutex is
released (`doAppend`, then `stepAppended`: no lost wake-up); (b) `quit` stores the flag before `wakeup()`; (c)
`doPendingFunctors` sets `callingPendingFunctors_` before the swap, swaps inside the critical section, calls the functors
outside it, destroys the batch (`functors.clear()`) after the calls, also outside it, and resets the flag only after
that, as its last statement; (d) one iteration of `loop()` is poll -> handle the events ->
`doPendingFunctors()`, the final drain `do doPendingFunctors(); while (queueSize() > 0)` follows the `while`;
`runInLoop` calls the functor inline exactly on the loop thread, `queueInLoop` otherwise.  (`Proofs/LoopSkelTie.lean` has
more readings - `queueSize` under the mutex, one 8-byte write / read of the eventfd in `wakeup` / `handleRead`, the shape
flags of `Generated/Loop.lean` agree with the skeletons, each excluded order is rejected by the reading predicates; it is
imported here, so all of them are checked whenever this module is.) -/
theorem loop_statement_order_tied :
    (Gen.LoopSkel.ignoreSigPipeCtor = LoopSkel.Decl.ignoreSigPipeCtor ∧
     Gen.LoopSkel.getEventLoopOfCurrentThread = LoopSkel.Decl.getEventLoopOfCurrentThread ∧
     Gen.LoopSkel.loopCtor = LoopSkel.Decl.loopCtor ∧
     Gen.LoopSkel.loopDtor = LoopSkel.Decl.loopDtor ∧
     Gen.LoopSkel.loopFn = LoopSkel.Decl.loopFn ∧
     Gen.LoopSkel.quit = LoopSkel.Decl.quit ∧
     Gen.LoopSkel.runInLoop = LoopSkel.Decl.runInLoop ∧
     Gen.LoopSkel.queueInLoop = LoopSkel.Decl.queueInLoop ∧
     Gen.LoopSkel.queueSize = LoopSkel.Decl.queueSize ∧
     Gen.LoopSkel.runAt = LoopSkel.Decl.runAt ∧
     Gen.LoopSkel.runAfter = LoopSkel.Decl.runAfter ∧
     Gen.LoopSkel.runEvery = LoopSkel.Decl.runEvery ∧
     Gen.LoopSkel.cancel = LoopSkel.Decl.cancel ∧
     Gen.LoopSkel.updateChannel = LoopSkel.Decl.updateChannel ∧
     Gen.LoopSkel.removeChannel = LoopSkel.Decl.removeChannel ∧
     Gen.LoopSkel.hasChannel = LoopSkel.Decl.hasChannel ∧
     Gen.LoopSkel.abortNotInLoopThread = LoopSkel.Decl.abortNotInLoopThread ∧
     Gen.LoopSkel.wakeup = LoopSkel.Decl.wakeup ∧
     Gen.LoopSkel.handleRead = LoopSkel.Decl.handleRead ∧
     Gen.LoopSkel.doPendingFunctors = LoopSkel.Decl.doPendingFunctors ∧
     Gen.LoopSkel.printActiveChannels = LoopSkel.Decl.printActiveChannels) ∧
    -- (a)
    (LoopSkel.insideLock "mutex_" (.call "pendingFunctors_.push_back" "cb") (LoopSkel.flat Gen.LoopSkel.queueInLoop) = true ∧
     LoopSkel.before (.call "pendingFunctors_.push_back" "cb") (.call "wakeup" "") (LoopSkel.flat Gen.LoopSkel.queueInLoop) = true ∧
     LoopSkel.before (.call "unlock" "mutex_") (.call "wakeup" "") (LoopSkel.flat Gen.LoopSkel.queueInLoop) = true ∧
     LoopSkel.outsideLock "mutex_" (.call "wakeup" "") (LoopSkel.flat Gen.LoopSkel.queueInLoop) = true) ∧
    -- (b)
    LoopSkel.before (.store "quit_" "true") (.call "wakeup" "") (LoopSkel.flat Gen.LoopSkel.quit) = true ∧
    -- (c)
    (LoopSkel.inOrder [.store "callingPendingFunctors_" "true", .call "functors.swap" "pendingFunctors_", .call "functor" "",
                       .call "functors.clear" "", .store "callingPendingFunctors_" "false"]
       (LoopSkel.flat Gen.LoopSkel.doPendingFunctors) = true ∧
     LoopSkel.insideLock "mutex_" (.call "functors.swap" "pendingFunctors_") (LoopSkel.flat Gen.LoopSkel.doPendingFunctors) = true ∧
     LoopSkel.outsideLock "mutex_" (.call "functor" "") (LoopSkel.flat Gen.LoopSkel.doPendingFunctors) = true ∧
     LoopSkel.outsideLock "mutex_" (.call "functors.clear" "") (LoopSkel.flat Gen.LoopSkel.doPendingFunctors) = true ∧
     (LoopSkel.flat Gen.LoopSkel.doPendingFunctors).getLast? = some (.store "callingPendingFunctors_" "false")) ∧
    -- (d)
    (LoopSkel.inOrder [.call "activeChannels_.clear" "", .call "poller_.poll" "kPollTimeMs, &activeChannels_",
                       .store "eventHandling_" "true", .call "currentActiveChannel_.handleEvent" "pollReturnTime_",
                       .store "eventHandling_" "false", .call "doPendingFunctors" ""]
       (LoopSkel.flat (LoopSkel.loopBody .whileDo "!quit_" Gen.LoopSkel.loopFn)) = true ∧
     LoopSkel.loopBody .doWhile "{call queueSize()} > 0" Gen.LoopSkel.loopFn = [.act (.call "doPendingFunctors" "")]) ∧
    (LoopSkel.onlyUnder "isInLoopThread()" (.call "cb" "") Gen.LoopSkel.runInLoop = true ∧
     LoopSkel.onlyUnless "isInLoopThread()" (.call "queueInLoop" "cb") Gen.LoopSkel.runInLoop = true) :=
  ⟨LoopSkel.skeletons_agree_loop,
   ⟨LoopSkel.queueInLoop_append_locked_then_wakeup.1, LoopSkel.queueInLoop_append_locked_then_wakeup.2.1,
    LoopSkel.queueInLoop_append_locked_then_wakeup.2.2.1, LoopSkel.queueInLoop_append_locked_then_wakeup.2.2.2.1⟩,
   LoopSkel.quit_store_precedes_wakeup.1,
   ⟨LoopSkel.doPendingFunctors_order.1, LoopSkel.doPendingFunctors_order.2.1, LoopSkel.doPendingFunctors_order.2.2.1,
    LoopSkel.doPendingFunctors_order.2.2.2.2.2.2.1, LoopSkel.doPendingFunctors_order.2.2.2.2.2.2.2.2⟩,
   ⟨LoopSkel.loop_iteration_order.2.1, LoopSkel.loop_iteration_order.2.2.2.2.2.1⟩,
   LoopSkel.runInLoop_inline_or_queue⟩

end MuduoVerif.C04
