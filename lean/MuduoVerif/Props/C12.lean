import MuduoVerif.Model.Client
/-!
# C12 — a client connects once per cycle, backs off, obeys stop/disconnect
(first instalment: the schedule arithmetic; the invariants follow in Proofs/Client.lean)
-/
namespace MuduoVerif.C12
open MuduoVerif.Client MuduoVerif.Gen.Client

/-- the property's schedule: delay before the i-th consecutive retry of a cycle, in ms -/
def specDelay (i : Nat) : Nat := min (500 * 2 ^ i) 30000

/-- the T1-translated update of `Connector::retry` walks the schedule -/
theorem next_delay_spec (i : Nat) : nextDelay (specDelay i) = specDelay (i + 1) := by
  unfold nextDelay specDelay kMaxRetryDelayMs
  rw [Nat.pow_succ]
  generalize 2 ^ i = x
  omega

end MuduoVerif.C12
