import MuduoVerif.Proofs.Client
import MuduoVerif.Proofs.ClientSkelTie
/-!
# C12 — a client connects once per cycle, backs off, obeys stop/disconnect

Property theorems only (lemmas: `Proofs/Client*.lean`).  The model is `Model/Client.lean`
(`Connector` + `TcpClient` + the parts of `TcpConnection`, `Channel`, `TimerQueue` and the functor
queue a client's user can observe); constants, the delay update, the errno table, every state test,
the destructor's branches and how `shutdown()`'s functor holds the connection are generated from the
sources (`Generated/Client.lean`, `Generated/Conn.lean`).

**Quantification.**  `ins : List In` is any history of `connect / disconnect / stop / enableRetry /
destroy / holdRef / dropRef` (from the loop thread or a foreign thread), clock advances, loop
iterations with *any* list of reported channels and event masks, and any results of `::connect`,
`SO_ERROR`, self-connect test and `readv`; both build flavours (`asserts`).  The scope guard
`Guarded` (a decidable predicate on the history, `Proofs/ClientOps.lean`) says:
* `connect()` only while no attempt, connection, pending retry timer or queued `connect()` of that
  client is outstanding (the property's own quantifier), and only on a live client;
* `disconnect() / stop() / enableRetry()` only on a live client;
* `~TcpClient` on the loop thread (`Who.loop`; the foreign-thread case is F11, see the end);
* the user drops a connection reference only if the connection is down or somebody else still
  holds it (`TcpConnection`'s own contract: its destructor asserts `kDisconnected`).

**How the statements are phrased.**  `scan` (`Proofs/ClientSpec.lean`) is an automaton over event
traces that does not mention the model; the invariant proved for all guarded histories says that
the model's trace is accepted by it and that its summary matches the model's state.  The theorems
below unfold what acceptance means.  The ghost marks `Ev.ghost` in a trace are the user's calls
(`stop_marks`, `connect_marks`, `destroy_marks`) and the start of a connect cycle
(`Connector::startCycleInLoop`, `Connector::restart`).
-/
namespace MuduoVerif.C12
open MuduoVerif.Client MuduoVerif.Gen.Client

/-- the property's schedule: delay before the i-th consecutive retry of a cycle, in ms -/
abbrev specDelay (i : Nat) : Nat := Client.specDelay i

/-- the T1-translated update of `Connector::retry` walks the schedule -/
theorem next_delay_spec (i : Nat) : nextDelay (specDelay i) = specDelay (i + 1) := nextDelay_spec i

theorem spec_delay_formula (i : Nat) : specDelay i = min (500 * 2 ^ i) 30000 := rfl

section
variable (asserts : Bool) (ins : List In) (hg : Guarded (init asserts) ins)
include hg

/-- **no_abort**: in no guarded history, in either build flavour, does an assertion fail or does a
step touch a destroyed object; the process never dies -/
theorem no_abort :
    (reach asserts ins).dead = false ∧
    ∀ w, Ev.abort w ∉ (reach asserts ins).trace ∧ Ev.uaf w ∉ (reach asserts ins).trace :=
  bnd_no_bad (reach_bnd asserts ins hg)

/-- **socket_once**: every socket is created once; it is handed over to a connection xor closed by
the connector, exactly once — unless it is the socket of the attempt in progress, of which there is
at most one and which is watched by the connector's channel; a handed-over descriptor is closed by
`~TcpConnection` at most once, after DOWN, which comes after UP, which comes after the hand-over -/
theorem socket_once (k : Nat) :
    (reach asserts ins).trace.count (.sockCreated k) = (if k < (reach asserts ins).nsock then 1 else 0) ∧
    (k < (reach asserts ins).nsock →
      (reach asserts ins).trace.count (.handedOver k) + (reach asserts ins).trace.count (.sockClosed k) =
        (if (reach asserts ins).sockSt[k]? = some .opened then 0 else 1)) ∧
    ((reach asserts ins).sockSt[k]? = some .opened →
      (reach asserts ins).cstate = .kConnecting ∧ (reach asserts ins).chan = some k ∧ (reach asserts ins).chanOn = true) ∧
    (reach asserts ins).trace.count (.connClosed k) ≤ (reach asserts ins).trace.count (.down k) ∧
    (reach asserts ins).trace.count (.down k) ≤ (reach asserts ins).trace.count (.up k) ∧
    (reach asserts ins).trace.count (.up k) ≤ (reach asserts ins).trace.count (.handedOver k) ∧
    (reach asserts ins).trace.count (.handedOver k) ≤ 1 :=
  bnd_socket (reach_bnd asserts ins hg) k

/-- no socket leaks in a quiescent state: when no attempt is in progress every socket ever created
has been handed over or closed (stop while connecting, error + writable in one dispatch,
self-connect, refused connects, destruction in any state: all are histories) -/
theorem no_leak_quiescent (hq : (reach asserts ins).cstate ≠ .kConnecting) (k : Nat) (hk : k < (reach asserts ins).nsock) :
    (reach asserts ins).trace.count (.handedOver k) + (reach asserts ins).trace.count (.sockClosed k) = 1 := by
  obtain ⟨_, h2, h3, _⟩ := socket_once asserts ins hg k
  rw [h2 hk, if_neg]
  intro ho; exact hq (h3 ho).1

/-- and after a loop iteration every `TcpConnection` that still exists is referred to by the user,
by the live client or by a queued functor: none is forgotten with its descriptor open -/
theorem no_conn_leak (a : List Src) (y : ConnRec) (hy : y ∈ (iter (reach asserts ins) a).conns)
    (hd : y.destroyed = false) : connHeld (iter (reach asserts ins) a) y = true :=
  iter_no_conn_leak _ (reach_bnd asserts ins hg) a y hy hd

/-- **backoff**: the i-th retry scheduled since the cycle began (`i` counted from the last cycle
mark before it) waits `min(500·2^i, 30000)` ms -/
theorem backoff {pre post : List Ev} {i ms t : Nat}
    (h : (reach asserts ins).trace = pre ++ .retryScheduled i ms t :: post) :
    i = (cyc pre).2 ∧ ms = specDelay i :=
  bnd_backoff (reach_bnd asserts ins hg) h

/-- **one_up_per_cycle**: an UP is the first of its cycle, is reported on a socket that was handed
over (and not closed), and is reported once per socket -/
theorem one_up_per_cycle {pre post : List Ev} {k : Nat}
    (h : (reach asserts ins).trace = pre ++ .up k :: post) :
    (cyc pre).1 = 0 ∧ Ev.handedOver k ∈ pre ∧ Ev.up k ∉ pre ∧ Ev.sockClosed k ∉ pre :=
  bnd_one_up (reach_bnd asserts ins hg) h

/-- **stop_silences**: from the moment `stop()` returns (not only after its functor ran) until the
next `connect()`, nothing is started: no attempt, no UP, no retry timer -/
theorem stop_silences {pre post : List Ev} {e : Ev}
    (h : (reach asserts ins).trace = pre ++ e :: post) (hs : stoppedAfter pre = true) : e.starts = false :=
  bnd_silence (reach_bnd asserts ins hg) h (.inl hs)

/-- once `~TcpClient` has run nothing is started on behalf of the client either: no attempt, no
retry timer, no UP callback into the destroyed client -/
theorem destroyed_silent {pre post : List Ev} {e : Ev}
    (h : (reach asserts ins).trace = pre ++ e :: post) (hs : goneAfter pre = true) : e.starts = false :=
  bnd_silence (reach_bnd asserts ins hg) h (.inr hs)

/-- **disconnect_graceful**: `disconnect()` on the established connection clears the client's
`connect_`, queues the half-close, and the next loop iteration — whatever the poller reports in it —
performs `shutdown(SHUT_WR)` on that connection -/
theorem disconnect_graceful (w : Who) (k : Nat) (x : ConnRec)
    (hal : (reach asserts ins).clientAlive = true) (hcn : (reach asserts ins).connection = some k)
    (hx : findIn (reach asserts ins).conns k = some x) (hst : x.st = .connected) :
    (step (reach asserts ins) (.disconnect w)).tConnect = false ∧
    (step (reach asserts ins) (.disconnect w)).pending = (reach asserts ins).pending ++ [.shutdownInLoop k] ∧
    ∀ a, ∃ d, (step (step (reach asserts ins) (.disconnect w)) (.iter a)).trace = (reach asserts ins).trace ++ d ∧
      Ev.shutdownWr k ∈ d := by
  obtain ⟨h1, _, h3, h4⟩ := disconnect_leads _ (reach_bnd asserts ins hg) hal w k x hcn hx hst
  exact ⟨h1, h3, h4⟩

/-- **destroy_safe_inloop** (`Who.loop`), first part: after `~TcpClient` the client is gone and one
loop iteration later no socket of an attempt is open any more (it was closed or, had the attempt
completed before, handed over) — in whatever state the client was destroyed -/
theorem destroy_safe_inloop_sockets (hal : (reach asserts ins).clientAlive = true) :
    (step (reach asserts ins) (.destroy .loop)).clientAlive = false ∧
    ∀ (a : List Src) (k : Nat),
      (step (step (reach asserts ins) (.destroy .loop)) (.iter a)).sockSt[k]? ≠ some SockSt.opened :=
  destroy_quiet _ (reach_bnd asserts ins hg) hal

/-- second part: an established connection that nobody but the client holds goes DOWN and is
destroyed (descriptor closed) within two loop iterations.  This needs `shutdown()`'s functor to hold
the connection weakly (`Gen.Conn.shutdownHold = .weak`, the F26 fix; `gen_shutdown_weak`): with
`.strong` a pending `disconnect()` makes `connection_.unique()` false, nobody closes the connection,
and `reap` finds it destroyed while still connected (corpus/C12/F26-…) -/
theorem destroy_safe_inloop_connection (hal : (reach asserts ins).clientAlive = true) (k : Nat) (x : ConnRec)
    (hcn : (reach asserts ins).connection = some k) (hx : findIn (reach asserts ins).conns k = some x)
    (hur : x.userRef = false) (a b : List Src) :
    Ev.down k ∈ (step (step (step (reach asserts ins) (.destroy .loop)) (.iter a)) (.iter b)).trace ∧
    Ev.connClosed k ∈ (step (step (step (reach asserts ins) (.destroy .loop)) (.iter a)) (.iter b)).trace :=
  destroy_leads _ (reach_bnd asserts ins hg) hal k x hcn hx hur a b

end

/-- the marks in the trace are the user's calls -/
theorem marks (c : C) (hb : Bnd c) (hal : c.clientAlive = true) (w : Who) :
    (step c (.stop w)).trace = c.trace ++ [.ghost .stop] ∧
    c.trace ++ [.ghost .connect] <+: (step c (.connect w)).trace ∧
    c.trace ++ [.ghost .destroy] <+: (step c (.destroy .loop)).trace :=
  ⟨stop_marks c w hb.notDead hal, connect_marks c w hb.notDead hal, destroy_marks c hb hal⟩

/-- every cycle starts at 500 ms (the F13 fix, `Gen.Client.cycleResetsDelay`): the first retry
after a cycle mark waits `specDelay 0 = 500` ms -/
theorem backoff_cycle_starts_at_500 (asserts : Bool) (ins : List In) (hg : Guarded (init asserts) ins)
    {pre mid post : List Ev} {i ms t : Nat}
    (h : (reach asserts ins).trace = pre ++ .ghost .cycle :: mid ++ .retryScheduled i ms t :: post)
    (hm : ∀ e ∈ mid, ∀ i' ms' t', e ≠ .retryScheduled i' ms' t') : i = 0 ∧ ms = 500 := by
  have h' : (reach asserts ins).trace = (pre ++ .ghost .cycle :: mid) ++ .retryScheduled i ms t :: post := by
    rw [h]
  obtain ⟨h1, h2⟩ := backoff asserts ins hg h'
  have hz : ∀ (l : List Ev) (a : Nat × Nat), a.2 = 0 → (∀ e ∈ l, ∀ i' ms' t', e ≠ .retryScheduled i' ms' t') →
      (l.foldl cycStep a).2 = 0 := by
    intro l
    induction l with
    | nil => intro a ha _; exact ha
    | cons e l ih =>
      intro a ha hl
      rw [List.foldl_cons]
      apply ih
      · cases e with
        | retryScheduled i' ms' t' => exact absurd rfl (hl _ List.mem_cons_self i' ms' t')
        | ghost g => cases g <;> first | rfl | exact ha
        | _ => exact ha
      · intro e' he'; exact hl e' (by simp [he'])
  have : (cyc (pre ++ .ghost .cycle :: mid)).2 = 0 := by
    unfold cyc
    rw [List.foldl_append, List.foldl_cons]
    exact hz mid _ rfl hm
  rw [this] at h1
  subst h1
  exact ⟨rfl, h2⟩

/-- what `Connector::retry` arms: the timer fires `specDelay nretry` ms after the failure, and the
retry timer does not fire before it is due -/
theorem backoff_timer (c : C) (r : List Task) (ph : Bool) (hi : Mid c r ph) (k : Nat) (hcc : c.cConnect = true) :
    (retry c k).timers = c.timers ++ [(c.now + specDelay c.nretry * 1000, .retry)] ∧
    (retry c k).trace = c.trace ++ [.sockClosed k, .retryScheduled c.nretry (specDelay c.nretry) c.now] ∧
    ((∀ t ∈ c.timers, c.now < t.1) → (fireTimers c).trace = c.trace ∧ (fireTimers c).nsock = c.nsock) := by
  obtain ⟨h1, h2, _⟩ := retry_arms c k hcc hi.g1
  exact ⟨h1, h2, fireTimers_not_due c r ph hi⟩

/-- **retry_policy**: in every state `c` the loop can be in during a guarded history (`Mid`), when
the established connection `k` of a live client goes down (`TcpConnection::handleClose` with
`TcpClient::removeConnection` behind it), a new cycle with a new attempt starts in the same
dispatch iff `retry_ ∧ connect_`; otherwise DOWN is all that happens -/
theorem retry_policy (c : C) (r : List Task) (ph : Bool) (hi : Mid c r ph) (k : Nat) (x : ConnRec)
    (hx : findIn c.conns k = some x) (hst : x.st ≠ .disconnected) (hcb : x.closeCb = .client) :
    (c.retry = true ∧ c.tConnect = true →
      ∃ tail, (handleClose c k).trace =
        c.trace ++ [.down k, .ghost .cycle, .sockCreated c.nsock, .attempt c.nsock c.now] ++ tail) ∧
    (¬ (c.retry = true ∧ c.tConnect = true) →
      (handleClose c k).trace = c.trace ++ [.down k] ∧ (handleClose c k).nsock = c.nsock) :=
  handleClose_client_trace c r ph hi k x hx hst hcb

/-- T1, statement order: in every `Connector` / `TcpClient` function the model implements (and in
`detail::removeConnection`, `detail::removeConnector`) the source performs the same significant actions - state
stores, channel operations (creation and destruction of the channel included), the new-connection callback, hand-offs
to the loop, member calls, calls on the connector / the connection, socket calls, stores to members and locals,
assertions - in the same order and under the same nesting of the generated guards (and of the classes of the
generated errno table) as `Model/Client.lean` (`Model/ClientSkelDecl.lean`); re-extracted from /repo on every run
(`Generated/ClientSkel.lean`), proved in `Proofs/ClientSkelTie.lean` -/
theorem statement_order_tied :
    Gen.ClientSkel.start = ClientSkel.Decl.start ∧
    Gen.ClientSkel.startCycleInLoop = ClientSkel.Decl.startCycleInLoop ∧
    Gen.ClientSkel.startInLoop = ClientSkel.Decl.startInLoop ∧
    Gen.ClientSkel.stop = ClientSkel.Decl.stop ∧
    Gen.ClientSkel.stopInLoop = ClientSkel.Decl.stopInLoop ∧
    Gen.ClientSkel.connect = ClientSkel.Decl.connect ∧
    Gen.ClientSkel.restart = ClientSkel.Decl.restart ∧
    Gen.ClientSkel.connecting = ClientSkel.Decl.connecting ∧
    Gen.ClientSkel.removeAndResetChannel = ClientSkel.Decl.removeAndResetChannel ∧
    Gen.ClientSkel.resetChannel = ClientSkel.Decl.resetChannel ∧
    Gen.ClientSkel.handleWrite = ClientSkel.Decl.handleWrite ∧
    Gen.ClientSkel.handleError = ClientSkel.Decl.handleError ∧
    Gen.ClientSkel.retry = ClientSkel.Decl.retry ∧
    Gen.ClientSkel.detailRemoveConnection = ClientSkel.Decl.detailRemoveConnection ∧
    Gen.ClientSkel.detailRemoveConnector = ClientSkel.Decl.detailRemoveConnector ∧
    Gen.ClientSkel.dtor = ClientSkel.Decl.dtor ∧
    Gen.ClientSkel.clientConnect = ClientSkel.Decl.clientConnect ∧
    Gen.ClientSkel.clientDisconnect = ClientSkel.Decl.clientDisconnect ∧
    Gen.ClientSkel.clientStop = ClientSkel.Decl.clientStop ∧
    Gen.ClientSkel.newConnection = ClientSkel.Decl.newConnection ∧
    Gen.ClientSkel.removeConnection = ClientSkel.Decl.removeConnection :=
  ClientSkel.skeletons_agree

/-! ### the hypotheses are satisfiable -/

/-- a guarded history with a refused attempt, a retry, an established connection, `disconnect()`,
the peer's close and the destruction of the client -/
def sampleHistory : List In :=
  [.enableRetry, .envConnect 111, .connect .loop, .advance 500000, .iter [.timer], .iter [.connector 4],
   .holdRef, .disconnect .foreign, .iter [], .envRead (some 0), .iter [.conn 1 1], .dropRef, .stop .loop, .iter [],
   .connect .foreign, .iter [], .iter [.connector 4], .destroy .loop, .iter [], .iter []]

example : Guarded (init true) sampleHistory := by decide
example : Guarded (init false) sampleHistory := by decide
example : (reach true sampleHistory).trace.count (.up 1) = 1 ∧ (reach true sampleHistory).trace.count (.up 2) = 1 ∧
    Ev.retryScheduled 0 500 0 ∈ (reach true sampleHistory).trace ∧ Ev.shutdownWr 1 ∈ (reach true sampleHistory).trace ∧
    Ev.connClosed 2 ∈ (reach true sampleHistory).trace := by decide

/-- the hypotheses of `disconnect_graceful` and `destroy_safe_inloop_connection` hold after `connect(); iter` -/
example : Guarded (init true) [.connect .loop, .iter [.connector 4]] ∧
    (reach true [.connect .loop, .iter [.connector 4]]).clientAlive = true ∧
    (reach true [.connect .loop, .iter [.connector 4]]).connection = some 0 ∧
    findIn (reach true [.connect .loop, .iter [.connector 4]]).conns 0 = some { sock := 0 } := by decide

/-- the hypotheses of `retry_policy`: the same state is a `Mid` state (it is a boundary state) -/
example : Mid (reach true [.connect .loop, .iter [.connector 4]]) [] true :=
  reach_bnd true _ (by decide)

/-! ### destruction from another thread (F11): outside the theorems above -/

/-- the scope guard without the restriction of `~TcpClient` to the loop thread -/
def okInAny (c : C) : In → Prop
  | .destroy _ => c.clientAlive = true
  | i => okIn c i
instance (c : C) (i : In) : Decidable (okInAny c i) := by
  cases i <;> unfold okInAny <;> infer_instance

def GuardedAny (c : C) : List In → Prop
  | [] => True
  | i :: is => okInAny c i ∧ GuardedAny (step c i) is
instance : (c : C) → (ins : List In) → Decidable (GuardedAny c ins)
  | _, [] => by unfold GuardedAny; infer_instance
  | c, i :: is => by
    unfold GuardedAny
    have := instDecidableGuardedAny (step c i) is
    infer_instance

/-- `destroy_safe` for any thread: what one would like to have -/
def destroy_safe_full : Prop :=
  ∀ (asserts : Bool) (ins : List In), GuardedAny (init asserts) ins → ∀ w, Ev.uaf w ∉ (reach asserts ins).trace

/-- the history on which the model shows the use after free: the connection is up; `~TcpClient`
runs on a foreign thread, so `setCloseCallback(detail::removeConnection)` is only *queued*
(`TcpClient.cc`: "FIXME: not 100% safe, if we are in different thread"); the loop reports the
peer's hang-up first and `TcpConnection::handleClose` calls `TcpClient::removeConnection` on the
destroyed client -/
def f11Witness : List In := [.connect .loop, .iter [.connector 4], .destroy .foreign, .iter [.conn 0 16]]

theorem destroy_safe_full_false : ¬ destroy_safe_full := by
  intro h
  exact h true f11Witness (by decide) "TcpClient::removeConnection" (by decide)

end MuduoVerif.C12
