import MuduoVerif.Proofs.Client
import MuduoVerif.Proofs.ClientSkelTie
/-!
# C12 — a client connects once per cycle, backs off, obeys stop/disconnect

Property theorems only (lemmas: `Proofs/Client*.lean`).  The model is `Model/Client.lean`
(`Connector` + `TcpClient` + the parts of `TcpConnection`, `Channel`, `TimerQueue` and the functor
queue a client's user can observe); constants, the delay update, the errno table, every state test,
the destructor's branches and how `shutdown()`'s functor holds the connection are generated from the
sources (`Generated/Client.lean`, `Generated/Conn.lean`).

**Quantification.**  `ins : List In` is any history of `connect / disconnect / stop / enableRetry /
destroy / holdRef / dropRef` (from the loop thread or a foreign thread), of operations the user's
connection callback performs on the client from inside the UP / DOWN report (`hookUp op`, `hookDown op`
register `disconnect / stop / connect / query connection()` for the next report; the model runs them at
the point where `connectEstablished()` / `handleClose()` call the callback), clock advances, loop
iterations with *any* list of reported channels and event masks, and any results of `::connect`,
`SO_ERROR`, self-connect test and `readv`; both build flavours (`asserts`).  The scope guard
`Guarded` (a decidable predicate on the history, `Proofs/ClientOps.lean`) says:
* `connect()` only while no attempt, connection, pending retry timer or queued `connect()` of that
  client is outstanding (the property's own quantifier), and only on a live client; since the F33 fix a pending
  retry timer of a cycle that `stop()` has ended is no obstacle: `connect()` on the loop thread with that timer still
  armed is inside (`connectOk`), and once the loop has run `stop()`'s functor the timer is gone anyway
  (`stale_timer_cancelled`).  Still outside: `connect()` from ANOTHER thread in the window in which `stop()`'s functor
  is still queued and the stopped cycle's timer still armed (the timer may fire before the queued functors run; the
  invariant does not cover an attempt with a `connect()` queued behind it) - the harness runs these histories against
  the oracle only;
* `disconnect() / stop() / enableRetry()` only on a live client;
* from inside the UP callback never `connect()` (a connection is outstanding: the same quantifier); from inside
  the DOWN callback `connect()` only by a client that does not reconnect by itself (`enableRetry` and a registered
  `hookDown connect` exclude each other: both would start an attempt);
* `~TcpClient` on the loop thread (`Who.loop`; the foreign-thread case is F11, see the end);
* the user drops a connection reference only if the connection is down or somebody else still
  holds it (`TcpConnection`'s own contract: its destructor asserts `kDisconnected`).

**How the statements are phrased.**  `scan` (`Proofs/ClientSpec.lean`) is an automaton over event
traces that does not mention the model; the invariant proved for all guarded histories says that
the model's trace is accepted by it and that its summary matches the model's state.  The theorems
below unfold what acceptance means.  The ghost marks `Ev.ghost` in a trace are the user's calls
(`stop_marks`, `connect_marks`, `destroy_marks`) and the start of a connect cycle
(`Connector::startCycleInLoop`, `Connector::restart`).
-/
namespace MuduoVerif.C12
open MuduoVerif.Client MuduoVerif.Gen.Client

/-- the property's schedule: delay before the i-th consecutive retry of a cycle, in ms -/
abbrev specDelay (i : Nat) : Nat := Client.specDelay i

/-- the T1-translated update of `Connector::retry` walks the schedule -/
theorem next_delay_spec (i : Nat) : nextDelay (specDelay i) = specDelay (i + 1) := nextDelay_spec i

theorem spec_delay_formula (i : Nat) : specDelay i = min (500 * 2 ^ i) 30000 := rfl

section
variable (asserts : Bool) (ins : List In) (hg : Guarded (init asserts) ins)
include hg

/-- **no_abort**: in no guarded history, in either build flavour, does an assertion fail or does a
step touch a destroyed object; the process never dies -/
theorem no_abort :
    (reach asserts ins).dead = false ∧
    ∀ w, Ev.abort w ∉ (reach asserts ins).trace ∧ Ev.uaf w ∉ (reach asserts ins).trace :=
  bnd_no_bad (reach_bnd asserts ins hg)

/-- **socket_once**: every socket is created once; it is handed over to a connection xor closed by
the connector, exactly once — unless it is the socket of the attempt in progress, of which there is
at most one and which is watched by the connector's channel; a handed-over descriptor is closed by
`~TcpConnection` at most once, after DOWN, which comes after UP, which comes after the hand-over -/
theorem socket_once (k : Nat) :
    (reach asserts ins).trace.count (.sockCreated k) = (if k < (reach asserts ins).nsock then 1 else 0) ∧
    (k < (reach asserts ins).nsock →
      (reach asserts ins).trace.count (.handedOver k) + (reach asserts ins).trace.count (.sockClosed k) =
        (if (reach asserts ins).sockSt[k]? = some .opened then 0 else 1)) ∧
    ((reach asserts ins).sockSt[k]? = some .opened →
      (reach asserts ins).cstate = .kConnecting ∧ (reach asserts ins).chan = some k ∧ (reach asserts ins).chanOn = true) ∧
    (reach asserts ins).trace.count (.connClosed k) ≤ (reach asserts ins).trace.count (.down k) ∧
    (reach asserts ins).trace.count (.down k) ≤ (reach asserts ins).trace.count (.up k) ∧
    (reach asserts ins).trace.count (.up k) ≤ (reach asserts ins).trace.count (.handedOver k) ∧
    (reach asserts ins).trace.count (.handedOver k) ≤ 1 :=
  bnd_socket (reach_bnd asserts ins hg) k

/-- no socket leaks in a quiescent state: when no attempt is in progress every socket ever created
has been handed over or closed (stop while connecting, error + writable in one dispatch,
self-connect, refused connects, destruction in any state: all are histories) -/
theorem no_leak_quiescent (hq : (reach asserts ins).cstate ≠ .kConnecting) (k : Nat) (hk : k < (reach asserts ins).nsock) :
    (reach asserts ins).trace.count (.handedOver k) + (reach asserts ins).trace.count (.sockClosed k) = 1 := by
  obtain ⟨_, h2, h3, _⟩ := socket_once asserts ins hg k
  rw [h2 hk, if_neg]
  intro ho; exact hq (h3 ho).1

/-- and after a loop iteration every `TcpConnection` that still exists is referred to by the user,
by the live client or by a queued functor: none is forgotten with its descriptor open -/
theorem no_conn_leak (a : List Src) (y : ConnRec) (hy : y ∈ (iter (reach asserts ins) a).conns)
    (hd : y.destroyed = false) : connHeld (iter (reach asserts ins) a) y = true :=
  iter_no_conn_leak _ (reach_bnd asserts ins hg) a y hy hd

/-- **backoff**: the i-th retry scheduled since the cycle began (`i` counted from the last cycle
mark before it) waits `min(500·2^i, 30000)` ms -/
theorem backoff {pre post : List Ev} {i ms t : Nat}
    (h : (reach asserts ins).trace = pre ++ .retryScheduled i ms t :: post) :
    i = (cyc pre).2 ∧ ms = specDelay i :=
  bnd_backoff (reach_bnd asserts ins hg) h

/-- **one_up_per_cycle**: an UP is the first of its cycle, is reported on a socket that was handed
over (and not closed), and is reported once per socket -/
theorem one_up_per_cycle {pre post : List Ev} {k : Nat}
    (h : (reach asserts ins).trace = pre ++ .up k :: post) :
    (cyc pre).1 = 0 ∧ Ev.handedOver k ∈ pre ∧ Ev.up k ∉ pre ∧ Ev.sockClosed k ∉ pre :=
  bnd_one_up (reach_bnd asserts ins hg) h

/-- **stop_silences**: from the moment `stop()` returns (not only after its functor ran) until the
next `connect()`, nothing is started: no attempt, no UP, no retry timer -/
theorem stop_silences {pre post : List Ev} {e : Ev}
    (h : (reach asserts ins).trace = pre ++ e :: post) (hs : stoppedAfter pre = true) : e.starts = false :=
  bnd_silence (reach_bnd asserts ins hg) h (.inl hs)

/-- once `~TcpClient` has run nothing is started on behalf of the client either: no attempt, no
retry timer, no UP callback into the destroyed client -/
theorem destroyed_silent {pre post : List Ev} {e : Ev}
    (h : (reach asserts ins).trace = pre ++ e :: post) (hs : goneAfter pre = true) : e.starts = false :=
  bnd_silence (reach_bnd asserts ins hg) h (.inr hs)

/-- **disconnect_graceful**: `disconnect()` on the established connection clears the client's
`connect_`, queues the half-close, and the next loop iteration — whatever the poller reports in it —
performs `shutdown(SHUT_WR)` on that connection -/
theorem disconnect_graceful (w : Who) (k : Nat) (x : ConnRec)
    (hal : (reach asserts ins).clientAlive = true) (hcn : (reach asserts ins).connection = some k)
    (hx : findIn (reach asserts ins).conns k = some x) (hst : x.st = .connected) :
    (step (reach asserts ins) (.disconnect w)).tConnect = false ∧
    (step (reach asserts ins) (.disconnect w)).pending = (reach asserts ins).pending ++ [.shutdownInLoop k] ∧
    ∀ a, ∃ d, (step (step (reach asserts ins) (.disconnect w)) (.iter a)).trace = (reach asserts ins).trace ++ d ∧
      Ev.shutdownWr k ∈ d := by
  obtain ⟨h1, _, h3, h4⟩ := disconnect_leads _ (reach_bnd asserts ins hg) hal w k x hcn hx hst
  exact ⟨h1, h3, h4⟩

/-- **connection_visible_in_callback**: whenever the user's callback, while it reports connection `k` (UP or
DOWN), reads `client.connection()`, it gets that very connection - and `k` has been reported UP before -/
theorem connection_visible_in_callback {pre post : List Ev} {k : Nat} {seen : Option Nat}
    (h : (reach asserts ins).trace = pre ++ .query k seen :: post) : seen = some k ∧ Ev.up k ∈ pre :=
  bnd_query (reach_bnd asserts ins hg) h

/-- **disconnect_in_callback_graceful**: `disconnect()` issued from inside the UP callback - wherever in the
history that callback is registered and whichever iteration reports the connection: if `disconnect()` is the
callback's next operation and the callback runs in the iteration `iter a`, then that iteration reports a
connection `k` UP and, after it, performs `shutdown(SHUT_WR)` on `k` (in its functor phase, behind the data
queued before) - whatever the poller reports in it.  (DOWN follows when the peer closes: `retry_policy`,
`callback_disconnect_then_down`.) -/
theorem disconnect_in_callback_graceful (rest : List HookOp) (hh : (reach asserts ins).hooksUp = .disconnect :: rest)
    (a : List Src) (hf : (step (reach asserts ins) (.iter a)).hooksUp ≠ (reach asserts ins).hooksUp) :
    ∃ k d0 d1, (step (reach asserts ins) (.iter a)).trace = (reach asserts ins).trace ++ d0 ++ d1 ∧
      Ev.up k ∈ d0 ∧ Ev.shutdownWr k ∈ d1 := by
  have hb := reach_bnd asserts ins hg
  rw [step_iter _ a hb.notDead] at hf ⊢
  exact iter_callback_disconnect _ hb rest hh a hf

/-- and the callback does run when an UP is reported: an iteration that reports a connection UP consumes the
next operation registered for the UP callback (if there is one) -/
theorem up_runs_callback (a : List Src) (k : Nat) (hk : Ev.up k ∈ (step (reach asserts ins) (.iter a)).trace)
    (hnk : Ev.up k ∉ (reach asserts ins).trace) :
    (reach asserts ins).hooksUp = [] ∨ (step (reach asserts ins) (.iter a)).hooksUp ≠ (reach asserts ins).hooksUp := by
  have hb := reach_bnd asserts ins hg
  rw [step_iter _ a hb.notDead] at hk ⊢
  exact iter_up_runs_callback _ hb a k hk hnk

/-- **destroy_safe_inloop** (`Who.loop`), first part: after `~TcpClient` the client is gone and one
loop iteration later no socket of an attempt is open any more (it was closed or, had the attempt
completed before, handed over) — in whatever state the client was destroyed -/
theorem destroy_safe_inloop_sockets (hal : (reach asserts ins).clientAlive = true) :
    (step (reach asserts ins) (.destroy .loop)).clientAlive = false ∧
    ∀ (a : List Src) (k : Nat),
      (step (step (reach asserts ins) (.destroy .loop)) (.iter a)).sockSt[k]? ≠ some SockSt.opened :=
  destroy_quiet _ (reach_bnd asserts ins hg) hal

/-- second part: an established connection that nobody but the client holds goes DOWN and is
destroyed (descriptor closed) within two loop iterations.  This needs `shutdown()`'s functor to hold
the connection weakly (`Gen.Conn.shutdownHold = .weak`, the F26 fix; `gen_shutdown_weak`): with
`.strong` a pending `disconnect()` makes `connection_.unique()` false, nobody closes the connection,
and `reap` finds it destroyed while still connected (corpus/C12/F26-…) -/
theorem destroy_safe_inloop_connection (hal : (reach asserts ins).clientAlive = true) (k : Nat) (x : ConnRec)
    (hcn : (reach asserts ins).connection = some k) (hx : findIn (reach asserts ins).conns k = some x)
    (hur : x.userRef = false) (a b : List Src) :
    Ev.down k ∈ (step (step (step (reach asserts ins) (.destroy .loop)) (.iter a)) (.iter b)).trace ∧
    Ev.connClosed k ∈ (step (step (step (reach asserts ins) (.destroy .loop)) (.iter a)) (.iter b)).trace :=
  destroy_leads _ (reach_bnd asserts ins hg) hal k x hcn hx hur a b

end

/-- the marks in the trace are the user's calls -/
theorem marks (c : C) (hb : Bnd c) (hal : c.clientAlive = true) (w : Who) :
    (step c (.stop w)).trace = c.trace ++ [.ghost .stop] ∧
    c.trace ++ [.ghost .connect] <+: (step c (.connect w)).trace ∧
    c.trace ++ [.ghost .destroy] <+: (step c (.destroy .loop)).trace :=
  ⟨stop_marks c w hb.notDead hal, connect_marks c w hb.notDead hal, destroy_marks c hb hal⟩

/-- T1: `TcpClient::newConnection` stores `connection_` before `conn->connectEstablished()` (re-extracted on
every run, `Generated/Client.lean`); the three theorems below rest on it -/
theorem connection_published_before_up : publishBeforeEstablish = true := gen_publishBeforeEstablish

/-- **connection_visible_in_up_callback**: in whatever state a live client's `newConnection(k)` runs, a callback
that reads `client.connection()` on UP finds the connection being reported: the events are hand-over, UP, and the
query answered with `k` -/
theorem connection_visible_in_up_callback (c : C) (k : Nat) (hal : c.clientAlive = true) (rest : List HookOp)
    (hh : c.hooksUp = .query :: rest) :
    (newConnection c k).trace = c.trace ++ [.handedOver k, .up k, .query k (some k)] ∧
    (newConnection c k).hooksUp = rest := by
  rw [newConnection_eq c k hal]
  unfold runHookUp
  rw [if_pos (show (estab c k).clientAlive = true from hal), show (estab c k).hooksUp = .query :: rest from hh]
  simp [hookOp, emit, estab]

/-- **disconnect_in_up_callback**: `disconnect()` called by the UP callback of a live client for the fresh
connection `k` acts on that connection: `connect_` is cleared, the connection is `kDisconnecting`, its half-close
is queued right behind what was queued before, and the client still refers to it -/
theorem disconnect_in_up_callback (c : C) (k : Nat) (hal : c.clientAlive = true) (hn : findIn c.conns k = none)
    (rest : List HookOp) (hh : c.hooksUp = .disconnect :: rest) :
    (newConnection c k).tConnect = false ∧
    (newConnection c k).pending = c.pending ++ [.shutdownInLoop k] ∧
    (newConnection c k).trace = c.trace ++ [.handedOver k, .up k] ∧
    (newConnection c k).connection = some k ∧ connSt (newConnection c k) k = .disconnecting ∧
    (newConnection c k).hooksUp = rest := by
  rw [newConnection_eq c k hal]
  unfold runHookUp
  rw [if_pos (show (estab c k).clientAlive = true from hal), show (estab c k).hooksUp = .disconnect :: rest from hh]
  simp only
  rw [disconnect_in_estab c k hn rest]
  refine ⟨rfl, rfl, rfl, rfl, ?_, rfl⟩
  have hnew : findIn (c.conns ++ [({ sock := k } : ConnRec)]) k = some { sock := k } := by
    rw [findIn_append_new _ rfl, hn]; simp
  show ((findIn ((c.conns ++ [({ sock := k } : ConnRec)]).map (updRec k toDisconnecting)) k).map (·.st)).getD .disconnected = _
  rw [findIn_upd k k toDisconnecting (fun _ => rfl), hnew]
  simp [updRec, toDisconnecting]

/-- every cycle starts at 500 ms (the F13 fix, `Gen.Client.cycleResetsDelay`): the first retry
after a cycle mark waits `specDelay 0 = 500` ms -/
theorem backoff_cycle_starts_at_500 (asserts : Bool) (ins : List In) (hg : Guarded (init asserts) ins)
    {pre mid post : List Ev} {i ms t : Nat}
    (h : (reach asserts ins).trace = pre ++ .ghost .cycle :: mid ++ .retryScheduled i ms t :: post)
    (hm : ∀ e ∈ mid, ∀ i' ms' t', e ≠ .retryScheduled i' ms' t') : i = 0 ∧ ms = 500 := by
  have h' : (reach asserts ins).trace = (pre ++ .ghost .cycle :: mid) ++ .retryScheduled i ms t :: post := by
    rw [h]
  obtain ⟨h1, h2⟩ := backoff asserts ins hg h'
  have hz : ∀ (l : List Ev) (a : Nat × Nat), a.2 = 0 → (∀ e ∈ l, ∀ i' ms' t', e ≠ .retryScheduled i' ms' t') →
      (l.foldl cycStep a).2 = 0 := by
    intro l
    induction l with
    | nil => intro a ha _; exact ha
    | cons e l ih =>
      intro a ha hl
      rw [List.foldl_cons]
      apply ih
      · cases e with
        | retryScheduled i' ms' t' => exact absurd rfl (hl _ List.mem_cons_self i' ms' t')
        | ghost g => cases g <;> first | rfl | exact ha
        | _ => exact ha
      · intro e' he'; exact hl e' (by simp [he'])
  have : (cyc (pre ++ .ghost .cycle :: mid)).2 = 0 := by
    unfold cyc
    rw [List.foldl_append, List.foldl_cons]
    exact hz mid _ rfl hm
  rw [this] at h1
  subst h1
  exact ⟨rfl, h2⟩

/-- what `Connector::retry` arms: the timer fires `specDelay nretry` ms after the failure, and the
retry timer does not fire before it is due -/
theorem backoff_timer (c : C) (r : List Task) (ph : Bool) (hi : Mid c r ph) (k : Nat) (hcc : c.cConnect = true) :
    (retry c k).timers = c.timers ++ [(c.now + specDelay c.nretry * 1000, .retry)] ∧
    (retry c k).trace = c.trace ++ [.sockClosed k, .retryScheduled c.nretry (specDelay c.nretry) c.now] ∧
    ((∀ t ∈ c.timers, c.now < t.1) → (fireTimers c).trace = c.trace ∧ (fireTimers c).nsock = c.nsock) := by
  obtain ⟨h1, h2, _⟩ := retry_arms c k hcc hi.g1
  exact ⟨h1, h2, fireTimers_not_due c r ph hi⟩

/-- **retry_policy**: in every state `c` the loop can be in during a guarded history (`Mid`), when
the established connection `k` of a live client goes down (`TcpConnection::handleClose` with
`TcpClient::removeConnection` behind it; the connector's channel is gone: `c.chan = none`), the user's callback
is told DOWN first - `downCb c k` is the state in which it returns, with whatever it did to the client - and then
a new cycle with a new attempt starts in the same dispatch iff `retry_ ∧ connect_` hold at that moment; otherwise
nothing further happens -/
theorem retry_policy (c : C) (r : List Task) (ph : Bool) (hi : Mid c r ph) (k : Nat) (x : ConnRec)
    (hx : findIn c.conns k = some x) (hst : x.st ≠ .disconnected) (hcb : x.closeCb = .client) (hch : c.chan = none) :
    ((downCb c k).retry = true ∧ (downCb c k).tConnect = true →
      ∃ tail, (handleClose c k).trace = (downCb c k).trace ++
        [.ghost .cycle, .sockCreated (downCb c k).nsock, .attempt (downCb c k).nsock (downCb c k).now] ++ tail) ∧
    (¬ ((downCb c k).retry = true ∧ (downCb c k).tConnect = true) →
      (handleClose c k).trace = (downCb c k).trace ∧ (handleClose c k).nsock = (downCb c k).nsock) :=
  handleClose_client_trace c r ph hi k x hx hst hcb hch

/-- the DOWN callback starts with the DOWN report; a callback with no operation registered adds nothing -/
theorem down_callback_state (c : C) (k : Nat) :
    c.trace ++ [.down k] <+: (downCb c k).trace ∧
    (c.hooksDown = [] → (downCb c k).trace = c.trace ++ [.down k] ∧ (downCb c k).retry = c.retry ∧
      (downCb c k).tConnect = c.tConnect ∧ (downCb c k).nsock = c.nsock ∧ (downCb c k).now = c.now) := by
  refine ⟨(runHookDown_grow (downState c k) k).tr, fun h => ?_⟩
  unfold downCb
  rw [runHookDown_none _ k (show (downState c k).hooksDown = [] from h)]
  exact ⟨rfl, rfl, rfl, rfl, rfl⟩

/-- **retry_policy** for a callback that does nothing on DOWN: a new cycle with a new attempt starts in the same
dispatch iff `retry_ ∧ connect_`; otherwise DOWN is all that happens -/
theorem retry_policy_plain (c : C) (r : List Task) (ph : Bool) (hi : Mid c r ph) (k : Nat) (x : ConnRec)
    (hx : findIn c.conns k = some x) (hst : x.st ≠ .disconnected) (hcb : x.closeCb = .client) (hch : c.chan = none)
    (hh : c.hooksDown = []) :
    (c.retry = true ∧ c.tConnect = true →
      ∃ tail, (handleClose c k).trace =
        c.trace ++ [.down k, .ghost .cycle, .sockCreated c.nsock, .attempt c.nsock c.now] ++ tail) ∧
    (¬ (c.retry = true ∧ c.tConnect = true) →
      (handleClose c k).trace = c.trace ++ [.down k] ∧ (handleClose c k).nsock = c.nsock) := by
  obtain ⟨h1, h2⟩ := retry_policy c r ph hi k x hx hst hcb hch
  obtain ⟨e1, e2, e3, e4, e5⟩ := (down_callback_state c k).2 hh
  rw [e1, e2, e3, e4, e5] at h1
  rw [e1, e2, e3, e4] at h2
  refine ⟨fun h => ?_, h2⟩
  obtain ⟨tail, ht⟩ := h1 h
  exact ⟨tail, by rw [ht]; simp⟩

/-- a DOWN callback that calls `disconnect()` or `stop()` prevents the reconnect even with retry enabled -/
theorem down_callback_disconnect_no_reconnect (c : C) (r : List Task) (ph : Bool) (hi : Mid c r ph) (k : Nat) (x : ConnRec)
    (hx : findIn c.conns k = some x) (hst : x.st ≠ .disconnected) (hcb : x.closeCb = .client) (hch : c.chan = none)
    (op : HookOp) (rest : List HookOp) (hh : c.hooksDown = op :: rest) (hop : op = .disconnect ∨ op = .stop) :
    (handleClose c k).nsock = c.nsock ∧ (handleClose c k).tConnect = false := by
  obtain ⟨hxm, hxs⟩ := findIn_some hx
  obtain ⟨hal, hcn⟩ := hi.c6 x hxm hst hcb
  have hdt : (downCb c k).tConnect = false ∧ (downCb c k).nsock = c.nsock := by
    unfold downCb runHookDown
    rw [if_pos (show (downState c k).clientAlive = true from hal), show (downState c k).hooksDown = op :: rest from hh]
    simp only
    rcases hop with rfl | rfl
    · refine ⟨?_, ?_⟩
      · show (userDisconnect _).tConnect = false
        unfold userDisconnect connShutdown; simp only; repeat' split
        all_goals rfl
      · show (userDisconnect _).nsock = c.nsock
        unfold userDisconnect connShutdown; simp only; repeat' split
        all_goals rfl
    · refine ⟨?_, ?_⟩
      · show (userStop _ .loop).tConnect = false
        unfold userStop connectorStop; simp only [stopDispatch]; rfl
      · show (userStop _ .loop).nsock = c.nsock
        unfold userStop connectorStop; simp only [stopDispatch]; rfl
  have h2 := (retry_policy c r ph hi k x hx hst hcb hch).2 (by rw [hdt.1]; simp)
  refine ⟨h2.2.trans hdt.2, ?_⟩
  rw [handleClose_client_eq c r ph hi k x hx hst hcb hch, if_neg (by simp [reconnects, hdt.1])]
  exact hdt.1

/-- **callback_disconnect_then_down**: after such a `disconnect()` (the client's `connect_` is false) the peer's
close takes the connection down and that is all: DOWN, no new attempt - even with retry enabled (`c`: any
state of a guarded history in which connection `k` is still the client's, no DOWN operation registered) -/
theorem callback_disconnect_then_down (c : C) (r : List Task) (ph : Bool) (hi : Mid c r ph) (k : Nat) (x : ConnRec)
    (hx : findIn c.conns k = some x) (hst : x.st ≠ .disconnected) (hcb : x.closeCb = .client) (hch : c.chan = none)
    (hh : c.hooksDown = []) (htc : c.tConnect = false) :
    (handleClose c k).trace = c.trace ++ [.down k] ∧ (handleClose c k).nsock = c.nsock :=
  (retry_policy_plain c r ph hi k x hx hst hcb hch hh).2 (by rw [htc]; simp)

/-- T1, statement order: in every `Connector` / `TcpClient` function the model implements (and in
`detail::removeConnection`, `detail::removeConnector`) the source performs the same significant actions - state
stores, channel operations (creation and destruction of the channel included), the new-connection callback, hand-offs
to the loop, member calls, calls on the connector / the connection, socket calls, stores to members and locals,
assertions - in the same order and under the same nesting of the generated guards (and of the classes of the
generated errno table) as `Model/Client.lean` (`Model/ClientSkelDecl.lean`); re-extracted from /repo on every run
(`Generated/ClientSkel.lean`), proved in `Proofs/ClientSkelTie.lean` -/
theorem statement_order_tied :
    Gen.ClientSkel.start = ClientSkel.Decl.start ∧
    Gen.ClientSkel.startCycleInLoop = ClientSkel.Decl.startCycleInLoop ∧
    Gen.ClientSkel.startInLoop = ClientSkel.Decl.startInLoop ∧
    Gen.ClientSkel.stop = ClientSkel.Decl.stop ∧
    Gen.ClientSkel.stopInLoop = ClientSkel.Decl.stopInLoop ∧
    Gen.ClientSkel.connect = ClientSkel.Decl.connect ∧
    Gen.ClientSkel.restart = ClientSkel.Decl.restart ∧
    Gen.ClientSkel.connecting = ClientSkel.Decl.connecting ∧
    Gen.ClientSkel.removeAndResetChannel = ClientSkel.Decl.removeAndResetChannel ∧
    Gen.ClientSkel.resetChannel = ClientSkel.Decl.resetChannel ∧
    Gen.ClientSkel.handleWrite = ClientSkel.Decl.handleWrite ∧
    Gen.ClientSkel.handleError = ClientSkel.Decl.handleError ∧
    Gen.ClientSkel.retry = ClientSkel.Decl.retry ∧
    Gen.ClientSkel.cancelRetryTimer = ClientSkel.Decl.cancelRetryTimer ∧
    Gen.ClientSkel.detailRemoveConnection = ClientSkel.Decl.detailRemoveConnection ∧
    Gen.ClientSkel.detailRemoveConnector = ClientSkel.Decl.detailRemoveConnector ∧
    Gen.ClientSkel.dtor = ClientSkel.Decl.dtor ∧
    Gen.ClientSkel.clientConnect = ClientSkel.Decl.clientConnect ∧
    Gen.ClientSkel.clientDisconnect = ClientSkel.Decl.clientDisconnect ∧
    Gen.ClientSkel.clientStop = ClientSkel.Decl.clientStop ∧
    Gen.ClientSkel.newConnection = ClientSkel.Decl.newConnection ∧
    Gen.ClientSkel.removeConnection = ClientSkel.Decl.removeConnection :=
  ClientSkel.skeletons_agree

/-! ### the hypotheses are satisfiable -/

/-- a guarded history with a refused attempt, a retry, an established connection, `disconnect()`,
the peer's close and the destruction of the client -/
def sampleHistory : List In :=
  [.enableRetry, .envConnect 111, .connect .loop, .advance 500000, .iter [.timer], .iter [.connector 4],
   .holdRef, .disconnect .foreign, .iter [], .envRead (some 0), .iter [.conn 1 1], .dropRef, .stop .loop, .iter [],
   .connect .foreign, .iter [], .iter [.connector 4], .destroy .loop, .iter [], .iter []]

example : Guarded (init true) sampleHistory := by decide
example : Guarded (init false) sampleHistory := by decide
example : (reach true sampleHistory).trace.count (.up 1) = 1 ∧ (reach true sampleHistory).trace.count (.up 2) = 1 ∧
    Ev.retryScheduled 0 500 0 ∈ (reach true sampleHistory).trace ∧ Ev.shutdownWr 1 ∈ (reach true sampleHistory).trace ∧
    Ev.connClosed 2 ∈ (reach true sampleHistory).trace := by decide

/-- the hypotheses of `disconnect_graceful` and `destroy_safe_inloop_connection` hold after `connect(); iter` -/
example : Guarded (init true) [.connect .loop, .iter [.connector 4]] ∧
    (reach true [.connect .loop, .iter [.connector 4]]).clientAlive = true ∧
    (reach true [.connect .loop, .iter [.connector 4]]).connection = some 0 ∧
    findIn (reach true [.connect .loop, .iter [.connector 4]]).conns 0 = some { sock := 0 } := by decide

/-- the hypotheses of `retry_policy`: the same state is a `Mid` state (it is a boundary state) -/
example : Mid (reach true [.connect .loop, .iter [.connector 4]]) [] true :=
  reach_bnd true _ (by decide)

/-- a guarded history with operations performed inside the connection callback: the first UP callback reads
`connection()`, the DOWN callback of that connection reads it too, the client (retry enabled) reconnects, and the
UP callback of the second connection calls `disconnect()` -/
def hookHistory : List In :=
  [.enableRetry, .hookUp .query, .hookUp .disconnect, .hookDown .query, .connect .loop, .iter [.connector 4],
   .envRead (some 0), .iter [.conn 0 1], .iter [.connector 4], .envRead (some 0), .iter [.conn 1 1], .iter []]

example : Guarded (init true) hookHistory := by decide
example : Guarded (init false) hookHistory := by decide
example : (reach true hookHistory).trace.count (.query 0 (some 0)) = 2 ∧ Ev.shutdownWr 1 ∈ (reach true hookHistory).trace ∧
    Ev.down 1 ∈ (reach true hookHistory).trace ∧ (reach true hookHistory).nsock = 2 := by decide

/-- the hypotheses of `disconnect_in_callback_graceful` hold before the iteration that reports the second connection -/
example : Guarded (init true) (hookHistory.take 8) ∧ (reach true (hookHistory.take 8)).hooksUp = [.disconnect] ∧
    (step (reach true (hookHistory.take 8)) (.iter [.connector 4])).hooksUp ≠ (reach true (hookHistory.take 8)).hooksUp := by
  decide

/-- `connect()` from inside the DOWN callback of a client that does not reconnect by itself, `stop()` from inside
the UP callback of the connection that follows -/
def hookHistory2 : List In :=
  [.hookDown .connect, .hookUp .query, .hookUp .stop, .connect .loop, .iter [.connector 4], .envRead (some 0),
   .iter [.conn 0 1], .iter [.connector 4], .iter [], .destroy .loop, .iter [], .iter []]

example : Guarded (init true) hookHistory2 := by decide
example : Ev.attempt 1 0 ∈ (reach true hookHistory2).trace ∧ Ev.up 1 ∈ (reach true hookHistory2).trace ∧
    stoppedAfter (reach true hookHistory2).trace = true ∧ Ev.connClosed 1 ∈ (reach true hookHistory2).trace := by decide

/-- outside the scope guard: `connect()` from the UP callback; `connect()` from the DOWN callback of a client with
retry enabled (two attempts: the model shows the failed assertion `!channel_`) -/
example : ¬ Guarded (init true) [.hookUp .connect] := by decide
example : ¬ Guarded (init true) [.enableRetry, .hookDown .connect] := by decide
example : (reach true [.hookDown .connect, .enableRetry, .connect .loop, .iter [.connector 4], .envRead (some 0),
    .iter [.conn 0 1]]).dead = true := by decide

/-! ### the back-off timer is an object that is cancelled (F33) -/

/-- **stale_timer_cancelled**: (1) when the loop runs `stop()`'s functor and `stop()` is still the user's last word
(`connect_` is false), no back-off timer is pending afterwards - neither the one that was armed, nor a new one;
(2) a new cycle begins (`startCycleInLoop`) by cancelling whatever back-off timer the previous cycle left;
(3) a cancelled timer never starts an attempt: in a state without a pending back-off timer the timer dispatch creates
no socket and makes no attempt, whatever the clock says.
[`stopCancelsRetryTimer`, `cycleStartCancelsRetryTimer`, `retryTimerStored` are generated from the source; the tree
before a9261b3 extracts `False` / `false` / `false` and these statements fail to type-check against it] -/
theorem stale_timer_cancelled (c : C) :
    (c.cConnect = false → nRetry (stopInLoop c).timers = 0) ∧
    nRetry (cancelIf cycleStartCancelsRetryTimer c).timers = 0 ∧
    ∀ d : C, nRetry d.timers = 0 → (fireTimers d).nsock = d.nsock ∧ ∀ k t, Ev.attempt k t ∈ (fireTimers d).trace → Ev.attempt k t ∈ d.trace := by
  refine ⟨fun hs => ?_, cancelRetry_none c, fun d hd => ?_⟩
  · have hc : cancelIf (decide (stopCancelsRetryTimer c.cConnect)) c = cancelRetry c := by
      simp [cancelIf, stopCancelsRetryTimer, hs]
    unfold stopInLoop; rw [hc]
    have h0 := cancelRetry_none c
    have hcc : (cancelRetry c).cConnect = false := hs
    generalize cancelRetry c = e at h0 hcc
    unfold stopInLoopCore retry closeSock die
    simp only [retrySchedules, hcc]
    repeat' split
    all_goals first | exact h0 | simp_all
  · have hz := nRetry_zero hd
    unfold fireTimers
    simp only
    rw [foldl_fix _ _ _ (by
      intro c t ht
      have hr := hz t (List.mem_filter.mp ht).1
      split
      · rfl
      · split
        · rename_i h2; exact absurd h2 hr
        · rfl)]
    unfold reapConnector die
    simp only
    repeat' split
    all_goals first | exact ⟨rfl, fun _ _ h => h⟩ | (refine ⟨rfl, fun k t h => ?_⟩; simpa using h)

/-- F33 inside the scope guard: the first attempt is refused (timer at +500 ms), `stop()` during the wait, `connect()`
again on the loop thread while the stopped cycle's timer is still armed (the relaxed clause of `connectOk`): the new
cycle cancels it; the stale `stop()` functor then ends the new attempt and schedules its retry (`connect_` is true
again), which connects; the old deadline and everything after pass without a second attempt chain -/
def f33History : List In :=
  [.envConnect 111, .connect .loop, .stop .loop, .connect .loop, .iter [.timer], .advance 500000, .iter [.timer],
   .iter [.connector 4], .advance 40000000, .iter [.timer]]

example : Guarded (init true) f33History := by decide
example : Guarded (init false) f33History := by decide
example : nRetry (reach true (f33History.take 3)).timers = 1 ∧ (reach true (f33History.take 3)).cConnect = false ∧
    nRetry (reach true (f33History.take 4)).timers = 0 := by decide
example : (reach false f33History).trace.count (.up 2) = 1 ∧ (reach false f33History).nsock = 3 ∧
    (reach false f33History).dead = false := by decide

/-- **negation witness for the shape before a9261b3** (no cancellation: `stopInLoopCore`, `startCycleCore` are the model's
`stopInLoop`, `startCycle` when the generated flags are false): refused attempt, `stop()`, the loop runs its functor,
`connect()` starts a new cycle (attempt in progress) and the clock reaches the stale timer's deadline -/
def f33Pre (asserts : Bool) : C :=
  let c1 := run (init asserts) [.envConnect 111, .envConnect 115, .connect .loop, .stop .loop]
  let c2 := stopInLoopCore { c1 with pending := [] }
  let c3 := startCycleCore { c2 with tConnect := true, cConnect := true, stopReq := false }
  { c3 with now := c3.now + 500000 }

/-- ... then the stale timer is still pending while the new attempt is in progress, and firing it runs `startInLoop()` inside
the new cycle: with assertions `assert(state_ == kDisconnected)` fails; without, a second socket is created while the
first attempt is outstanding (two attempt chains in one cycle) -/
theorem stale_timer_fires_without_cancel :
    nRetry (f33Pre true).timers = 1 ∧ (f33Pre true).cstate = .kConnecting ∧
    (fireTimers (f33Pre true)).dead = true ∧ Ev.abort "state_ == kDisconnected" ∈ (fireTimers (f33Pre true)).trace ∧
    (fireTimers (f33Pre false)).sockSt = [.closed, .opened, .opened] := by decide

/-! ### destruction from another thread (F11): outside the theorems above -/

/-- the scope guard without the restriction of `~TcpClient` to the loop thread -/
def okInAny (c : C) : In → Prop
  | .destroy _ => c.clientAlive = true
  | i => okIn c i
instance (c : C) (i : In) : Decidable (okInAny c i) := by
  cases i <;> unfold okInAny <;> infer_instance

def GuardedAny (c : C) : List In → Prop
  | [] => True
  | i :: is => okInAny c i ∧ GuardedAny (step c i) is
instance : (c : C) → (ins : List In) → Decidable (GuardedAny c ins)
  | _, [] => by unfold GuardedAny; infer_instance
  | c, i :: is => by
    unfold GuardedAny
    have := instDecidableGuardedAny (step c i) is
    infer_instance

/-- `destroy_safe` for any thread: what one would like to have -/
def destroy_safe_full : Prop :=
  ∀ (asserts : Bool) (ins : List In), GuardedAny (init asserts) ins → ∀ w, Ev.uaf w ∉ (reach asserts ins).trace

/-- the history on which the model shows the use after free: the connection is up; `~TcpClient`
runs on a foreign thread, so `setCloseCallback(detail::removeConnection)` is only *queued*
(`TcpClient.cc`: "FIXME: not 100% safe, if we are in different thread"); the loop reports the
peer's hang-up first and `TcpConnection::handleClose` calls `TcpClient::removeConnection` on the
destroyed client -/
def f11Witness : List In := [.connect .loop, .iter [.connector 4], .destroy .foreign, .iter [.conn 0 16]]

theorem destroy_safe_full_false : ¬ destroy_safe_full := by
  intro h
  exact h true f11Witness (by decide) "TcpClient::removeConnection" (by decide)

end MuduoVerif.C12
