import MuduoVerif.Proofs.PollerPerm
import MuduoVerif.Proofs.PollerSkelTie
/-!
# C09 — the loop calls exactly the ready, subscribed channels; same under epoll and poll

Property theorems only (lemmas: `Proofs/PollerReach.lean` — decomposition of every transition into
operations, frame moves and guarded callback emissions; `PollerOps.lean` — the effect of an operation
whatever the back-end; `PollerPoll.lean`, `PollerEpoll.lean` — the two back-end invariants;
`PollerTrace.lean` — trace invariants; `PollerSim.lean` — the two back-ends in lock step;
`PollerDispatch.lean` — one iteration; `PollerPerm.lean` — histories with operations between polls only).

Quantification: `ins : List In` is an arbitrary history of `enableReading/disableReading/enableWriting/
disableWriting/disableAll/remove/recreate` on any channel (any `Nat` id), operations scripted to run
inside any callback of any channel (`In.hook`), and loop iterations with arbitrary readiness input.
The documented preconditions (`remove()` only when registered, without interest and — during dispatch —
only of the current or an inactive channel; a `Channel` object is destroyed only when unregistered and
outside the dispatch; one channel per descriptor) are the model's guards `removeOk`/`recreateOk`: a
request outside them is rejected (`Ev.reject`) and changes nothing, so the histories are unconstrained.

Finding F21 (the first update of an unregistered channel that carries no interest registered the
descriptor with an empty mask: `blind-watch`, `blind-spin`, `blind-abort`) is repaired in /repo
(`PollPoller::updateChannel` pushes such an entry in its ignored form `-fd-1`; `EPollPoller::updateChannel`
records the channel in `channels_` with slot state *deleted* and makes no `EPOLL_CTL_ADD`; both sites are
extracted: `pollNewIgnores`, `pollNewIgnoreFd`, `epNewSkips`, `epIndexAfterNewSkip`).  The theorems below are
therefore stated at full strength for every history; the former witnesses are `example`s that now pass.
-/
namespace MuduoVerif.C09
open MuduoVerif.Poller MuduoVerif.Gen.Poller

abbrev reach (be : Backend) (ins : List In) : State := run (init be) ins

/-! ## refinement: what the kernel is asked to watch -/

/-- the full-strength statement: under either back-end, after every history, the kernel watches
exactly `{fd ↦ events | channel registered ∧ events ≠ 0}` -/
def refine_full : Prop :=
  ∀ (be : Backend) (ins : List In) (fd : Int) (mask : Nat),
    watched (reach be ins) fd mask ↔ specWatched (reach be ins) fd mask

/-- **refine_poll**: after every history the non-negative entries of `pollfds_` are exactly the
specification map -/
theorem refine_poll (ins : List In) (fd : Int) (mask : Nat) :
    watched (reach .poll ins) fd mask ↔ specWatched (reach .poll ins) fd mask :=
  pollStruct_refines (pollGood_run ins).1 (pollGood_run ins).2.2 fd mask

/-- **refine_epoll**: after every history the kernel's epoll interest list, as maintained by the
`EPOLL_CTL_ADD/MOD/DEL` calls, is exactly the specification map -/
theorem refine_epoll (ins : List In) (fd : Int) (mask : Nat) :
    watched (reach .epoll ins) fd mask ↔ specWatched (reach .epoll ins) fd mask :=
  epStruct_refines (epGood_run ins).1 (epGood_run ins).2 fd mask

/-- the full-strength statement holds -/
theorem refine_full_holds : refine_full := by
  intro be ins fd mask
  cases be
  · exact refine_epoll ins fd mask
  · exact refine_poll ins fd mask

/-! ## no failure -/

/-- **no_ctl_failure**: after every history, under either back-end, whatever the
kernel reports: no `epoll_ctl` failed (`EEXIST`/`ENOENT`), nothing was logged by `LOG_SYSERR`/`LOG_SYSFATAL` -/
theorem no_ctl_failure (be : Backend) (ins : List In) :
    ∀ e ∈ (reach be ins).out, e ≠ .syserr ∧ e ≠ .fatal ∧
      ∀ op c mask res, e = .ctl op c mask res → res = .ok := by
  intro e he
  have h := (noCtlFail_run be ins).2 e he
  refine ⟨?_, ?_, ?_⟩
  · rintro rfl; simp [Ev.isCtlFailure] at h
  · rintro rfl; simp [Ev.isCtlFailure] at h
  · rintro op c mask res rfl
    cases res <;> simp_all [Ev.isCtlFailure]

/-- on a poll loop no assertion fails and the process stays alive, for every history and whatever the
kernel reports (`PollPoller` looks only at its own array) -/
theorem no_abort_poll (ins : List In) :
    (reach .poll ins).dead = false ∧ ∀ e ∈ (reach .poll ins).out, e.isFatal = false :=
  ⟨(pollGood_run ins).2.1, aliveClean_run .poll ins (pollGood_run ins).2.1⟩

/-- on an epoll loop no assertion fails and the process stays alive for every history
provided the kernel behaves (`epEnvOk`: `epoll_wait` returns what it says, no more than the array holds,
only descriptors of the interest list) -/
theorem no_abort_epoll (ins : List In) (henv : Along epEnvOk (init .epoll) ins) :
    (reach .epoll ins).dead = false ∧ ∀ e ∈ (reach .epoll ins).out, e.isFatal = false :=
  ⟨(epAlive_run ins henv).2, aliveClean_run .epoll ins (epAlive_run ins henv).2⟩

/-! ## bookkeeping invariants -/

/-- **index_inv** (poll): every registered channel's `index_` names its own `pollfds_` entry —
`(fd, events)`, the descriptor negated (`-fd-1`) exactly when there is no interest —, `channels_` maps
its descriptor to it; indices of registered channels are distinct; every entry is owned; an
unregistered channel has no slot.  Holds after every history, i.e. for every removal order
(swap-with-last) and every re-registration -/
theorem index_inv (ins : List In) :
    let s := reach .poll ins
    (∀ c, (s.chans c).added = true →
      0 ≤ (s.chans c).index ∧ s.cmap (fdOf c) = some c ∧
        s.pollfds[(s.chans c).index.toNat]? =
          some (if (s.chans c).events = 0 then pollIgnoreFd (fdOf c) else fdOf c, (s.chans c).events)) ∧
    (∀ c d, (s.chans c).added = true → (s.chans d).added = true → (s.chans c).index = (s.chans d).index → c = d) ∧
    (∀ i, i < s.pollfds.length → ∃ c, (s.chans c).added = true ∧ (s.chans c).index = (i : Int)) ∧
    (∀ c, (s.chans c).added = false → (s.chans c).index < 0 ∧ s.cmap (fdOf c) = none) := by
  have h := (pollGood_run ins).2.2
  exact ⟨h.reg, fun c d hc hd hi => h.idx_inj hc hd hi, h.cover, fun c hc => ⟨(h.unreg c hc).1, (h.unreg c hc).2.2⟩⟩

/-- the slot-state machine of `EPollPoller` (every history): a registered channel is in `channels_` and
either *added*, with interest, its interest word in the kernel — or *deleted*, without interest and unknown
to the kernel; an unregistered channel is *new*, not in `channels_`, unknown to the kernel -/
theorem slot_inv_epoll (ins : List In) :
    let s := reach .epoll ins
    ∀ c, if (s.chans c).added = true then
        s.cmap (fdOf c) = some c ∧
          (((s.chans c).index = kAdded ∧ s.kernel (fdOf c) = some (s.chans c).events ∧ (s.chans c).events ≠ 0) ∨
           ((s.chans c).index = kDeleted ∧ (s.chans c).events = 0 ∧ s.kernel (fdOf c) = none))
      else (s.chans c).index = kNew ∧ (s.chans c).events = 0 ∧ s.cmap (fdOf c) = none ∧
        s.kernel (fdOf c) = none :=
  fun c => (epGood_run ins).2.loc c

/-! ## dispatch -/

/-- **dispatch_sound**: under either back-end, after every history: a read/write/close/error callback
ran only with the matching `revents` bits (`disp`: the masks of `Channel::handleEventWithGuard`) and
only if the channel subscribed to that kind (`subscribed`: the generated `guard*` re-tests) with the
interest word it had *at the moment of the call* — `histEvents c pre` replays the operations recorded
in the trace before the call, including those executed by earlier callbacks of the same batch -/
theorem dispatch_sound (be : Backend) (ins : List In) {pre post : List Ev} {c : Nat} {k : Kind} {rev ev : Nat}
    (ho : (reach be ins).out = pre ++ .cb c k rev ev :: post) :
    disp k rev ∧ subscribed k ev ∧ ev = histEvents c pre :=
  let h := (traceInv_run be ins).cb_split ho
  ⟨h.1, h.2.1, h.2.2.1⟩

/-- the callback's `revents` are the kernel's answer of *this* iteration: in every iteration from a
reachable state the loop calls only channels of the active list the poller returned, each with
`revents = lookupRev ready c`, the value reported for it (poll loop) -/
theorem dispatch_reported_poll (ins : List In) (ready nret) :
    ∃ l, (iter (reach .poll ins) ready nret).out = (pollerPoll (reach .poll ins) ready nret).1.out ++ l ∧
      ∀ c k rev ev, Ev.cb c k rev ev ∈ l →
        c ∈ (pollerPoll (reach .poll ins) ready nret).2 ∧ rev = lookupRev ready c := by
  obtain ⟨hd, hs⟩ := (pollGood_run ins).2
  obtain ⟨l, h1, h2⟩ := iter_reported (reach .poll ins) hd ready nret
  refine ⟨l, h1, fun c k rev ev hm => ?_⟩
  obtain ⟨hc, hr⟩ := h2 c k rev ev hm
  exact ⟨hc, hr.trans (poll_reported (pollGood_run ins).1 hs ready nret c hc)⟩

/-- the same under epoll, for a well-behaved kernel that reports a descriptor at most once -/
theorem dispatch_reported_epoll (ins : List In) (henv : Along epEnvOk (init .epoll) ins) (ready nret)
    (he : epEnvOk (reach .epoll ins) (.iter ready nret)) (hnd : (ready.map (·.1)).Nodup) :
    ∃ l, (iter (reach .epoll ins) ready nret).out = (pollerPoll (reach .epoll ins) ready nret).1.out ++ l ∧
      ∀ c k rev ev, Ev.cb c k rev ev ∈ l → c ∈ ready.map (·.1) ∧ rev = lookupRev ready c := by
  obtain ⟨hg, hd⟩ := epAlive_run ins henv
  obtain ⟨l, h1, h2⟩ := iter_reported (reach .epoll ins) hd ready nret
  refine ⟨l, h1, fun c k rev ev hm => ?_⟩
  obtain ⟨hc, hr⟩ := h2 c k rev ev hm
  obtain ⟨e1, e2⟩ := epoll_reported hg.1 hg.2 ready nret he hnd c hc
  exact ⟨e2, hr.trans e1⟩

/-- **removed_never_called**: a callback runs only on a channel that is registered according to the
operations executed before the call -/
theorem called_is_registered (be : Backend) (ins : List In) {pre post : List Ev} {c : Nat} {k : Kind}
    {rev ev : Nat} (ho : (reach be ins).out = pre ++ .cb c k rev ev :: post) : histAdded c pre = true :=
  ((traceInv_run be ins).cb_split ho).2.2.2

/-- … in particular: between the execution of `remove(c)` and a later callback of `c` there is an
`enable*/disable*` on `c` that registered it again -/
theorem removed_never_called (be : Backend) (ins : List In) {pre mid post : List Ev} {c : Nat} {e0 : Nat}
    {i0 : Int} {k : Kind} {rev ev : Nat}
    (ho : (reach be ins).out = pre ++ .op c .remove e0 i0 :: (mid ++ .cb c k rev ev :: post)) :
    ∃ k' e' i', Ev.op c k' e' i' ∈ mid ∧ k'.isUpdate = true :=
  (traceInv_run be ins).removed_never_called ho

/-- a channel with interest is registered; a callback needs interest (hang-up and error: any interest) -/
theorem interest_registered (be : Backend) (ins : List In) (c : Nat) :
    ((reach be ins).chans c).events ≠ 0 → ((reach be ins).chans c).added = true :=
  (traceInv_run be ins).reg c

/-! ## both back-ends -/

/-- **same_callbacks**: the same history — operations between polls, operations scripted inside
callbacks, iterations with the same kernel report — run on a poll loop and on an epoll loop produces
the same observable trace (`absOut`: executed and rejected operations with the resulting interest word,
and callbacks `(channel, kind, revents, interest)`, *in order*), provided the kernel behaves, reports
each descriptor once, and in every iteration both
pollers hand the loop the same active list (`simEnvOk`: `epoll_wait` lists the descriptors in the order
`PollPoller` scans them).  The final states agree on every channel's interest, `revents_` and registration -/
theorem same_callbacks (ins : List In) (henv : Along2 simEnvOk (init .poll) (init .epoll) ins) :
    absOut (reach .poll ins).out = absOut (reach .epoll ins).out ∧ AbsEq (reach .poll ins) (reach .epoll ins) :=
  let h := sim_run ins _ _ sim_init henv
  ⟨h.out, h.abs⟩

/-- **same_watch**: … and then both back-ends ask the kernel to watch the same descriptor → mask map -/
theorem same_watch (ins : List In) (henv : Along2 simEnvOk (init .poll) (init .epoll) ins)
    (fd : Int) (mask : Nat) :
    watched (reach .poll ins) fd mask ↔ watched (reach .epoll ins) fd mask := by
  have h := (same_callbacks ins henv).2
  rw [refine_poll ins, refine_epoll ins]
  unfold specWatched
  constructor
  · rintro ⟨c, h1, h2, h3, h4⟩
    exact ⟨c, h1, (h.added c) ▸ h2, (h.ev c) ▸ h3, h4⟩
  · rintro ⟨c, h1, h2, h3, h4⟩
    exact ⟨c, h1, (h.added c).symm ▸ h2, (h.ev c).symm ▸ h3, h4⟩

/-- **same_callbacks, any report order**: when operations happen only between polls (no `In.hook`), the
order in which the kernel lists the ready descriptors does not matter: if in every iteration both pollers
return the same channels (`permEnvOk`: a permutation), both loops execute the same operations with the
same results, run the same multiset of callbacks `(channel, kind, revents, interest)`, and agree on every
channel's interest, `revents_` and registration afterwards -/
theorem same_callbacks_unordered (ins : List In) (henv : Along2 permEnvOk (init .poll) (init .epoll) ins) :
    opsOut (reach .poll ins).out = opsOut (reach .epoll ins).out ∧
    (cbOut (reach .poll ins).out).Perm (cbOut (reach .epoll ins).out) ∧
    ∀ c, ((reach .poll ins).chans c).events = ((reach .epoll ins).chans c).events ∧
      ((reach .poll ins).chans c).revents = ((reach .epoll ins).chans c).revents ∧
      ((reach .poll ins).chans c).added = ((reach .epoll ins).chans c).added :=
  let h := wsim_run ins _ _ wsim_init henv
  ⟨h.ops, h.cbs, fun c => ⟨h.ev c, h.rev c, h.added c⟩⟩

/-- … and ask the kernel to watch the same map -/
theorem same_watch_unordered (ins : List In) (henv : Along2 permEnvOk (init .poll) (init .epoll) ins)
    (fd : Int) (mask : Nat) :
    watched (reach .poll ins) fd mask ↔ watched (reach .epoll ins) fd mask := by
  have h := wsim_run ins _ _ wsim_init henv
  rw [refine_poll ins, refine_epoll ins]
  unfold specWatched
  constructor
  · rintro ⟨c, h1, h2, h3, h4⟩
    exact ⟨c, h1, (h.added c) ▸ h2, (h.ev c) ▸ h3, h4⟩
  · rintro ⟨c, h1, h2, h3, h4⟩
    exact ⟨c, h1, (h.added c).symm ▸ h2, (h.ev c).symm ▸ h3, h4⟩

/-- why `same_callbacks` fixes the order when callbacks operate on *other* channels: channel 2's read
callback disables channel 3.  The kernel lists 3 before 2; `PollPoller` scans 2 before 3.  Both pollers
return the same channels, yet epoll calls 3 and poll does not — inherent in `EventLoop::loop`'s
sequential dispatch, not a defect of either back-end -/
theorem order_matters :
    let ins : List In :=
      [.op 2 .enableR, .op 3 .enableR, .hook ⟨2, .read, 3, .disableAll⟩, .iter [(3, 1), (2, 1)] 2]
    (pollerPoll (reach .poll (ins.take 3)) [(3, 1), (2, 1)] 2).2.Perm
        (pollerPoll (reach .epoll (ins.take 3)) [(3, 1), (2, 1)] 2).2 ∧
      ¬ (cbOut (reach .poll ins).out).Perm (cbOut (reach .epoll ins).out) := by decide

/-! ## idle -/

/-- `poll` is never given a zero time-out -/
theorem poll_timeout_pos : 0 < kPollTimeMs := by decide

/-- **idle_blocks** (as far as the model expresses it): every `poll`/`epoll_wait` of every history is
called with the constant time-out `kPollTimeMs > 0`; an iteration in which the kernel reports nothing
runs no callback and changes nothing but the iteration counter -/
theorem idle_blocks (be : Backend) (ins : List In) :
    (∀ sz t, Ev.wait sz t ∈ (reach be ins).out → t = kPollTimeMs ∧ 0 < t) ∧
    ((reach be ins).dead = false → ∃ sz, iter (reach be ins) [] 0 = { reach be ins with
      out := (reach be ins).out ++ [.wait sz kPollTimeMs]
      iteration := (reach be ins).iteration + 1
      active := []
      handling := false
      cur := none }) :=
  ⟨fun sz t h => ⟨waitInv_run be ins sz t h, (waitInv_run be ins sz t h) ▸ poll_timeout_pos⟩,
    fun hd => iter_idle _ hd⟩

/-- … and the kernel is given no reason to report a channel nobody is interested in: after every
history every watched descriptor has a non-empty mask, the interest of a registered channel -/
theorem idle_blocks_watch (be : Backend) (ins : List In) (fd : Int) (mask : Nat)
    (hw : watched (reach be ins) fd mask) :
    mask ≠ 0 ∧ ∃ c, fd = fdOf c ∧ ((reach be ins).chans c).added = true ∧ ((reach be ins).chans c).events = mask := by
  obtain ⟨c, h1, h2, h3, h4⟩ := (refine_full_holds be ins fd mask).1 hw
  exact ⟨h4, c, h1, h2, h3⟩

/-! ## T1, statement order -/

/-- T1, statement order: in every function of `EPollPoller.cc` (`poll`, `fillActiveChannels`, `updateChannel`,
`removeChannel`, `update`), `PollPoller.cc` (`poll`, `fillActiveChannels`, `updateChannel`, `removeChannel`), `Channel.cc`
(`update`, `remove`, `handleEvent`, `handleEventWithGuard`) and `EventLoop.cc` (one iteration of `loop`, `updateChannel`,
`removeChannel`, `hasChannel`) the source performs the same significant actions - system calls, assertions, `set_index` /
`set_revents` / `handleEvent` through a `Channel*`, the operations of `channels_` and of the arrays, the four callbacks,
calls through `poller_` / `loop_` and inside the class, `LOG_SYSERR` / `LOG_SYSFATAL`, stores, `return` - in the same order
and under the same nesting of the generated guards and loops as `Model/Poller.lean` (`Model/PollerSkelDecl.lean`);
re-extracted from /repo on every run (`Generated/PollerSkel.lean`), proved in `Proofs/PollerSkelTie.lean` -/
theorem statement_order_tied :
    Gen.PollerSkel.epollPoll = PollerSkel.Decl.epollPoll ∧
    Gen.PollerSkel.epollFillActiveChannels = PollerSkel.Decl.epollFillActiveChannels ∧
    Gen.PollerSkel.epollUpdateChannel = PollerSkel.Decl.epollUpdateChannel ∧
    Gen.PollerSkel.epollRemoveChannel = PollerSkel.Decl.epollRemoveChannel ∧
    Gen.PollerSkel.epollUpdate = PollerSkel.Decl.epollUpdate ∧
    Gen.PollerSkel.pollPoll = PollerSkel.Decl.pollPoll ∧
    Gen.PollerSkel.pollFillActiveChannels = PollerSkel.Decl.pollFillActiveChannels ∧
    Gen.PollerSkel.pollUpdateChannel = PollerSkel.Decl.pollUpdateChannel ∧
    Gen.PollerSkel.pollRemoveChannel = PollerSkel.Decl.pollRemoveChannel ∧
    Gen.PollerSkel.channelUpdate = PollerSkel.Decl.channelUpdate ∧
    Gen.PollerSkel.channelRemove = PollerSkel.Decl.channelRemove ∧
    Gen.PollerSkel.channelHandleEvent = PollerSkel.Decl.channelHandleEvent ∧
    Gen.PollerSkel.channelHandleEventWithGuard = PollerSkel.Decl.channelHandleEventWithGuard ∧
    Gen.PollerSkel.loopIteration = PollerSkel.Decl.loopIteration ∧
    Gen.PollerSkel.loopUpdateChannel = PollerSkel.Decl.loopUpdateChannel ∧
    Gen.PollerSkel.loopRemoveChannel = PollerSkel.Decl.loopRemoveChannel ∧
    Gen.PollerSkel.loopHasChannel = PollerSkel.Decl.loopHasChannel :=
  PollerSkel.skeletons_agree

/-! ## the hypotheses are satisfiable, the conclusions not vacuous -/

example : Along2 simEnvOk (init .poll) (init .epoll) sampleHistory ∧
    Along epEnvOk (init .epoll) sampleHistory := by decide

/-- what both back-ends did on `sampleHistory` (two user channels, an operation inside a callback that
disables the *next* channel of the same batch — the F6 situation —, a removal and a re-registration):
channel 2 read; its callback disabled channel 3, which was *not* called although the kernel had reported
it; after re-registration channel 2 read (hang-up with `POLLIN`: no close callback) and channel 3 wrote -/
example : absOut (reach .poll sampleHistory).out =
    [.op 2 .enableR 3 0, .op 3 .enableR 3 0, .op 3 .enableW 7 0, .cb 2 .read 1 3, .op 3 .disableAll 0 0,
     .op 3 .remove 0 0, .cb 2 .read 1 3, .op 3 .enableW 4 0, .cb 2 .read 17 3, .cb 3 .write 4 4] := by decide

/-- operations between polls only; the kernel reports in an order different from `pollfds_` -/
example : Along2 permEnvOk (init .poll) (init .epoll) sampleUnordered ∧
    cbOut (reach .poll sampleUnordered).out =
      [.cb 2 .read 1 3, .cb 3 .write 4 4, .cb 4 .read 1 3, .cb 2 .read 1 3, .cb 4 .close 16 3] ∧
    cbOut (reach .epoll sampleUnordered).out =
      [.cb 4 .read 1 3, .cb 2 .read 1 3, .cb 3 .write 4 4, .cb 4 .close 16 3, .cb 2 .read 1 3] := by decide

/-- the former F21 witnesses (corpus/C09/F21-…): a first update without interest is not handed to the
kernel, `remove()` after it works under both back-ends, a later `enableReading()` registers normally -/
example :
    (∀ be ∈ [Backend.epoll, .poll], ¬ watched (reach be [.op 2 .disableAll]) 2 0) ∧
    (∀ be ∈ [Backend.epoll, .poll], (reach be [.op 2 .disableAll, .op 2 .remove]).dead = false ∧
      absOut (reach be [.op 2 .disableAll, .op 2 .remove]).out = [.op 2 .disableAll 0 0, .op 2 .remove 0 0]) ∧
    (∀ be ∈ [Backend.epoll, .poll], watched (reach be [.op 2 .disableAll, .op 2 .enableR]) 2 3) ∧
    Along2 simEnvOk (init .poll) (init .epoll) [.op 2 .disableAll, .iter [] 0, .op 2 .remove, .op 2 .enableR,
      .iter [(2, 1)] 1] := by decide

end MuduoVerif.C09
