import MuduoVerif.Proofs.PollerPerm
import MuduoVerif.Proofs.PollerSkelTie
import MuduoVerif.Proofs.PollerBound
import MuduoVerif.Proofs.SysSkelTie
import MuduoVerif.Proofs.LoopSkelTie
/-!
# C09 — the loop calls exactly the ready, subscribed channels; same under epoll and poll

Property theorems only (lemmas: `Proofs/PollerReach.lean` — decomposition of every transition into
operations, frame moves and guarded callback emissions; `PollerOps.lean` — the effect of an operation
whatever the back-end; `PollerPoll.lean`, `PollerEpoll.lean` — the two back-end invariants;
`PollerTrace.lean` — trace invariants; `PollerSim.lean` — the two back-ends in lock step;
`PollerDispatch.lean` — one iteration; `PollerPerm.lean` — histories with operations between polls only).

Quantification: `ins : List In` is an arbitrary history of `enableReading/disableReading/enableWriting/
disableWriting/disableAll/remove/recreate` on any channel (any `Nat` id), operations scripted to run
inside any callback of any channel (`In.hook`), and loop iterations with arbitrary readiness input.
The documented preconditions (`remove()` only when registered, without interest and — during dispatch —
only of the current or an inactive channel; a `Channel` object is destroyed only when unregistered and
outside the dispatch; one channel per descriptor) are the model's guards `removeOk`/`recreateOk`: a
request outside them is rejected (`Ev.reject`) and changes nothing, so the histories are unconstrained.

Finding F21 (the first update of an unregistered channel that carries no interest registered the
descriptor with an empty mask: `blind-watch`, `blind-spin`, `blind-abort`) is repaired in /repo
(`PollPoller::updateChannel` pushes such an entry in its ignored form `-fd-1`; `EPollPoller::updateChannel`
records the channel in `channels_` with slot state *deleted* and makes no `EPOLL_CTL_ADD`; both sites are
extracted: `pollNewIgnores`, `pollNewIgnoreFd`, `epNewSkips`, `epIndexAfterNewSkip`).  The theorems below are
therefore stated at full strength for every history; the former witnesses are `example`s that now pass.
-/
namespace MuduoVerif.C09
open MuduoVerif.Poller MuduoVerif.Gen.Poller

abbrev reach (be : Backend) (ins : List In) : State := run (init be) ins

/-! ## refinement: what the kernel is asked to watch -/

/-- the full-strength statement: under either back-end, after every history, the kernel watches
exactly `{fd ↦ events | channel registered ∧ events ≠ 0}` -/
def refine_full : Prop :=
  ∀ (be : Backend) (ins : List In) (fd : Int) (mask : Nat),
    watched (reach be ins) fd mask ↔ specWatched (reach be ins) fd mask

/-- **refine_poll**: after every history the non-negative entries of `pollfds_` are exactly the
specification map -/
theorem refine_poll (ins : List In) (fd : Int) (mask : Nat) :
    watched (reach .poll ins) fd mask ↔ specWatched (reach .poll ins) fd mask :=
  pollStruct_refines (pollGood_run ins).1 (pollGood_run ins).2.2 fd mask

/-- **refine_epoll**: after every history the kernel's epoll interest list, as maintained by the
`EPOLL_CTL_ADD/MOD/DEL` calls, is exactly the specification map -/
theorem refine_epoll (ins : List In) (fd : Int) (mask : Nat) :
    watched (reach .epoll ins) fd mask ↔ specWatched (reach .epoll ins) fd mask :=
  epStruct_refines (epGood_run ins).1 (epGood_run ins).2 fd mask

/-- the full-strength statement holds -/
theorem refine_full_holds : refine_full := by
  intro be ins fd mask
  cases be
  · exact refine_epoll ins fd mask
  · exact refine_poll ins fd mask

/-! ## no failure -/

/-- **no_ctl_failure**: after every history, under either back-end, whatever the
kernel reports: no `epoll_ctl` failed (`EEXIST`/`ENOENT`), nothing was logged by `LOG_SYSERR`/`LOG_SYSFATAL` -/
theorem no_ctl_failure (be : Backend) (ins : List In) :
    ∀ e ∈ (reach be ins).out, e ≠ .syserr ∧ e ≠ .fatal ∧
      ∀ op c mask res, e = .ctl op c mask res → res = .ok := by
  intro e he
  have h := (noCtlFail_run be ins).2 e he
  refine ⟨?_, ?_, ?_⟩
  · rintro rfl; simp [Ev.isCtlFailure] at h
  · rintro rfl; simp [Ev.isCtlFailure] at h
  · rintro op c mask res rfl
    cases res <;> simp_all [Ev.isCtlFailure]

/-- on a poll loop no assertion fails and the process stays alive, for every history and whatever the
kernel reports (`PollPoller` looks only at its own array) -/
theorem no_abort_poll (ins : List In) :
    (reach .poll ins).dead = false ∧ ∀ e ∈ (reach .poll ins).out, e.isFatal = false :=
  ⟨(pollGood_run ins).2.1, aliveClean_run .poll ins (pollGood_run ins).2.1⟩

/-- on an epoll loop no assertion fails and the process stays alive for every history
provided the kernel behaves (`epEnvOk`: `epoll_wait` returns what it says, no more than the array holds,
only descriptors of the interest list) -/
theorem no_abort_epoll (ins : List In) (henv : Along epEnvOk (init .epoll) ins) :
    (reach .epoll ins).dead = false ∧ ∀ e ∈ (reach .epoll ins).out, e.isFatal = false :=
  ⟨(epAlive_run ins henv).2, aliveClean_run .epoll ins (epAlive_run ins henv).2⟩

/-! ## bookkeeping invariants -/

/-- **index_inv** (poll): every registered channel's `index_` names its own `pollfds_` entry —
`(fd, events)`, the descriptor negated (`-fd-1`) exactly when there is no interest —, `channels_` maps
its descriptor to it; indices of registered channels are distinct; every entry is owned; an
unregistered channel has no slot.  Holds after every history, i.e. for every removal order
(swap-with-last) and every re-registration -/
theorem index_inv (ins : List In) :
    let s := reach .poll ins
    (∀ c, (s.chans c).added = true →
      0 ≤ (s.chans c).index ∧ s.cmap (fdOf c) = some c ∧
        s.pollfds[(s.chans c).index.toNat]? =
          some (if (s.chans c).events = 0 then pollIgnoreFd (fdOf c) else fdOf c, (s.chans c).events)) ∧
    (∀ c d, (s.chans c).added = true → (s.chans d).added = true → (s.chans c).index = (s.chans d).index → c = d) ∧
    (∀ i, i < s.pollfds.length → ∃ c, (s.chans c).added = true ∧ (s.chans c).index = (i : Int)) ∧
    (∀ c, (s.chans c).added = false → (s.chans c).index < 0 ∧ s.cmap (fdOf c) = none) := by
  have h := (pollGood_run ins).2.2
  exact ⟨h.reg, fun c d hc hd hi => h.idx_inj hc hd hi, h.cover, fun c hc => ⟨(h.unreg c hc).1, (h.unreg c hc).2.2⟩⟩

/-- the slot-state machine of `EPollPoller` (every history): a registered channel is in `channels_` and
either *added*, with interest, its interest word in the kernel — or *deleted*, without interest and unknown
to the kernel; an unregistered channel is *new*, not in `channels_`, unknown to the kernel -/
theorem slot_inv_epoll (ins : List In) :
    let s := reach .epoll ins
    ∀ c, if (s.chans c).added = true then
        s.cmap (fdOf c) = some c ∧
          (((s.chans c).index = kAdded ∧ s.kernel (fdOf c) = some (s.chans c).events ∧ (s.chans c).events ≠ 0) ∨
           ((s.chans c).index = kDeleted ∧ (s.chans c).events = 0 ∧ s.kernel (fdOf c) = none))
      else (s.chans c).index = kNew ∧ (s.chans c).events = 0 ∧ s.cmap (fdOf c) = none ∧
        s.kernel (fdOf c) = none :=
  fun c => (epGood_run ins).2.loc c

/-! ## dispatch -/

/-- **dispatch_sound**: under either back-end, after every history: a read/write/close/error callback
ran only with the matching `revents` bits (`disp`: the masks of `Channel::handleEventWithGuard`) and
only if the channel subscribed to that kind (`subscribed`: the generated `guard*` re-tests) with the
interest word it had *at the moment of the call* — `histEvents c pre` replays the operations recorded
in the trace before the call, including those executed by earlier callbacks of the same batch -/
theorem dispatch_sound (be : Backend) (ins : List In) {pre post : List Ev} {c : Nat} {k : Kind} {rev ev : Nat}
    (ho : (reach be ins).out = pre ++ .cb c k rev ev :: post) :
    disp k rev ∧ subscribed k ev ∧ ev = histEvents c pre :=
  let h := (traceInv_run be ins).cb_split ho
  ⟨h.1, h.2.1, h.2.2.1⟩

/-- the callback's `revents` are the kernel's answer of *this* iteration: in every iteration from a
reachable state the loop calls only channels of the active list the poller returned, each with
`revents = lookupRev ready c`, the value reported for it (poll loop) -/
theorem dispatch_reported_poll (ins : List In) (ready nret) :
    ∃ l, (iter (reach .poll ins) ready nret).out = (pollerPoll (reach .poll ins) ready nret).1.out ++ l ∧
      ∀ c k rev ev, Ev.cb c k rev ev ∈ l →
        c ∈ (pollerPoll (reach .poll ins) ready nret).2 ∧ rev = lookupRev ready c := by
  obtain ⟨hd, hs⟩ := (pollGood_run ins).2
  obtain ⟨l, h1, h2⟩ := iter_reported (reach .poll ins) hd ready nret
  refine ⟨l, h1, fun c k rev ev hm => ?_⟩
  obtain ⟨hc, hr⟩ := h2 c k rev ev hm
  exact ⟨hc, hr.trans (poll_reported (pollGood_run ins).1 hs ready nret c hc)⟩

/-- the same under epoll, for a well-behaved kernel that reports a descriptor at most once -/
theorem dispatch_reported_epoll (ins : List In) (henv : Along epEnvOk (init .epoll) ins) (ready nret)
    (he : epEnvOk (reach .epoll ins) (.iter ready nret)) (hnd : (ready.map (·.1)).Nodup) :
    ∃ l, (iter (reach .epoll ins) ready nret).out = (pollerPoll (reach .epoll ins) ready nret).1.out ++ l ∧
      ∀ c k rev ev, Ev.cb c k rev ev ∈ l → c ∈ ready.map (·.1) ∧ rev = lookupRev ready c := by
  obtain ⟨hg, hd⟩ := epAlive_run ins henv
  obtain ⟨l, h1, h2⟩ := iter_reported (reach .epoll ins) hd ready nret
  refine ⟨l, h1, fun c k rev ev hm => ?_⟩
  obtain ⟨hc, hr⟩ := h2 c k rev ev hm
  obtain ⟨e1, e2⟩ := epoll_reported hg.1 hg.2 ready nret he hnd c hc
  exact ⟨e2, hr.trans e1⟩

/-- **removed_never_called**: a callback runs only on a channel that is registered according to the
operations executed before the call -/
theorem called_is_registered (be : Backend) (ins : List In) {pre post : List Ev} {c : Nat} {k : Kind}
    {rev ev : Nat} (ho : (reach be ins).out = pre ++ .cb c k rev ev :: post) : histAdded c pre = true :=
  ((traceInv_run be ins).cb_split ho).2.2.2

/-- … in particular: between the execution of `remove(c)` and a later callback of `c` there is an
`enable*/disable*` on `c` that registered it again -/
theorem removed_never_called (be : Backend) (ins : List In) {pre mid post : List Ev} {c : Nat} {e0 : Nat}
    {i0 : Int} {k : Kind} {rev ev : Nat}
    (ho : (reach be ins).out = pre ++ .op c .remove e0 i0 :: (mid ++ .cb c k rev ev :: post)) :
    ∃ k' e' i', Ev.op c k' e' i' ∈ mid ∧ k'.isUpdate = true :=
  (traceInv_run be ins).removed_never_called ho

/-- a channel with interest is registered; a callback needs interest (hang-up and error: any interest) -/
theorem interest_registered (be : Backend) (ins : List In) (c : Nat) :
    ((reach be ins).chans c).events ≠ 0 → ((reach be ins).chans c).added = true :=
  (traceInv_run be ins).reg c

/-! ## both back-ends -/

/-- **same_callbacks**: the same history — operations between polls, operations scripted inside
callbacks, iterations with the same kernel report — run on a poll loop and on an epoll loop produces
the same observable trace (`absOut`: executed and rejected operations with the resulting interest word,
and callbacks `(channel, kind, revents, interest)`, *in order*), provided the kernel behaves, reports
each descriptor once, and in every iteration both
pollers hand the loop the same active list (`simEnvOk`: `epoll_wait` lists the descriptors in the order
`PollPoller` scans them).  The final states agree on every channel's interest, `revents_` and registration -/
theorem same_callbacks (ins : List In) (henv : Along2 simEnvOk (init .poll) (init .epoll) ins) :
    absOut (reach .poll ins).out = absOut (reach .epoll ins).out ∧ AbsEq (reach .poll ins) (reach .epoll ins) :=
  let h := sim_run ins _ _ sim_init henv
  ⟨h.out, h.abs⟩

/-- **same_watch**: … and then both back-ends ask the kernel to watch the same descriptor → mask map -/
theorem same_watch (ins : List In) (henv : Along2 simEnvOk (init .poll) (init .epoll) ins)
    (fd : Int) (mask : Nat) :
    watched (reach .poll ins) fd mask ↔ watched (reach .epoll ins) fd mask := by
  have h := (same_callbacks ins henv).2
  rw [refine_poll ins, refine_epoll ins]
  unfold specWatched
  constructor
  · rintro ⟨c, h1, h2, h3, h4⟩
    exact ⟨c, h1, (h.added c) ▸ h2, (h.ev c) ▸ h3, h4⟩
  · rintro ⟨c, h1, h2, h3, h4⟩
    exact ⟨c, h1, (h.added c).symm ▸ h2, (h.ev c).symm ▸ h3, h4⟩

/-- **same_callbacks, any report order**: when operations happen only between polls (no `In.hook`), the
order in which the kernel lists the ready descriptors does not matter: if in every iteration both pollers
return the same channels (`permEnvOk`: a permutation), both loops execute the same operations with the
same results, run the same multiset of callbacks `(channel, kind, revents, interest)`, and agree on every
channel's interest, `revents_` and registration afterwards -/
theorem same_callbacks_unordered (ins : List In) (henv : Along2 permEnvOk (init .poll) (init .epoll) ins) :
    opsOut (reach .poll ins).out = opsOut (reach .epoll ins).out ∧
    (cbOut (reach .poll ins).out).Perm (cbOut (reach .epoll ins).out) ∧
    ∀ c, ((reach .poll ins).chans c).events = ((reach .epoll ins).chans c).events ∧
      ((reach .poll ins).chans c).revents = ((reach .epoll ins).chans c).revents ∧
      ((reach .poll ins).chans c).added = ((reach .epoll ins).chans c).added :=
  let h := wsim_run ins _ _ wsim_init henv
  ⟨h.ops, h.cbs, fun c => ⟨h.ev c, h.rev c, h.added c⟩⟩

/-- … and ask the kernel to watch the same map -/
theorem same_watch_unordered (ins : List In) (henv : Along2 permEnvOk (init .poll) (init .epoll) ins)
    (fd : Int) (mask : Nat) :
    watched (reach .poll ins) fd mask ↔ watched (reach .epoll ins) fd mask := by
  have h := wsim_run ins _ _ wsim_init henv
  rw [refine_poll ins, refine_epoll ins]
  unfold specWatched
  constructor
  · rintro ⟨c, h1, h2, h3, h4⟩
    exact ⟨c, h1, (h.added c) ▸ h2, (h.ev c) ▸ h3, h4⟩
  · rintro ⟨c, h1, h2, h3, h4⟩
    exact ⟨c, h1, (h.added c).symm ▸ h2, (h.ev c).symm ▸ h3, h4⟩

/-- why `same_callbacks` fixes the order when callbacks operate on *other* channels: channel 2's read
callback disables channel 3.  The kernel lists 3 before 2; `PollPoller` scans 2 before 3.  Both pollers
return the same channels, yet epoll calls 3 and poll does not — inherent in `EventLoop::loop`'s
sequential dispatch, not a defect of either back-end -/
theorem order_matters :
    let ins : List In :=
      [.op 2 .enableR, .op 3 .enableR, .hook ⟨2, .read, 3, .disableAll⟩, .iter [(3, 1), (2, 1)] 2]
    (pollerPoll (reach .poll (ins.take 3)) [(3, 1), (2, 1)] 2).2.Perm
        (pollerPoll (reach .epoll (ins.take 3)) [(3, 1), (2, 1)] 2).2 ∧
      ¬ (cbOut (reach .poll ins).out).Perm (cbOut (reach .epoll ins).out) := by decide

/-! ## idle -/

/-- `poll` is never given a zero time-out -/
theorem poll_timeout_pos : 0 < kPollTimeMs := by decide

/-- **idle_blocks** (as far as the model expresses it): every `poll`/`epoll_wait` of every history is
called with the constant time-out `kPollTimeMs > 0`; an iteration in which the kernel reports nothing
runs no callback and changes nothing but the iteration counter -/
theorem idle_blocks (be : Backend) (ins : List In) :
    (∀ sz t, Ev.wait sz t ∈ (reach be ins).out → t = kPollTimeMs ∧ 0 < t) ∧
    ((reach be ins).dead = false → ∃ sz, iter (reach be ins) [] 0 = { reach be ins with
      out := (reach be ins).out ++ [.wait sz kPollTimeMs]
      iteration := (reach be ins).iteration + 1
      active := []
      handling := false
      cur := none }) :=
  ⟨fun sz t h => ⟨waitInv_run be ins sz t h, (waitInv_run be ins sz t h) ▸ poll_timeout_pos⟩,
    fun hd => iter_idle _ hd⟩

/-- … and the kernel is given no reason to report a channel nobody is interested in: after every
history every watched descriptor has a non-empty mask, the interest of a registered channel -/
theorem idle_blocks_watch (be : Backend) (ins : List In) (fd : Int) (mask : Nat)
    (hw : watched (reach be ins) fd mask) :
    mask ≠ 0 ∧ ∃ c, fd = fdOf c ∧ ((reach be ins).chans c).added = true ∧ ((reach be ins).chans c).events = mask := by
  obtain ⟨c, h1, h2, h3, h4⟩ := (refine_full_holds be ins fd mask).1 hw
  exact ⟨h4, c, h1, h2, h3⟩

/-! ## every ready, subscribed channel is called within a bounded number of iterations -/

/-- **all_ready_called_poll**: under `poll(2)` the whole array `pollfds_` is scanned, so after every history, however
many descriptors are ready at once, *every* channel `c` that subscribes to `k` and whose descriptor is reported with
bits that call for `k` (`disp k (lookupRev ready c)`) gets its `k` callback in this very iteration, with those bits
and its interest.  Environment: `poll(2)` returns (at least) the number of entries it marked (`pollCount`).  The one
thing that may legitimately withdraw the callback is an operation on `c` scripted inside an earlier callback of the
same iteration (`dispatch_sound`); operations on other channels - incl. removals that move `c`'s slot - do not. -/
theorem all_ready_called_poll (ins : List In) (ready : List (Nat × Nat)) (nret : Nat)
    (henv : pollCount ready (reach .poll ins).pollfds ≤ nret)
    (c : Nat) (k : Kind) (hh : ∀ h ∈ (reach .poll ins).hooks, h.c ≠ c)
    (hsub : subscribed k ((reach .poll ins).chans c).events) (hrdy : disp k (lookupRev ready c)) :
    ∃ l, (iter (reach .poll ins) ready nret).out = (reach .poll ins).out ++ l ∧
      Ev.cb c k (lookupRev ready c) ((reach .poll ins).chans c).events ∈ l := by
  have hg := pollGood_run ins
  refine poll_calls hg ready nret henv hh ?_ hsub hrdy
  cases ha : ((reach .poll ins).chans c).added with
  | true => rfl
  | false => exact absurd (hg.2.2.unreg c ha).2.1 (subscribed_ne_zero hsub)

/-- **all_reported_called_epoll**: under epoll every channel the kernel *reports* is called in that iteration (same
proviso about operations on `c` itself); how many of the ready descriptors one wait reports is bounded by the size of
`events_` - see `evsize_growth` and `all_ready_called_epoll_bound` -/
theorem all_reported_called_epoll (ins : List In) (henv : Along epEnvOk (init .epoll) ins)
    (ready : List (Nat × Nat)) (nret : Nat) (hnow : epEnvOk (reach .epoll ins) (.iter ready nret))
    (hnd : (ready.map (·.1)).Nodup) (c rev : Nat) (k : Kind) (hmem : (c, rev) ∈ ready)
    (hh : ∀ h ∈ (reach .epoll ins).hooks, h.c ≠ c)
    (hsub : subscribed k ((reach .epoll ins).chans c).events) (hrdy : disp k rev) :
    ∃ l, (iter (reach .epoll ins) ready nret).out = (reach .epoll ins).out ++ l ∧
      Ev.cb c k rev ((reach .epoll ins).chans c).events ∈ l :=
  epoll_calls (epAlive_run ins henv) ready nret hnow hnd hmem hh hsub hrdy

/-- **evsize_growth**: along any run under either back-end the size of `EPollPoller::events_` starts at
`kInitEventListSize`, never shrinks, is changed by nothing but `EPollPoller::poll`, and one iteration resizes it exactly
when the report filled it (`Gen.Poller.epArrayFull`, under `Gen.Poller.epHasEvents`; `ready`/`nret` well-formed) - to
`Gen.Poller.epGrowTo`, which doubles it.  So on an epoll loop an iteration whose wait returns `evsize` events doubles
the array and one that returns fewer leaves it alone. -/
theorem evsize_growth (be : Backend) (ins : List In) :
    kInitEventListSize ≤ (reach be ins).evsize ∧
    (∀ more, (reach be ins).evsize ≤ (reach be (ins ++ more)).evsize) ∧
    (∀ ready nret, (reach be ins).dead = false →
      (iter (reach be ins) ready nret).evsize =
        if (reach be ins).be = .epoll ∧ epHasEvents (nret : Int) ∧
            ¬ (ready.length > (reach be ins).evsize ∨ nret ≠ ready.length) ∧ epArrayFull nret (reach be ins).evsize
        then epGrowTo (reach be ins).evsize else (reach be ins).evsize) ∧
    (∀ ready nret, (reach .epoll ins).dead = false → epEnvOk (reach .epoll ins) (.iter ready nret) →
      (nret = (reach .epoll ins).evsize → (iter (reach .epoll ins) ready nret).evsize = 2 * (reach .epoll ins).evsize) ∧
      (nret < (reach .epoll ins).evsize → (iter (reach .epoll ins) ready nret).evsize = (reach .epoll ins).evsize)) := by
  have hinit : ∀ be ins, kInitEventListSize ≤ (reach be ins).evsize := fun be ins => by
    have := run_evsize_le ins (init be); rw [init_evsize] at this; exact this
  refine ⟨hinit be ins, fun more => ?_, fun ready nret hd => ?_, fun ready nret hd henv => ?_⟩
  · have : reach be (ins ++ more) = run (reach be ins) more := by simp [reach, run, List.foldl_append]
    rw [this]; exact run_evsize_le more _
  · rw [iter_evsize, hd, pollerPoll_evsize]; simp
  · have hbe : (reach .epoll ins).be = .epoll := (epGood_run ins).1
    obtain ⟨h1, h2, _⟩ := henv hbe
    have hpos : 0 < (reach .epoll ins).evsize :=
      Nat.lt_of_lt_of_le (by decide : 0 < kInitEventListSize) (hinit .epoll ins)
    rw [iter_evsize, hd, pollerPoll_evsize]
    simp only [Bool.false_eq_true, if_false]
    constructor
    · intro hfull
      rw [if_pos ⟨hbe, by unfold epHasEvents; omega, by omega, by unfold epArrayFull; exact hfull⟩]
      unfold epGrowTo; omega
    · intro hlt
      rw [if_neg]
      intro h
      have := h.2.2.2
      unfold epArrayFull at this
      omega

/-- **all_ready_called_epoll_bound**: an epoll loop after any history on a well-behaved kernel, no operation pending
inside a callback; `rdy` are the descriptors (channel, revents) that are ready and stay ready over the next waits
(level-triggered: what a wait did not report is still ready at the next one), all of them in the kernel's interest
list.  The kernel may keep its ready list in any order from wait to wait (`order j`, a permutation of `rdy`; e.g.
reported entries go to the tail); each wait (`epWait`) reports the first `min R evsize` entries.  Then after `n`
consecutive waits the array holds `evsize₀ · 2ⁿ ≥ kInitEventListSize · 2ⁿ` entries unless it already exceeds `R`
(every wait that could not report everything filled the array and doubled it), and therefore, once
`kInitEventListSize · 2ⁿ ≥ R` - i.e. within `⌈log₂ (R / 16)⌉ + 1` iterations -, one iteration reports all `R` ready
descriptors and calls every one of them that subscribes to what it is ready for. -/
theorem all_ready_called_epoll_bound (ins : List In) (henv : Along epEnvOk (init .epoll) ins)
    (hh : (reach .epoll ins).hooks = [])
    (rdy : List (Nat × Nat)) (order : Nat → List (Nat × Nat)) (hord : ∀ j, (order j).Perm rdy)
    (hnd : (rdy.map (·.1)).Nodup) (hk : ∀ p ∈ rdy, ((reach .epoll ins).kernel (fdOf p.1)).isSome) (n : Nat) :
    kInitEventListSize ≤ (reach .epoll ins).evsize ∧
    ((reach .epoll ins).evsize * 2 ^ n ≤ (epWaits order n (reach .epoll ins)).evsize ∨
      rdy.length < (epWaits order n (reach .epoll ins)).evsize) ∧
    (rdy.length ≤ kInitEventListSize * 2 ^ n →
      ∀ c rev k, (c, rev) ∈ rdy → disp k rev → subscribed k ((reach .epoll ins).chans c).events →
        ∃ l, (epWait order n (epWaits order n (reach .epoll ins))).out =
            (epWaits order n (reach .epoll ins)).out ++ l ∧
          Ev.cb c k rev ((reach .epoll ins).chans c).events ∈ l) := by
  have hinit : kInitEventListSize ≤ (reach .epoll ins).evsize := (evsize_growth .epoll ins).1
  have hpos : 0 < (reach .epoll ins).evsize := Nat.lt_of_lt_of_le (by decide : 0 < kInitEventListSize) hinit
  have hg := epAlive_run ins henv
  refine ⟨hinit, (epWaits_inv hg hh hpos order hord hk n).grow, fun hn c rev k hmem hrdy hsub => ?_⟩
  exact epoll_bound_calls hg hh hpos order hord hnd hk n
    (Nat.le_trans hn (Nat.mul_le_mul_right _ hinit)) hmem hrdy hsub

/-! ## T1, statement order -/

/-- T1, statement order: in every function of `EPollPoller.cc` (`poll`, `fillActiveChannels`, `updateChannel`,
`removeChannel`, `update`), `PollPoller.cc` (`poll`, `fillActiveChannels`, `updateChannel`, `removeChannel`), `Channel.cc`
(`update`, `remove`, `handleEvent`, `handleEventWithGuard`) and `EventLoop.cc` (one iteration of `loop`, `updateChannel`,
`removeChannel`, `hasChannel`) the source performs the same significant actions - system calls, assertions, `set_index` /
`set_revents` / `handleEvent` through a `Channel*`, the operations of `channels_` and of the arrays, the four callbacks,
calls through `poller_` / `loop_` and inside the class, `LOG_SYSERR` / `LOG_SYSFATAL`, stores, `return` - in the same order
and under the same nesting of the generated guards and loops as `Model/Poller.lean` (`Model/PollerSkelDecl.lean`);
re-extracted from /repo on every run (`Generated/PollerSkel.lean`), proved in `Proofs/PollerSkelTie.lean` -/
theorem statement_order_tied :
    Gen.PollerSkel.epollPoll = PollerSkel.Decl.epollPoll ∧
    Gen.PollerSkel.epollFillActiveChannels = PollerSkel.Decl.epollFillActiveChannels ∧
    Gen.PollerSkel.epollUpdateChannel = PollerSkel.Decl.epollUpdateChannel ∧
    Gen.PollerSkel.epollRemoveChannel = PollerSkel.Decl.epollRemoveChannel ∧
    Gen.PollerSkel.epollUpdate = PollerSkel.Decl.epollUpdate ∧
    Gen.PollerSkel.pollPoll = PollerSkel.Decl.pollPoll ∧
    Gen.PollerSkel.pollFillActiveChannels = PollerSkel.Decl.pollFillActiveChannels ∧
    Gen.PollerSkel.pollUpdateChannel = PollerSkel.Decl.pollUpdateChannel ∧
    Gen.PollerSkel.pollRemoveChannel = PollerSkel.Decl.pollRemoveChannel ∧
    Gen.PollerSkel.channelUpdate = PollerSkel.Decl.channelUpdate ∧
    Gen.PollerSkel.channelRemove = PollerSkel.Decl.channelRemove ∧
    Gen.PollerSkel.channelHandleEvent = PollerSkel.Decl.channelHandleEvent ∧
    Gen.PollerSkel.channelHandleEventWithGuard = PollerSkel.Decl.channelHandleEventWithGuard ∧
    Gen.PollerSkel.loopIteration = PollerSkel.Decl.loopIteration ∧
    Gen.PollerSkel.loopUpdateChannel = PollerSkel.Decl.loopUpdateChannel ∧
    Gen.PollerSkel.loopRemoveChannel = PollerSkel.Decl.loopRemoveChannel ∧
    Gen.PollerSkel.loopHasChannel = PollerSkel.Decl.loopHasChannel :=
  PollerSkel.skeletons_agree

/-! ## the hypotheses are satisfiable, the conclusions not vacuous -/

example : Along2 simEnvOk (init .poll) (init .epoll) sampleHistory ∧
    Along epEnvOk (init .epoll) sampleHistory := by decide

/-- what both back-ends did on `sampleHistory` (two user channels, an operation inside a callback that
disables the *next* channel of the same batch — the F6 situation —, a removal and a re-registration):
channel 2 read; its callback disabled channel 3, which was *not* called although the kernel had reported
it; after re-registration channel 2 read (hang-up with `POLLIN`: no close callback) and channel 3 wrote -/
example : absOut (reach .poll sampleHistory).out =
    [.op 2 .enableR 3 0, .op 3 .enableR 3 0, .op 3 .enableW 7 0, .cb 2 .read 1 3, .op 3 .disableAll 0 0,
     .op 3 .remove 0 0, .cb 2 .read 1 3, .op 3 .enableW 4 0, .cb 2 .read 17 3, .cb 3 .write 4 4] := by decide

/-- operations between polls only; the kernel reports in an order different from `pollfds_` -/
example : Along2 permEnvOk (init .poll) (init .epoll) sampleUnordered ∧
    cbOut (reach .poll sampleUnordered).out =
      [.cb 2 .read 1 3, .cb 3 .write 4 4, .cb 4 .read 1 3, .cb 2 .read 1 3, .cb 4 .close 16 3] ∧
    cbOut (reach .epoll sampleUnordered).out =
      [.cb 4 .read 1 3, .cb 2 .read 1 3, .cb 3 .write 4 4, .cb 4 .close 16 3, .cb 2 .read 1 3] := by decide

/-- the former F21 witnesses (corpus/C09/F21-…): a first update without interest is not handed to the
kernel, `remove()` after it works under both back-ends, a later `enableReading()` registers normally -/
example :
    (∀ be ∈ [Backend.epoll, .poll], ¬ watched (reach be [.op 2 .disableAll]) 2 0) ∧
    (∀ be ∈ [Backend.epoll, .poll], (reach be [.op 2 .disableAll, .op 2 .remove]).dead = false ∧
      absOut (reach be [.op 2 .disableAll, .op 2 .remove]).out = [.op 2 .disableAll 0 0, .op 2 .remove 0 0]) ∧
    (∀ be ∈ [Backend.epoll, .poll], watched (reach be [.op 2 .disableAll, .op 2 .enableR]) 2 3) ∧
    Along2 simEnvOk (init .poll) (init .epoll) [.op 2 .disableAll, .iter [] 0, .op 2 .remove, .op 2 .enableR,
      .iter [(2, 1)] 1] := by decide

/-- 40 user channels (ids 2 … 41) register for reading … -/
def burstHistory : List In := (List.range 40).map fun i => In.op (i + 2) .enableR
/-- … and all 40 become readable and stay so -/
def burstReady : List (Nat × Nat) := (List.range 40).map fun i => (i + 2, 1)
/-- the kernel's ready list rotates: what was reported goes to the tail (16 were reported, then 32) -/
def burstOrder (j : Nat) : List (Nat × Nat) := burstReady.rotateLeft ([0, 16, 8].getD j 0)

/-- the hypotheses of `all_ready_called_epoll_bound` / `all_ready_called_poll` hold for this burst, and what happens:
the array grows 16, 32, 64 and stays; the three consecutive iterations run 16, 32 and then all 40 read callbacks
(`16 · 2² ≥ 40`: the third iteration); under poll the first iteration runs all 40 -/
example :
    Along epEnvOk (init .epoll) burstHistory ∧ (reach .epoll burstHistory).hooks = [] ∧
    (burstReady.map (·.1)).Nodup ∧ (∀ p ∈ burstReady, ((reach .epoll burstHistory).kernel (fdOf p.1)).isSome) ∧
    ((List.range 4).map fun n => (epWaits burstOrder n (reach .epoll burstHistory)).evsize) = [16, 32, 64, 64] ∧
    ((List.range 3).map fun n =>
      (cbOut (epWait burstOrder n (epWaits burstOrder n (reach .epoll burstHistory))).out).length -
        (cbOut (epWaits burstOrder n (reach .epoll burstHistory)).out).length) = [16, 32, 40] ∧
    pollCount burstReady (reach .poll burstHistory).pollfds = 40 ∧
    (cbOut (iter (reach .poll burstHistory) burstReady 40).out).length = 40 := by
  decide +kernel

set_option maxRecDepth 8192 in
/-- … and the theorem applied to it (any fixed order): the third wait calls every one of the 40 channels -/
example (c : Nat) (hc : (c, 1) ∈ burstReady) :
    ∃ l, (epWait (fun _ => burstReady) 2 (epWaits (fun _ => burstReady) 2 (reach .epoll burstHistory))).out =
        (epWaits (fun _ => burstReady) 2 (reach .epoll burstHistory)).out ++ l ∧
      Ev.cb c .read 1 ((reach .epoll burstHistory).chans c).events ∈ l := by
  have hsub : ∀ p ∈ burstReady, subscribed .read ((reach .epoll burstHistory).chans p.1).events := by decide +kernel
  exact (all_ready_called_epoll_bound burstHistory (by decide +kernel) (by decide +kernel) burstReady (fun _ => burstReady)
    (fun _ => .refl _) (by decide +kernel) (by decide +kernel) 2).2.2 (by simp [burstReady, kInitEventListSize]) c 1 .read hc (by decide) (hsub _ hc)

/-! ## T1, which back-end, and what it owns -/

/-- T1, the back-end the loop gets.  `Model/Poller.lean` takes the back-end as a parameter (`Poller.init be`) and the
harness chooses it through the environment; in /repo's current sources (`Generated/SysSkel.lean`, re-extracted on every
run; `Proofs/SysSkelTie.lean`) `Poller::newDefaultPoller` reads `MUDUO_USE_POLL` once and returns a `PollPoller` when it
is SET, an `EPollPoller` otherwise; `EPollPoller`'s constructor makes one `epoll_create1(EPOLL_CLOEXEC)` (a failure ends
the process) and sizes `events_` with `kInitEventListSize` (`Poller.init`: `evsize := kInitEventListSize`), its destructor
closes that descriptor once; `PollPoller` and the base class own nothing (`channels_` starts empty, `= default`
destructors); `Poller::hasChannel` is the value `cmap (fd) = some channel` the model's assertions test; `Channel::tie`
stores the weak reference and sets the flag. -/
theorem default_poller_choice :
    Gen.SysSkel.newDefaultPoller =
      [.act (.sys "getenv" "\"MUDUO_USE_POLL\""),
       .ite "<result>" [.act (.ret "new PollPoller(loop)")] [.act (.ret "new EPollPoller(loop)")]] ∧
    Gen.SysSkel.epollCtor =
      [.act (.call "Poller::Poller" "loop"), .act (.sys "epoll_create1" "EPOLL_CLOEXEC"), .act (.store "epollfd_" "<result>"),
       .act (.store "events_" "kInitEventListSize"), .ite "epollfd_ < 0" [.act (.log .sysfatal)] []] ∧
    Gen.SysSkel.epollDtor = [.act (.sys "close" "epollfd_")] ∧
    Gen.SysSkel.pollCtor = [.act (.call "Poller::Poller" "loop")] ∧
    Gen.SysSkel.pollDtor = [] ∧
    Gen.SysSkel.pollerCtor = [.act (.store "ownerLoop_" "loop")] ∧
    Gen.SysSkel.pollerDtor = [] ∧
    Gen.SysSkel.pollerHasChannel = SysSkel.Decl.pollerHasChannel ∧
    Gen.SysSkel.channelTie = [.act (.store "tie_" "obj"), .act (.store "tied_" "true")] :=
  ⟨SysSkel.skeleton_newDefaultPoller, SysSkel.skeleton_epollCtor, SysSkel.skeleton_epollDtor, SysSkel.skeleton_pollCtor,
   SysSkel.skeleton_pollDtor, SysSkel.skeleton_pollerCtor, SysSkel.skeleton_pollerDtor, SysSkel.skeleton_pollerHasChannel,
   SysSkel.skeleton_channelTie⟩

/-- T1, the two descriptors every loop polls besides the channels of its users: the wake-up `eventfd` (counter 0) and
the `timerfd` (monotonic clock) are created NON-BLOCKING and close-on-exec by one system call each, and a failure ends
the process - so a read of either after a spurious report cannot block the loop (`Generated/SysSkel.lean`,
`Proofs/SysSkelTie.lean`) -/
theorem loop_descriptors_nonblocking :
    Gen.SysSkel.createEventfd =
      [.act (.sys "eventfd" "0, EFD_NONBLOCK | EFD_CLOEXEC"), .act (.assign "evtfd" "<result>"),
       .ite "evtfd < 0" [.act (.log .syserr), .act (.sys "abort" "")] [], .act (.ret "evtfd")] ∧
    Gen.SysSkel.createTimerfd =
      [.act (.sys "timerfd_create" "1, TFD_NONBLOCK | TFD_CLOEXEC"), .act (.assign "timerfd" "<result>"),
       .ite "timerfd < 0" [.act (.log .sysfatal)] [], .act (.ret "timerfd")] :=
  ⟨SysSkel.skeleton_createEventfd, SysSkel.skeleton_createTimerfd⟩

/-- **channel_lifecycle_statement_order_tied** (T1, statement order at both ends of a channel's life).  The constructor and
destructor of `EventLoop` (its wake-up channel), `Channel::Channel`, `Channel::~Channel` and the three forwarders
`EventLoop::updateChannel / removeChannel / hasChannel` of /repo's current sources have the statement skeleton
`Model/Poller.lean` / `Model/Loop.lean` assume (`Model/LoopSkelDecl.lean`; re-extracted on every run by
`vlib/gen/loopskel.py`, proved equal in `Proofs/LoopSkelTie.lean`), and of the EXTRACTED skeletons: (e) `EventLoop::EventLoop`
ends the process (`LOG_FATAL`) exactly when the thread already has a loop and sets the thread-local pointer exactly
otherwise; the eventfd is created before the channel on it, and the read callback is installed BEFORE the channel is
subscribed (`enableReading` is the last statement); `EventLoop::~EventLoop` is `disableAll` -> `remove` ->
`::close(wakeupFd_)` -> `t_loopInThisThread = NULL` - the descriptor is closed only after the channel left the poller;
(j) a new `Channel` has `events_ = 0`, `revents_ = 0`, `index_ = -1`, is not tied, not handling an event, not added to the
loop (`Poller.Chan`'s defaults); `~Channel` asserts `!eventHandling_` and `!addedToLoop_` (`Poller.recreateOk`); the
forwarders assert the owner loop and the loop thread before they reach the poller. -/
theorem channel_lifecycle_statement_order_tied :
    (Gen.LoopSkel.loopCtor = LoopSkel.Decl.loopCtor ∧
     Gen.LoopSkel.loopDtor = LoopSkel.Decl.loopDtor ∧
     Gen.LoopSkel.channelCtor = LoopSkel.Decl.channelCtor ∧
     Gen.LoopSkel.channelDtor = LoopSkel.Decl.channelDtor ∧
     Gen.LoopSkel.updateChannel = LoopSkel.Decl.updateChannel ∧
     Gen.LoopSkel.removeChannel = LoopSkel.Decl.removeChannel ∧
     Gen.LoopSkel.hasChannel = LoopSkel.Decl.hasChannel) ∧
    -- (e) constructor
    (LoopSkel.onlyUnder "t_loopInThisThread" (.log .fatal) Gen.LoopSkel.loopCtor = true ∧
     LoopSkel.onlyUnless "t_loopInThisThread" (.store "t_loopInThisThread" "this") Gen.LoopSkel.loopCtor = true ∧
     LoopSkel.inOrder [.call "createEventfd" "", .store "wakeupFd_" "<result>",
                       .store "wakeupChannel_" "new Channel(this, wakeupFd_)",
                       .call "wakeupChannel_.setReadCallback" "bind(&EventLoop::handleRead, this)",
                       .call "wakeupChannel_.enableReading" ""] (LoopSkel.flat Gen.LoopSkel.loopCtor) = true ∧
     (LoopSkel.flat Gen.LoopSkel.loopCtor).getLast? = some (.call "wakeupChannel_.enableReading" "")) ∧
    -- (e) destructor
    LoopSkel.flat Gen.LoopSkel.loopDtor =
      [.call "wakeupChannel_.disableAll" "", .call "wakeupChannel_.remove" "", .sys "close" "wakeupFd_",
       .store "t_loopInThisThread" "NULL"] ∧
    -- (j)
    ([.store "events_" "0", .store "revents_" "0", .store "index_" "-1", .store "tied_" "false",
      .store "eventHandling_" "false", .store "addedToLoop_" "false"].all
         (fun a => (LoopSkel.flat Gen.LoopSkel.channelCtor).contains a) = true ∧
     LoopSkel.flat Gen.LoopSkel.channelDtor = [.assertion "!eventHandling_", .assertion "!addedToLoop_"]) ∧
    (LoopSkel.inOrder [.assertion "channel.ownerLoop() == this", .call "assertInLoopThread" "",
                       .call "poller_.updateChannel" "channel"] (LoopSkel.flat Gen.LoopSkel.updateChannel) = true ∧
     LoopSkel.inOrder [.assertion "channel.ownerLoop() == this", .call "assertInLoopThread" "",
                       .call "poller_.removeChannel" "channel"] (LoopSkel.flat Gen.LoopSkel.removeChannel) = true) :=
  ⟨⟨LoopSkel.skeleton_loopCtor, LoopSkel.skeleton_loopDtor, LoopSkel.skeleton_channelCtor, LoopSkel.skeleton_channelDtor,
    LoopSkel.skeleton_updateChannel, LoopSkel.skeleton_removeChannel, LoopSkel.skeleton_hasChannel⟩,
   ⟨LoopSkel.loopCtor_order.1, LoopSkel.loopCtor_order.2.1, LoopSkel.loopCtor_order.2.2.1,
    LoopSkel.loopCtor_order.2.2.2.2⟩,
   LoopSkel.loopDtor_order.1,
   ⟨LoopSkel.channel_ctor_dtor.1, LoopSkel.channel_ctor_dtor.2.2.2⟩,
   ⟨LoopSkel.channel_forwarders.1, LoopSkel.channel_forwarders.2.1⟩⟩

end MuduoVerif.C09
