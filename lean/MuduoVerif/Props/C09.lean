import MuduoVerif.Model.Poller
/-!
# C09 — the loop calls exactly the ready, subscribed channels; same under epoll and poll
(first obligations; the refinement theorems follow)
-/
namespace MuduoVerif.C09
open MuduoVerif.Poller MuduoVerif.Gen.Poller

/-- `poll` is never given a zero time-out -/
theorem poll_timeout_pos : 0 < kPollTimeMs := by decide

end MuduoVerif.C09
