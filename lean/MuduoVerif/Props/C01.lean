import MuduoVerif.Proofs.ConnFlow
import MuduoVerif.Proofs.ConnRead
import MuduoVerif.Proofs.ConnBlocks
import MuduoVerif.Proofs.ConnProgress
import MuduoVerif.Proofs.ConnSkelTie
/-!
# C01 — TCP payload is delivered complete, in order and exactly once, both directions

Property theorems only (lemmas: `Proofs/ConnStream.lean`, `ConnBlocks.lean`, `ConnRead.lean`,
`ConnFlow.lean`).  Every statement quantifies over every history of the connection model:
any configuration, any block sizes and contents, `send()` on the loop thread or on other
threads or from inside callbacks, any result sequence of `write`/`readv` (partial writes,
`EAGAIN`, `EINTR`, fatal errors), any poll results, any placement of `stopRead`/`startRead`,
both poller back-ends.  The three `send` overloads reach the same `sendInLoop`
(`send_overloads_agree` ties their state tests and hand-offs; the copies they make are
compared by the correspondence run).

Ghost fields of the model used here: `accepted` (bytes of the blocks `sendInLoop` took on, in
processing order), `blocks` (the same block by block, tagged with "came through the functor
queue"), `offeredL`/`offeredF` (blocks for which `send()` passed its state test on the loop
thread / on other threads, in call order), `wrote` (bytes the kernel took, in order),
`outBuf` (the output buffer), `discarded` (a fatal write error dropped data),
`peerAll`/`peerPending`/`delivered`/`inBuf` for the receive direction.

What this does not say: that the kernel delivers `wrote` to the peer (assumed: TCP), and
progress without the fairness hypothesis of `drain_progress`.
-/
namespace MuduoVerif.C01
open MuduoVerif.Conn MuduoVerif.Gen.Conn

abbrev reach (c0 : Conn) (ins : List Input) : Conn := run (step c0 .establish) ins

section
variable (c0 : Conn) (h0 : Fresh c0) (ins : List Input) (hne : ∀ i ∈ ins, i.notEstablish)
include h0 hne

/-- **stream_inv** (send direction): unless a fatal write error (`EPIPE`/`ECONNRESET`) made the
code drop data, the bytes handed to the kernel followed by the bytes still buffered are exactly
the accepted blocks, concatenated in the order they were processed: nothing lost, duplicated,
reordered or interleaved, however the kernel split the writes -/
theorem stream_inv :
    (reach c0 ins).discarded = false →
      (reach c0 ins).wrote ++ (reach c0 ins).outBuf = ((reach c0 ins).blocks.map (·.2)).flatten := by
  intro hd
  rw [← (per_thread_fifo c0 h0 ins hne).flat]
  exact (reach_all c0 h0 ins hne).2.2 hd

/-- **per_thread_fifo**: the accepted blocks that were sent on the loop thread are exactly the
blocks `send()` took there, in call order (each is processed inside the call); the accepted
blocks that were sent on other threads are an initial segment of what `send()` took there, in
call order, and as long as the connection is not down the rest is still queued, in order -/
theorem per_thread_fifo :
    (reach c0 ins).lBlocks = (reach c0 ins).offeredL ∧
    (reach c0 ins).fBlocks <+: (reach c0 ins).offeredF ∧
    ((reach c0 ins).st ≠ .kDisconnected →
      (reach c0 ins).fBlocks ++ (reach c0 ins).queuedSends = (reach c0 ins).offeredF) :=
  let h := Conn.per_thread_fifo c0 h0 ins hne
  ⟨h.loopOrder, h.foreignPrefix, h.foreignAll⟩

/-- **write_interest_inv**: while the connection is not down, the channel asks for writability
exactly while there is a backlog (so a backlog is never left without a wake-up, and an empty
one never spins the loop) -/
theorem write_interest_inv :
    (reach c0 ins).st ≠ .kDisconnected →
      ((reach c0 ins).ch.evWrite = true ↔ (reach c0 ins).outBuf ≠ []) :=
  write_interest c0 h0 ins hne

/-- **read_inv** (receive direction): what was appended to the input buffer so far, followed by
what the peer wrote and was not read yet, is everything the peer wrote, in order; and the input
buffer (what the message callback is shown) is the not yet retrieved tail of what was appended -/
theorem read_inv :
    (reach c0 ins).delivered ++ (reach c0 ins).peerPending = (reach c0 ins).peerAll ∧
    (reach c0 ins).inBuf <:+ (reach c0 ins).delivered :=
  Conn.read_inv c0 h0 ins hne

end

/-- the message callback is shown the whole unconsumed input, new bytes included -/
theorem msg_sees_tail (c : Conn) (n : Nat) :
    let seen := c.inBuf ++ c.peerPending.take (n+1)
    c.trace ++ [Ev.msg seen.length (fnv64 seen)] <+: (handleReadRes c (.got (n+1))).trace :=
  Conn.msg_sees_tail c n

/-- **pause_resume**: `stopRead`/`startRead` change nothing but the read interest -/
theorem pause_resume (c : Conn) :
    SameButInterest c (stopReadInLoop c) ∧ SameButInterest c (startReadInLoop c) :=
  stopStart_only_read_interest c

/-- **drain_step**: a writable event on a connection with a backlog of `k` bytes of which the
kernel takes `n+1` leaves `k - (n+1)` bytes, and these are the tail of the old backlog -/
theorem drain_step (c : Conn) (n : Nat) (hw : c.ch.evWrite = true) (hr : peekWrite c = .took (n+1)) :
    (handleWrite c).outBuf = c.outBuf.drop (n+1) := by
  rw [handleWrite_outBuf, if_pos hw, hr]

/-- **drain_progress**: under the fairness hypothesis `EnvFairWrites` (every iteration reports
writability and the kernel takes at least one byte: `Draining.fair`) and with nothing else queued
that sends, closes or destroys, a backlog of at most `k` bytes is written out completely after
`k` iterations -/
theorem drain_progress (k : Nat) (c : Conn) (hd : Draining c) (hk : c.outBuf.length ≤ k) :
    (pollOut c k).outBuf = [] :=
  (Conn.drain_progress k c hd hk).1

/-- the three overloads of `send` apply the same state test and hand over the same way -/
theorem send_overloads_agree :
    (∀ st, sendAcceptsBuf st ↔ sendAcceptsPiece st) ∧ sendBufDispatch = sendPieceDispatch ∧
    sendBufHold = sendPieceHold := by
  refine ⟨fun st => Iff.rfl, rfl, rfl⟩

/-- non-vacuity: a 3-send history with a short write, an `EAGAIN`, and a sender on another thread -/
example :
    let ins : List Input :=
      [.envWrite (.took 1), .act false (.send [1, 2, 3]), .act true (.send [4, 5]), .envWrite (.err 11), .iter [.conn 4],
       .act false (.send [6]), .envWrite (.took 6), .iter [.conn 4]]
    Fresh ({} : Conn) ∧ (reach {} ins).discarded = false ∧ (reach {} ins).wrote = [1, 2, 3, 4, 5, 6] ∧
    (reach {} ins).blocks = [(false, [1, 2, 3]), (true, [4, 5]), (false, [6])] := by
  refine ⟨fresh_default .epoll true true true _ _ [] [] [], ?_, ?_, ?_⟩ <;> decide

/-- T1, statement order: in every `TcpConnection` member function the model implements (and in
`Channel::handleEventWithGuard`) the source performs the same significant actions - state stores, channel
operations, callbacks, hand-offs to the loop, member calls, system calls, buffer operations - in the same order
and under the same nesting of the generated guards as `Model/Conn.lean` (`Model/ConnSkelDecl.lean`); re-extracted
from /repo on every run (`Generated/ConnSkel.lean`), proved in `Proofs/ConnSkelTie.lean` -/
theorem statement_order_tied :
    Gen.ConnSkel.sendInLoop = ConnSkel.Decl.sendInLoop ∧
    Gen.ConnSkel.shutdown = ConnSkel.Decl.shutdown ∧
    Gen.ConnSkel.shutdownInLoop = ConnSkel.Decl.shutdownInLoop ∧
    Gen.ConnSkel.forceClose = ConnSkel.Decl.forceClose ∧
    Gen.ConnSkel.forceCloseWithDelay = ConnSkel.Decl.forceCloseWithDelay ∧
    Gen.ConnSkel.forceCloseInLoop = ConnSkel.Decl.forceCloseInLoop ∧
    Gen.ConnSkel.startReadInLoop = ConnSkel.Decl.startReadInLoop ∧
    Gen.ConnSkel.stopReadInLoop = ConnSkel.Decl.stopReadInLoop ∧
    Gen.ConnSkel.connectEstablished = ConnSkel.Decl.connectEstablished ∧
    Gen.ConnSkel.connectDestroyed = ConnSkel.Decl.connectDestroyed ∧
    Gen.ConnSkel.handleRead = ConnSkel.Decl.handleRead ∧
    Gen.ConnSkel.handleWrite = ConnSkel.Decl.handleWrite ∧
    Gen.ConnSkel.handleClose = ConnSkel.Decl.handleClose ∧
    Gen.ConnSkel.handleError = ConnSkel.Decl.handleError ∧
    Gen.ConnSkel.handleEventWithGuard = ConnSkel.Decl.handleEventWithGuard :=
  ConnSkel.skeletons_agree

/-- T1, the public entry points: `startRead()` / `stopRead()` hand their request to the loop unconditionally, the
`send` overloads test the state and then the thread (`Proofs/ConnSkelTie.lean`) -/
theorem entry_points_tied :
    Gen.ConnSkel.startRead = ConnSkel.Decl.startRead ∧
    Gen.ConnSkel.stopRead = ConnSkel.Decl.stopRead ∧
    Gen.ConnSkel.sendPiece = ConnSkel.Decl.sendPiece ∧
    Gen.ConnSkel.sendBuf = ConnSkel.Decl.sendBuf ∧
    Gen.ConnSkel.sendPtr = ConnSkel.Decl.sendPtr ∧
    Gen.ConnSkel.sendInLoopPiece = ConnSkel.Decl.sendInLoopPiece ∧
    Gen.ConnSkel.setTcpNoDelay = ConnSkel.Decl.setTcpNoDelay :=
  ConnSkel.entry_points_agree

/-- **pause/resume requests are never dropped in the calling thread**: from another thread `stopRead()` /
`startRead()` ALWAYS queue their functor, whatever `reading` shows at that moment (it does not yet reflect requests
that are still queued); on the loop thread they run at once -/
theorem read_requests_unconditional (c : Conn) :
    (act c true .stopRead).pending = c.pending ++ [Task.stopReadInLoop] ∧
    (act c true .startRead).pending = c.pending ++ [Task.startReadInLoop] ∧
    act c false .stopRead = stopReadInLoop c ∧ act c false .startRead = startReadInLoop c := by
  refine ⟨?_, ?_, ?_, ?_⟩ <;> simp [act, handOff, enqueue, stopReadDispatch, startReadDispatch]

/-- **the last request wins**: on a connection that is up, a pause followed by a resume (processed in that order by
the loop: the functor queue is FIFO, `C04`) ends with read interest ON, and the reverse ends with it OFF - whatever
the state was before; together with `read_requests_unconditional`: `stopRead(); startRead();` issued back to back
from another thread resumes reading -/
theorem last_read_request_wins (c : Conn) (hu : c.st = .kConnected ∨ c.st = .kDisconnecting) :
    (startReadInLoop (stopReadInLoop c)).ch.evRead = true ∧ (startReadInLoop (stopReadInLoop c)).reading = true ∧
    (stopReadInLoop (startReadInLoop c)).ch.evRead = false ∧ (stopReadInLoop (startReadInLoop c)).reading = false := by
  have hs : ∀ c1 : Conn, (stopReadInLoop c1).st = c1.st := by
    intro c1; unfold stopReadInLoop; split <;> rfl
  have ht : ∀ c1 : Conn, (startReadInLoop c1).st = c1.st := by
    intro c1; unfold startReadInLoop; split <;> rfl
  have hstart : ∀ c1 : Conn, (c1.st = .kConnected ∨ c1.st = .kDisconnecting) →
      (startReadInLoop c1).ch.evRead = true ∧ (startReadInLoop c1).reading = true := by
    intro c1 h1
    unfold startReadInLoop
    by_cases hg : startReadActs c1.st c1.reading c1.ch.evRead
    · rw [if_pos hg]
      exact ⟨by show (chanUpdate c1.be { c1.ch with evRead := true, evWrite := c1.ch.evWrite }).evRead = true
                rw [Conn.chanUpdate_keeps_evRead], rfl⟩
    · rw [if_neg hg]
      have : ¬ (¬ c1.reading = true ∨ ¬ c1.ch.evRead = true) := fun h => hg ⟨h1, h⟩
      constructor
      · cases h : c1.ch.evRead with
        | true => rfl
        | false => exact absurd (Or.inr (by simp [h])) this
      · cases h : c1.reading with
        | true => rfl
        | false => exact absurd (Or.inl (by simp [h])) this
  have hstop : ∀ c1 : Conn, (c1.st = .kConnected ∨ c1.st = .kDisconnecting) →
      (stopReadInLoop c1).ch.evRead = false ∧ (stopReadInLoop c1).reading = false := by
    intro c1 h1
    unfold stopReadInLoop
    by_cases hg : stopReadActs c1.st c1.reading c1.ch.evRead
    · rw [if_pos hg]
      exact ⟨by show (chanUpdate c1.be { c1.ch with evRead := false, evWrite := c1.ch.evWrite }).evRead = false
                rw [Conn.chanUpdate_keeps_evRead], rfl⟩
    · rw [if_neg hg]
      have : ¬ (c1.reading = true ∨ c1.ch.evRead = true) := fun h => hg ⟨h1, h⟩
      constructor
      · cases h : c1.ch.evRead with
        | false => rfl
        | true => exact absurd (Or.inr h) this
      · cases h : c1.reading with
        | false => rfl
        | true => exact absurd (Or.inl h) this
  have h1 := hstart (stopReadInLoop c) (by rw [hs]; exact hu)
  have h2 := hstop (startReadInLoop c) (by rw [ht]; exact hu)
  exact ⟨h1.1, h1.2, h2.1, h2.2⟩

/-- the whole history: another thread pauses and resumes back to back before the loop has seen either request, the
peer then writes: both functors run in the next iteration (pause, then resume), the bytes are delivered -/
example :
    let c := run (step {} .establish) [.act true .stopRead, .act true .startRead, .iter [], .peerWrite [1, 2, 3],
      .envRead (.got 3), .iter [.conn 1]]
    c.ch.evRead = true ∧ c.reading = true ∧ c.delivered = [1, 2, 3] ∧
    (run (step {} .establish) [.act true .stopRead, .act true .startRead]).pending = [.stopReadInLoop, .startReadInLoop] := by
  decide

end MuduoVerif.C01
