import MuduoVerif.Proofs.LoopOwner
import MuduoVerif.Proofs.Pool
import MuduoVerif.Proofs.ThreadSkelTie
import MuduoVerif.Proofs.LoopSkelTie
/-!
# C05 — quit() always ends the loop; loop threads and pools start, serve, join cleanly

Property theorems only; lemmas live in `Proofs/LoopQuit.lean` (quit invariant), `Proofs/LoopElt.lean`
(`EventLoopThread`: mutex discipline, start-up handshake, all-blocked states) and `Proofs/Pool.lean`.

The transition system is the one of C04 (`Model/Loop.lean`) with `quit()` = flag store · wake-up, the position of
the `quit_ = false` re-arming inside `loop()`, the destruction of the loop object, and `EventLoopThread`
(`startLoop` / `threadFunc` / destructor as monitor code over `mutex_`, `cond_`, `loop_`).  Any number of threads,
any programs, any schedule; no poll timeout, so "without waiting for the poll timeout" and "without hanging" are
statements about states in which no thread can move.  The places of the flag reset, the lock in the destructor,
the `while` around `cond_.wait()`, the notification in `threadFunc` and the wake condition of `quit()` are
definitions of `Generated/Loop.lean`; the pool's guards, subscripts and cursor update are `Generated/Pool.lean`.

A plain loop may be entered again after `loop()` has returned (`again` segments of the owner's program, C04): `qreq`,
`selfQuit` speak about ONE run of `loop()` (from `loop:entry` to `returned`); a flag store made after the return — the
return re-armed `quit_` — is a request to the next run (`relaunch`: `qreq := quit`).  So `quit_not_lost`,
`quit_ends_loop`, `quit_in_callback`, `returns_only_after_quit` hold of every run.  An `EventLoopThread` calls `loop()` once.
-/
namespace MuduoVerif.C05
open MuduoVerif.Loop MuduoVerif.Gen.Loop

/-! ## T1 ties -/

/-- `quit()` stores the flag first and then wakes the loop exactly when called from another thread; `loop()` tests
the flag in its `while`, re-arms it after the `while` (not before) -/
theorem tie_quit (isLoopThread : Bool) :
    (quitWakes isLoopThread ↔ isLoopThread = false) ∧ quitStoresFirst = true ∧ whileTestsQuit = true ∧
    quitResetAtEntry = false ∧ quitResetAtExit = true := by
  refine ⟨?_, shape_tie_quit.1, shape_tie_quit.2.1, quitResetAtEntry_tie, quitResetAtExit_tie⟩
  unfold quitWakes; cases isLoopThread <;> simp

/-- `~EventLoopThread` tests `loop_` and calls `quit()` under `mutex_` and joins whenever the thread was started;
`threadFunc` publishes and clears `loop_` under `mutex_` and notifies, and when it clears `loop_` it also records
`finished_` and notifies again; `startLoop` re-tests after every wake-up and waits only while `loop_ == NULL` **and**
the thread has not finished -/
theorem tie_thread :
    dtorLocks = true ∧ dtorJoinsIfStarted = true ∧ publishLocks = true ∧ publishNotifies = true ∧
    clearLocks = true ∧ finishSets = true ∧ finishNotifies = true ∧ startWaitsWhile = true ∧
    startChecksFinished = true :=
  ⟨dtorLocks_tie, dtorJoinsIfStarted_tie, shape_tie_quit.2.2, publishNotifies_tie, clearLocks_tie, finishSets_tie,
   finishNotifies_tie, startWaitsWhile_tie, startChecksFinished_tie⟩

/-! ## quit() -/

/-- **quit_not_lost**: once any `quit()` call has stored its flag — before `loop()` was entered, at its entry,
during poll, dispatch or a drain, from any thread or callback — the flag stays set until `loop()` has returned -/
theorem quit_not_lost (s : St) (h : Reachable s) (hq : s.qreq = true) :
    s.quit = true ∨ s.phase = .returned ∨ s.phase = .dead := by
  have hi := reachable_invariant (P := QuitInv) init_quit (fun _ k h => step_quit k h) h
  rcases hi.kept hq with h1 | h1
  · exact Or.inl h1
  · right; cases hp : s.phase <;> simp_all [exited]

/-- … and a loop that sleeps in `poll` while the flag is set has its eventfd readable, or the quitter stands
between its store and its `wakeup()`: `quit()` never waits for the poll timeout -/
theorem quit_wakes_poll (s : St) (h : Reachable s) (hp : s.phase = .polling) (hq : s.quit = true) :
    0 < s.ev ∨ ∃ j, j ≠ s.L ∧ ((s.thr j).pc = .quitStored ∨ (s.thr j).pc = .dStored) := by
  have hi := reachable_invariant (P := QuitInv) init_quit (fun _ k h => step_quit k h) h
  rcases hi.woken hp hq with h1 | ⟨j, hj, hpc⟩ | ⟨j, hj, hpc⟩
  · exact Or.inl h1
  · exact Or.inr ⟨j, hj, Or.inl hpc⟩
  · exact Or.inr ⟨j, hj, Or.inr hpc⟩

/-- **quit_ends_loop**: the next test of the flag after a `quit()` — at the entry of `loop()` (a quit that completed
before `loop()` started) or at the end of the current iteration — leaves the `while`.
Limitation, stated rather than hidden: leaving the `while` is what `quit()` guarantees.  `loop()` *returns* after the
drain that follows the `while` has found the queue empty (`do { doPendingFunctors(); } while (queueSize() > 0);`,
C04 `final_drain_repeats` / `returns_only_with_empty_queue`); in that phase the loop thread is never blocked, and it
returns as soon as the functors stop queueing further functors — a functor that always re-queues itself keeps
`loop()` from returning (C04 `requeue_forever_never_returns_witness`). -/
theorem quit_ends_loop (s : St) (h : Reachable s) (hq : s.qreq = true)
    (hp : s.phase = .entered ∨ s.phase = .looptest) : (stepLoop s).phase = .atExit := by
  have hquit : s.quit = true := by
    rcases quit_not_lost s h hq with h1 | h1 | h1
    · exact h1
    · rcases hp with hp | hp <;> simp [hp] at h1
    · rcases hp with hp | hp <;> simp [hp] at h1
  have := quitResetAtEntry_tie
  rcases hp with hp | hp <;> simp [stepLoop, stepLoopFD, stepLoopG, hp, testQuit, hquit, this]

/-- **quit_in_callback**: after a `quit()` called on the loop thread itself (from a functor, an I/O handler, or before
`loop()`), the loop never enters `poll` again: it finishes the current iteration and returns -/
theorem quit_in_callback (s : St) (h : Reachable s) (hq : s.selfQuit = true) : s.phase ≠ .polling :=
  (reachable_invariant (P := QuitInv) init_quit (fun _ k h => step_quit k h) h).selfNoPoll hq

/-- the loop leaves its `while` only because somebody called `quit()` -/
theorem returns_only_after_quit (s : St) (h : Reachable s)
    (hp : s.phase = .atExit ∨ s.phase = .returned ∨ s.phase = .dead) : s.qreq = true := by
  have hi := reachable_invariant (P := QuitInv) init_quit (fun _ k h => step_quit k h) h
  exact hi.goneReq (by rcases hp with h | h | h <;> simp [h, exited])

/-! ## EventLoopThread -/

/-- **no_dead_access**: no step of `~EventLoopThread` (the test of `loop_`, the flag store and the eventfd write
inside `loop_->quit()`) touches a loop that has been destroyed — at any timing of the destruction relative to the
loop thread's start-up and to a loop that quits by itself -/
theorem no_dead_access (s : St) (h : Reachable s) : s.uafDtor = false :=
  (reachable_invariant (P := EltInv) init_eltInv (fun _ k h => step_eltInv k h) h).noUaf

/-- why: between the destructor's test of `loop_` and the end of its `quit()` it holds `mutex_`, `loop_` is still
published and the loop object exists; at most one thread is in that window -/
theorem dtor_window (s : St) (h : Reachable s) (k : Nat) (hk : k ≠ s.L)
    (hpc : (s.thr k).pc = .dBeforeQuit ∨ (s.thr k).pc = .dStored) :
    s.mtx = true ∧ s.loopPtr = true ∧ s.alive = true ∧
    ∀ j, j ≠ s.L → ((s.thr j).pc = .dBeforeQuit ∨ (s.thr j).pc = .dStored) → j = k := by
  have hi := reachable_invariant (P := EltInv) init_eltInv (fun _ k h => step_eltInv k h) h
  have hH : inH (s.thr k).pc = true := by rcases hpc with h | h <;> simp [h, inH]
  obtain ⟨hm, hl⟩ := hi.holder k hk hH
  refine ⟨hm, hl, ?_, ?_⟩
  · rw [hi.alive]; have := (hi.ptr hl).1; cases hp : s.phase <;> simp_all [running, hasLoop]
  · intro j hj hjp
    exact hi.unique j k hj hk (by rcases hjp with h | h <;> simp [h, inH]) hH

/-- the loop object exists exactly from its construction on the new thread until `threadFunc` has cleared `loop_`;
`loop_` is published exactly while it can be used -/
theorem loop_lifetime (s : St) (h : Reachable s) :
    s.alive = hasLoop s.phase ∧ (s.loopPtr = true → running s.phase = true) ∧
    (s.elt = true → running s.phase = true → s.loopPtr = true) := by
  have hi := reachable_invariant (P := EltInv) init_eltInv (fun _ k h => step_eltInv k h) h
  exact ⟨hi.alive, fun hl => (hi.ptr hl).1, hi.ptrElt⟩

/-- **startLoop_owned**: when `startLoop()` returns a loop, `loop_` is published, the loop object exists, it was
constructed by and belongs to the new thread (the caller is another thread), and it accepts tasks: the step that
returns is taken while the loop is between publication and the end of `loop()`.  The only other way `startLoop()`
returns is with NULL, and only when the loop thread has already left `loop()` and destroyed its loop — which requires
that somebody called `quit()` before `startLoop()` had looked (e.g. the thread-init callback). -/
theorem startLoop_owned (s : St) (h : Reachable s) (k : Nat) (hk : k ≠ s.L)
    (hout : (step s k).out = some .started ∨ (step s k).out = some .startedNull) :
    ((step s k).out = some .started ∧ s.loopPtr = true ∧ s.alive = true ∧ running s.phase = true ∧ s.mtx = false) ∨
    ((step s k).out = some .startedNull ∧ s.loopPtr = false ∧ s.phase = .dead ∧ s.alive = false ∧ s.qreq = true) := by
  have hi := reachable_invariant (P := EltInv) init_eltInv (fun _ k h => step_eltInv k h) h
  have hst : step s k = stepOther s k := by simp [step, hk]
  rw [hst] at hout ⊢
  have key : ((stepOther s k).out = some .started ∧ s.loopPtr = true ∧ s.mtx = false) ∨
      ((stepOther s k).out = some .startedNull ∧ s.loopPtr = false ∧ s.finished = true) := by
    have := startWaitsWhile_tie
    revert hout
    other_cases
    all_goals (intro hout; simp_all)
  rcases key with ⟨ho, hl, hm⟩ | ⟨ho, hl, hf⟩
  · refine Or.inl ⟨ho, hl, ?_, (hi.ptr hl).1, hm⟩
    rw [hi.alive]; have := (hi.ptr hl).1; cases hp : s.phase <;> simp_all [running, hasLoop]
  · have hd := hi.fin.2.mp hf
    refine Or.inr ⟨ho, hl, hd, ?_, returns_only_after_quit s h (Or.inr (Or.inr hd))⟩
    rw [hi.alive, hd]; rfl

/-- **stuck_states**: a reachable state in which no thread can move looks like this — every thread other than the
loop thread has finished its program, except a destructor that ran before `loop_` was published (`EarlyDestroy`: the
object was destroyed while `startLoop()` had not returned); and the loop thread has finished, or sleeps in `poll`
with no byte in the pipe, the eventfd not readable and **no `quit()` outstanding**.  In particular no thread is ever
blocked forever inside `startLoop()`, whoever quits the loop and whenever. -/
theorem stuck_states (s : St) (h : Reachable s) (hs : Stuck s) :
    (∀ k, k ≠ s.L → finished s k = true ∨ EarlyDestroy s k) ∧
    (finished s s.L = true ∨ IdleInPoll s) :=
  stuck_analysis (reachable_invariant (P := QuitInv) init_quit (fun _ k h => step_quit k h) h)
    (reachable_invariant (P := EltInv) init_eltInv (fun _ k h => step_eltInv k h) h) hs

/-- **join_terminates**: a destructor that waits in `join()` after a `quit()` was issued (by itself or by anybody) is
never in an all-blocked state: some thread can move until the loop thread has finished.  (No hang; that the loop
thread does finish additionally needs the functors to stop re-queueing, see `quit_ends_loop`.) -/
theorem join_terminates (s : St) (h : Reachable s) (k : Nat) (hk : k ≠ s.L) (hpc : (s.thr k).pc = .dJoin)
    (hq : s.qreq = true) : ∃ j, enabled s j = true := by
  apply Classical.byContradiction
  intro hne
  have hs : Stuck s := fun j => by
    cases he : enabled s j with
    | false => rfl
    | true => exact absurd ⟨j, he⟩ hne
  rcases (stuck_states s h hs).1 k hk with h1 | h1
  · simp [finished, hk, hpc] at h1
  · simp [EarlyDestroy, hq] at h1

/-- the destructor's own path: from its test of `loop_` to `join()` it is never blocked (it holds the mutex), and a
destructor that saw `loop_ != NULL` has issued `quit()` when it reaches `join()` -/
theorem dtor_quits_before_join (s : St) (k : Nat) (hk : k ≠ s.L) (hpc : (s.thr k).pc = .dBeforeQuit) :
    enabled s k = true ∧ (step s k).qreq = true ∧ (step s k).quit = true ∧ ((step s k).thr k).pc = .dStored ∧
    enabled (step s k) k = true := by
  have h1 : enabled s k = true := by simp [enabled, hk, otherEnabled, hpc]
  have hst : step s k = stepOther s k := by simp [step, hk]
  rw [hst]
  have hL : (stepOther s k).L = s.L := L_of_elt (by simp [stepOther, hpc, doQuitStore])
  have hpc' : ((stepOther s k).thr k).pc = .dStored := by simp [stepOther, hpc, doQuitStore]
  refine ⟨h1, ?_, ?_, hpc', ?_⟩
  · simp [stepOther, hpc, doQuitStore]
  · simp [stepOther, hpc, doQuitStore]
  · rw [enabled, hL, if_neg hk]; simp [otherEnabled, hpc']

/-- **startLoop_terminates**: a thread inside `startLoop()` is never in an all-blocked state — also when the loop is
quit (by the thread-init callback, by a functor it queued, by anybody) before `startLoop()` has seen `loop_` -/
theorem startLoop_terminates (s : St) (h : Reachable s) (k : Nat) (hk : k ≠ s.L)
    (hpc : (s.thr k).pc = .sCheck ∨ (s.thr k).pc = .sWaiting) :
    ∃ j, enabled s j = true := by
  apply Classical.byContradiction
  intro hne
  have hs : Stuck s := fun j => by
    cases he : enabled s j with
    | false => rfl
    | true => exact absurd ⟨j, he⟩ hne
  rcases (stuck_states s h hs).1 k hk with h1 | h1
  · rcases hpc with hpc | hpc <;> simp [finished, hk, hpc] at h1
  · rcases hpc with hpc | hpc <;> simp [EarlyDestroy, hpc] at h1

/-- **clean_shutdown**: the documented use of `EventLoopThread` — one owner thread calls `startLoop()`, then hands any
number of tasks to the loop (`queueInLoop`, `runInLoop`, bytes for an I/O handler; task bodies, the destructors of what
the functor objects own and the thread-init callback submit more work but do not call `quit()`), then optionally
destroys the object.  For **every** schedule, a
state in which no thread can move is a clean end: the owner has finished its program, no step touched a destroyed
loop, and either the object was destroyed — then the loop was told to quit, `loop()` returned, the loop object is
gone and the join has returned — or it was not, and the loop idles in `poll` with nothing asked of it.  In
particular neither `startLoop()` nor the destructor's `join()` can hang, at any timing of the destructor relative to
the new thread's start-up. -/
theorem clean_shutdown (wl : Bool) (tbl dtbl : TaskId → List Sub) (pre body tail : List Sub) (sched : List Nat)
    (htbl : ∀ x, userOnly (tbl x) = true) (hdtbl : ∀ x, userOnly (dtbl x) = true) (hpre : userOnly pre = true)
    (hbody : userOnly body = true) (htail : tail = [] ∨ tail = [.destroy]) :
    let s := run (init true wl tbl dtbl pre [] (fun k => if k = 0 then .startLoop :: (body ++ tail) else [])) sched
    Stuck s →
      (s.thr 0).pc = .idle ∧ (s.thr 0).prog = [] ∧ s.uafDtor = false ∧
      ((tail = [.destroy] ∧ s.phase = .dead ∧ s.qreq = true) ∨ (tail = [] ∧ IdleInPoll s)) := by
  intro s hs
  exact owner_stuck
    (run_invariant (fun _ k h => step_owner htail k h) (init_owner wl tbl dtbl pre body tail htbl hdtbl hpre hbody) sched) hs

/-! ## EventLoopThreadPool -/

open MuduoVerif.Pool in
/-- **round robin**: the `i`-th of `k` successive `getNextLoop()` calls on a pool of `n > 0` threads is loop `i % n`;
on a pool without threads every call answers with the base loop -/
theorem pool_round_robin (n k i : Nat) (hi : i < k) :
    (nextSeq (start n) k)[i]? = some (if n = 0 then .base else .worker (i % n)) := by
  by_cases hn : n = 0
  · subst hn; simpa using nextSeq_get_zero (start 0) rfl k i hi
  · simpa [hn] using nextSeq_get n k i (by omega) hi

open MuduoVerif.Pool in
/-- any `n` consecutive calls hand out `n` distinct loops, and every loop of the pool among them -/
theorem pool_window (n k i : Nat) (hn : 0 < n) :
    (∀ j, i < j → j < i + n → j < k → (nextSeq (start n) k)[i]? ≠ (nextSeq (start n) k)[j]?) ∧
    (∀ w, w < n → i + n ≤ k → ∃ j, i ≤ j ∧ j < i + n ∧ (nextSeq (start n) k)[j]? = some (.worker w)) :=
  ⟨fun j hij hjn hjk => window_distinct n k i j hn hij hjn hjk, fun w hw hik => window_covers n k i w hw hik⟩

open MuduoVerif.Pool in
/-- **hash**: `getLoopForHash(h)` is loop `h % n` (the base loop when `n = 0`); equal hash codes map to the same loop
however many `getNextLoop()` calls happen in between -/
theorem pool_hash (p : Pool) (h k : Nat) :
    getLoopForHash (afterNext p k) h = (if p.n = 0 then .base else .worker (h % p.n)) := by
  rw [hash_stable]
  by_cases hn : p.n = 0
  · simp [hn, hash_eq_zero p h hn]
  · simp [hn, hash_eq p h (by omega)]

open MuduoVerif.Pool in
/-- **all loops**: `getAllLoops()` is the list of the `n` worker loops in creation order, or the base loop alone;
whatever `getNextLoop()` / `getLoopForHash()` hand out is one of them -/
theorem pool_all_loops (n k h : Nat) :
    getAllLoops (afterNext (start n) k) = (if n = 0 then [.base] else (List.range n).map .worker) ∧
    (getNextLoop (afterNext (start n) k)).1 ∈ getAllLoops (afterNext (start n) k) ∧
    getLoopForHash (afterNext (start n) k) h ∈ getAllLoops (afterNext (start n) k) := by
  refine ⟨?_, next_mem_allLoops _ (inv_afterNext _ (inv_start n) k), hash_mem_allLoops _ h⟩
  rw [allLoops, afterNext_n]; rfl

/-! ## non-vacuity -/

/-- `EventLoopThread`: the owner starts the loop, queues task 1 and destroys the object; under this schedule the
task runs, the destructor's `quit()` ends the loop, the loop object is destroyed and the join returns -/
example :
    let s := run (init true false (fun _ => []) (fun _ => []) [] [] (fun k => if k = 0 then [.startLoop, .queue 1, .destroy] else []))
                 [0, 1, 1, 1, 1, 1, 0, 0, 0, 0, 0, 0, 0, 1, 1, 1, 1, 1, 1, 1, 1, 1, 1, 1, 1, 1, 1, 0]
    s.executed = [1] ∧ s.phase = .dead ∧ s.uafDtor = false ∧ (s.thr 0).pc = .idle ∧ (s.thr 0).prog = [] ∧
    s.qreq = true := by
  decide +kernel

/-- the hypotheses of `clean_shutdown` are satisfiable and its conclusion is reached: the run above is such a program
(`body = [queue 1]`, `tail = [destroy]`) and ends in a state where nobody can move -/
example :
    let s := run (init true false (fun _ => []) (fun _ => []) [] [] (fun k => if k = 0 then .startLoop :: ([.queue 1] ++ [.destroy]) else []))
                 [0, 1, 1, 1, 1, 1, 0, 0, 0, 0, 0, 0, 0, 1, 1, 1, 1, 1, 1, 1, 1, 1, 1, 1, 1, 1, 1, 0]
    enabled s 0 = false ∧ enabled s 1 = false ∧ s.phase = .dead ∧ userOnly [Sub.queue 1] = true := by
  decide +kernel

/-- `clean_shutdown` with a functor object that owns something: the destructor of what task 1's functor owns queues task 2
(`dtbl`, `userOnly`); the owner starts the loop, queues task 1 and destroys the object: both tasks run — task 2 is
queued while the batch is destroyed, inside `doPendingFunctors` — the loop ends, the join returns, nobody can move -/
example :
    let s := run (init true false (fun _ => []) (fun t => if t = 1 then [.queue 2] else []) [] []
                    (fun k => if k = 0 then .startLoop :: ([.queue 1] ++ [.destroy]) else []))
                 [0, 0, 1, 1, 1, 1, 0, 0, 0, 0, 0, 0, 0, 0, 1, 1, 1, 1, 1, 1, 1, 1, 1, 1, 1, 1, 1, 1, 1, 1, 1, 1, 0]
    s.executed = [1, 2] ∧ s.phase = .dead ∧ s.uafDtor = false ∧ enabled s 0 = false ∧ enabled s 1 = false ∧
    (s.thr 0).pc = .idle ∧ (s.thr 0).prog = [] ∧ userOnly [Sub.queue 2] = true := by
  decide +kernel

/-- the thread-init callback quits the loop and the loop thread runs to its end before the owner looks: `startLoop()`
returns NULL (it used to wait forever), the owner's destructor joins -/
example :
    let s := run (init true false (fun _ => []) (fun _ => []) [.quit] [] (fun k => if k = 0 then [.startLoop, .destroy] else []))
                 [0, 1, 1, 1, 1, 1, 1, 1, 1, 1, 1, 1, 0, 0, 0, 0]
    s.phase = .dead ∧ s.finished = true ∧ (s.thr 0).pc = .idle ∧ (s.thr 0).prog = [] ∧ s.uafDtor = false ∧
    (step (run (init true false (fun _ => []) (fun _ => []) [.quit] [] (fun k => if k = 0 then [.startLoop, .destroy] else []))
            [0, 1, 1, 1, 1, 1, 1, 1, 1, 1, 1, 1]) 0).out = some .startedNull := by
  decide +kernel

/-- a `quit()` that completes before `loop()` starts: the flag is still set when the loop tests it -/
example :
    let s := run (init false false (fun _ => []) (fun _ => []) [] [] (fun k => if k = 1 then [.quit] else [])) [1, 1, 0]
    s.qreq = true ∧ s.quit = true ∧ s.phase = .entered := by
  decide

open MuduoVerif.Pool in
/-- the pool: three workers, seven calls wrap twice; hash 4 picks worker 1 whatever the cursor is; no workers → base -/
example :
    nextSeq (start 3) 7 = [.worker 0, .worker 1, .worker 2, .worker 0, .worker 1, .worker 2, .worker 0] ∧
    getLoopForHash (afterNext (start 3) 5) 4 = .worker 1 ∧ nextSeq (start 0) 2 = [.base, .base] ∧
    getAllLoops (start 0) = [.base] := by
  decide

end MuduoVerif.C05

namespace MuduoVerif.C05

/-- **thread_start_join_tied**: the two places where `Model/Loop.lean` relies on `muduo::Thread` -
`EventLoopThread::startLoop` calls `thread_.start()` and then finds a thread that exists and runs `threadFunc`
(`stepIdle .startLoop`: `phase := .born`; `startLoop_owned`, `startLoop_terminates`), and `~EventLoopThread` waits in
`thread_.join()` exactly until that function has returned (`stepDJoin`: enabled iff `phase == .dead`;
`join_terminates`, `clean_shutdown`) - are what `Thread.cc` does: `start` = assert not started; `started_ = true`; a
fresh `ThreadData(func_, name_, &tid_, &latch_)`; `pthread_create(&pthreadId_, NULL, &startThread, data)`; on failure
`started_ = false`, `delete data`, `LOG_SYSFATAL` (abort), otherwise `latch_.wait()` and `assert(tid_ > 0)`;
`startThread` = `runInThread()`, `delete data`; `runInThread` publishes the tid, counts the latch down, and only THEN
calls the function (an exception ends the process); `join` = assert started, assert not joined, `joined_ = true`,
`pthread_join(pthreadId_, NULL)`; `~Thread` detaches only a started and never joined thread.  Statement skeletons
re-extracted from /repo on every run (`Generated/ThreadSkel.lean`), equal to `Model/ThreadSkelDecl.lean`.  The latch
the hand-shake uses and the mutex / condition under it are tied by `C14.primitives_tied`. -/
theorem thread_start_join_tied :
    Gen.ThreadSkel.threadCtor = ThreadSkel.Decl.threadCtor ∧
    Gen.ThreadSkel.setDefaultName = ThreadSkel.Decl.setDefaultName ∧
    Gen.ThreadSkel.threadStart = ThreadSkel.Decl.threadStart ∧
    Gen.ThreadSkel.threadDataCtor = ThreadSkel.Decl.threadDataCtor ∧
    Gen.ThreadSkel.startThread = ThreadSkel.Decl.startThread ∧
    Gen.ThreadSkel.runInThread = ThreadSkel.Decl.runInThread ∧
    Gen.ThreadSkel.threadJoin = ThreadSkel.Decl.threadJoin ∧
    Gen.ThreadSkel.threadDtor = ThreadSkel.Decl.threadDtor ∧
    Gen.ThreadSkel.latchWait = ThreadSkel.Decl.latchWait ∧
    Gen.ThreadSkel.latchCountDown = ThreadSkel.Decl.latchCountDown :=
  ⟨ThreadSkel.skeleton_threadCtor, ThreadSkel.skeleton_setDefaultName, ThreadSkel.skeleton_threadStart,
   ThreadSkel.skeleton_threadDataCtor, ThreadSkel.skeleton_startThread, ThreadSkel.skeleton_runInThread,
   ThreadSkel.skeleton_threadJoin, ThreadSkel.skeleton_threadDtor, ThreadSkel.skeleton_latchWait,
   ThreadSkel.skeleton_latchCountDown⟩

/-- **loopthread_statement_order_tied** (T1, statement order of what ends a loop and of what owns loop threads).
`EventLoop::quit`, every function of /repo's current `EventLoopThread.cc` and `EventLoopThreadPool.cc` have the statement
skeleton the steps of `Model/Loop.lean` / `Model/Pool.lean` assume (`Model/LoopSkelDecl.lean`; re-extracted on every run
by `vlib/gen/loopskel.py`, proved equal in `Proofs/LoopSkelTie.lean`), and the orders this property rests on hold of the
EXTRACTED skeletons: (b) `quit` stores the flag before `wakeup()`, which is called exactly off the loop thread; (g)
`threadFunc` publishes `loop_` and notifies inside the critical section, before `loop.loop()` (which runs outside it), and
clears `loop_`, sets `finished_` and notifies inside a critical section after it; `~EventLoopThread` calls `loop_->quit()`
inside the critical section only when `loop_ != NULL` and joins afterwards, outside it; `startLoop` starts the thread
before it waits, waits in `while (loop_ == NULL && !finished_)` inside the critical section and reads `loop_` there; (h)
`EventLoopThreadPool::start` sets `started_`, then per index in increasing order creates the thread, appends it to
`threads_`, and appends the result of its `startLoop()` to `loops_`; `cb(baseLoop_)` only under `numThreads_ == 0 && cb`;
`getNextLoop` reads `loops_[next_]` before it advances the cursor. -/
theorem loopthread_statement_order_tied :
    Gen.LoopSkel.quit = LoopSkel.Decl.quit ∧
    (Gen.LoopSkel.threadCtor = LoopSkel.Decl.threadCtor ∧
     Gen.LoopSkel.threadDtor = LoopSkel.Decl.threadDtor ∧
     Gen.LoopSkel.startLoop = LoopSkel.Decl.startLoop ∧
     Gen.LoopSkel.threadFunc = LoopSkel.Decl.threadFunc ∧
     Gen.LoopSkel.poolCtor = LoopSkel.Decl.poolCtor ∧
     Gen.LoopSkel.poolDtor = LoopSkel.Decl.poolDtor ∧
     Gen.LoopSkel.poolStart = LoopSkel.Decl.poolStart ∧
     Gen.LoopSkel.getNextLoop = LoopSkel.Decl.getNextLoop ∧
     Gen.LoopSkel.getLoopForHash = LoopSkel.Decl.getLoopForHash ∧
     Gen.LoopSkel.getAllLoops = LoopSkel.Decl.getAllLoops) ∧
    -- (b)
    (LoopSkel.before (.store "quit_" "true") (.call "wakeup" "") (LoopSkel.flat Gen.LoopSkel.quit) = true ∧
     LoopSkel.onlyUnder "!isInLoopThread()" (.call "wakeup" "") Gen.LoopSkel.quit = true) ∧
    -- (g) threadFunc
    (LoopSkel.inOrder [.assign "loop" "EventLoop()", .call "callback_" "&loop", .store "loop_" "&loop",
                       .call "cond_.notify" "", .call "loop.loop" "", .store "loop_" "NULL", .store "finished_" "true",
                       .call "cond_.notifyAll" ""] (LoopSkel.flat Gen.LoopSkel.threadFunc) = true ∧
     LoopSkel.insideLock "mutex_" (.store "loop_" "&loop") (LoopSkel.flat Gen.LoopSkel.threadFunc) = true ∧
     LoopSkel.insideLock "mutex_" (.call "cond_.notify" "") (LoopSkel.flat Gen.LoopSkel.threadFunc) = true ∧
     LoopSkel.outsideLock "mutex_" (.call "loop.loop" "") (LoopSkel.flat Gen.LoopSkel.threadFunc) = true ∧
     LoopSkel.insideLock "mutex_" (.store "loop_" "NULL") (LoopSkel.flat Gen.LoopSkel.threadFunc) = true ∧
     LoopSkel.insideLock "mutex_" (.store "finished_" "true") (LoopSkel.flat Gen.LoopSkel.threadFunc) = true ∧
     LoopSkel.insideLock "mutex_" (.call "cond_.notifyAll" "") (LoopSkel.flat Gen.LoopSkel.threadFunc) = true) ∧
    -- (g) ~EventLoopThread
    (LoopSkel.insideLock "mutex_" (.call "loop_.quit" "") (LoopSkel.flat Gen.LoopSkel.threadDtor) = true ∧
     LoopSkel.onlyUnder "loop_ != NULL" (.call "loop_.quit" "") Gen.LoopSkel.threadDtor = true ∧
     LoopSkel.inOrder [.store "exiting_" "true", .call "loop_.quit" "", .call "unlock" "mutex_", .call "thread_.join" ""]
       (LoopSkel.flat Gen.LoopSkel.threadDtor) = true ∧
     LoopSkel.outsideLock "mutex_" (.call "thread_.join" "") (LoopSkel.flat Gen.LoopSkel.threadDtor) = true) ∧
    -- (g) startLoop
    (LoopSkel.inOrder [.call "thread_.start" "", .call "cond_.wait" "", .assign "loop" "loop_", .ret "loop"]
       (LoopSkel.flat Gen.LoopSkel.startLoop) = true ∧
     LoopSkel.insideLock "mutex_" (.call "cond_.wait" "") (LoopSkel.flat Gen.LoopSkel.startLoop) = true ∧
     LoopSkel.insideLock "mutex_" (.assign "loop" "loop_") (LoopSkel.flat Gen.LoopSkel.startLoop) = true ∧
     LoopSkel.loopBody .whileDo "loop_ == NULL && !finished_" Gen.LoopSkel.startLoop = [.act (.call "cond_.wait" "")]) ∧
    -- (h)
    (LoopSkel.flat (LoopSkel.loopBody .forDo "i = 0; i < numThreads_; ++i" Gen.LoopSkel.poolStart) =
       [.sys "snprintf" "buf, sizeof(buf), \"%s%d\", name_.c_str(), i", .assign "t" "new EventLoopThread(cb, buf)",
        .call "threads_.push_back" "t", .call "t.startLoop" "", .call "loops_.push_back" "<result>"] ∧
     LoopSkel.inOrder [.call "baseLoop_.assertInLoopThread" "", .store "started_" "true",
                       .assign "t" "new EventLoopThread(cb, buf)", .call "threads_.push_back" "t", .call "t.startLoop" "",
                       .call "loops_.push_back" "<result>"] (LoopSkel.flat Gen.LoopSkel.poolStart) = true ∧
     LoopSkel.onlyUnder "numThreads_ == 0 && cb" (.call "cb" "baseLoop_") Gen.LoopSkel.poolStart = true ∧
     LoopSkel.inOrder [.assign "loop" "baseLoop_", .assign "loop" "loops_[next_]", .store "next_" "next_ + 1",
                       .store "next_" "0", .ret "loop"] (LoopSkel.flat Gen.LoopSkel.getNextLoop) = true) :=
  ⟨LoopSkel.skeleton_quit, LoopSkel.skeletons_agree_thread_pool, LoopSkel.quit_store_precedes_wakeup,
   ⟨LoopSkel.threadFunc_order.1, LoopSkel.threadFunc_order.2.1, LoopSkel.threadFunc_order.2.2.1,
    LoopSkel.threadFunc_order.2.2.2.1, LoopSkel.threadFunc_order.2.2.2.2.2.1, LoopSkel.threadFunc_order.2.2.2.2.2.2.1,
    LoopSkel.threadFunc_order.2.2.2.2.2.2.2.1⟩,
   ⟨LoopSkel.threadDtor_order.1, LoopSkel.threadDtor_order.2.1, LoopSkel.threadDtor_order.2.2.1,
    LoopSkel.threadDtor_order.2.2.2.1⟩,
   ⟨LoopSkel.startLoop_order.1, LoopSkel.startLoop_order.2.2.1, LoopSkel.startLoop_order.2.2.2.1,
    LoopSkel.startLoop_order.2.2.2.2.1⟩,
   ⟨LoopSkel.poolStart_order.2.1, LoopSkel.poolStart_order.2.2.1, LoopSkel.poolStart_order.2.2.2,
    LoopSkel.pool_selectors.1⟩⟩

end MuduoVerif.C05
