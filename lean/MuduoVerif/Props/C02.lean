import MuduoVerif.Proofs.ConnLifeTrace
import MuduoVerif.Proofs.ConnProgress
import MuduoVerif.Proofs.OwnerStrand
import MuduoVerif.Proofs.ConnSkelTie
import MuduoVerif.Proofs.SysSkelTie
import MuduoVerif.Proofs.OwnerSkelTie
/-!
# C02 — each connection gets exactly one UP, then messages, then exactly one DOWN; clean destruction

Property theorems only (helper lemmas: `Proofs/ConnLife.lean`, `Proofs/ConnLifeTrace.lean`).
Statements are about every history of the connection model (`Model/Conn.lean`): any
configuration (`Fresh`: poller back-end, build flavour, callbacks set or not, marks), any sequence
of user operations on the loop thread or on other threads (`Input.act`), operations performed
from inside callbacks (`hooks`), any poll results, any read/write results (faults included), any
timer firings, owner destruction - in any order and of any length.

Single connection on its loop: the hand-over between the acceptor loop and an io loop
(`TcpServer::removeConnection` → `removeConnectionInLoop`) is collapsed into the close callback
queueing `connectDestroyed`; callbacks run on the loop thread by construction of the model
(`foreign_act_silent` is the part that is a theorem), the observed thread ids are compared by the
correspondence run.
-/
namespace MuduoVerif.C02
open MuduoVerif.Conn MuduoVerif.Gen.Conn

/-- the state reached by a history: hand-over (`connectEstablished`), then any inputs -/
abbrev reach (c0 : Conn) (ins : List Input) : Conn := run (step c0 .establish) ins

theorem life (c0 : Conn) (h0 : Fresh c0) (ins : List Input) (hne : ∀ i ∈ ins, i.notEstablish) :
    LifeInv (reach c0 ins) := (reach_all c0 h0 ins hne).2.1

section
variable (c0 : Conn) (h0 : Fresh c0) (ins : List Input) (hne : ∀ i ∈ ins, i.notEstablish)
include h0 hne

/-- **updown**: in every history the connection callback reports UP exactly once and DOWN at most
once, the descriptor is closed at most once, and nothing aborts or touches a dead object -/
theorem updown :
    cnt isUpEv (reach c0 ins).trace = 1 ∧ cnt isDownEv (reach c0 ins).trace ≤ 1 ∧
    cnt isCloseEv (reach c0 ins).trace ≤ 1 ∧ cnt isBadEv (reach c0 ins).trace = 0 := by
  have hl := life c0 h0 ins hne
  obtain ⟨h1, h2, h3, h4, _⟩ := life_counts _ _ hl.life
  have hne' : phaseOf (reach c0 ins) ≠ .init := by
    unfold phaseOf; split
    · simp
    · have := hl.established
      cases hs : (reach c0 ins).st <;> simp_all
  refine ⟨by rw [h1, if_neg hne'], ?_, ?_, h4⟩
  · rw [h2]; split <;> omega
  · rw [h3]; split <;> omega

/-- **message callbacks lie between UP and DOWN**: whenever the message callback runs, UP has been
reported before and DOWN has not -/
theorem msg_between (pre post : List Ev) (n : Nat) (h : UInt64)
    (ht : (reach c0 ins).trace = pre ++ .msg n h :: post) :
    cnt isUpEv pre = 1 ∧ cnt isDownEv pre = 0 := by
  have hl := (life c0 h0 ins hne).life
  rw [ht] at hl
  obtain ⟨q, q', hq, hs⟩ := accepted_letter _ _ _ _ hl
  obtain ⟨h1, h2, _⟩ := life_counts _ _ hq
  cases q <;> simp [lifeStep] at hs
  simp [h1, h2]

/-- DOWN is reported only after UP (and not twice) -/
theorem down_after_up (pre post : List Ev) (ht : (reach c0 ins).trace = pre ++ .down :: post) :
    cnt isUpEv pre = 1 ∧ cnt isDownEv pre = 0 := by
  have hl := (life c0 h0 ins hne).life
  rw [ht] at hl
  obtain ⟨q, q', hq, hs⟩ := accepted_letter _ _ _ _ hl
  obtain ⟨h1, h2, _⟩ := life_counts _ _ hq
  cases q <;> simp [lifeStep] at hs
  simp [h1, h2]

/-- the descriptor is closed only after DOWN was reported -/
theorem close_after_down (pre post : List Ev) (ht : (reach c0 ins).trace = pre ++ .sysClose :: post) :
    cnt isDownEv pre = 1 ∧ cnt isCloseEv pre = 0 := by
  have hl := (life c0 h0 ins hne).life
  rw [ht] at hl
  obtain ⟨q, q', hq, hs⟩ := accepted_letter _ _ _ _ hl
  obtain ⟨_, h2, h3, _⟩ := life_counts _ _ hq
  cases q <;> simp [lifeStep] at hs
  simp [h2, h3]

/-- DOWN has been reported exactly when the connection is in state `kDisconnected` -/
theorem down_iff_disconnected :
    cnt isDownEv (reach c0 ins).trace = 1 ↔ (reach c0 ins).st = .kDisconnected := by
  have hl := life c0 h0 ins hne
  obtain ⟨_, h2, _⟩ := life_counts _ _ hl.life
  rw [h2]
  unfold phaseOf
  cases ha : (reach c0 ins).alive
  · have hd := hl.ownerGone (hl.gone ha).2.1
    simp [hd]
  · cases hs : (reach c0 ins).st <;> simp

/-- **destroy_clean**: once the object is destroyed it is in state `kDisconnected`, its channel is
not registered with the poller, DOWN was reported, and the descriptor was closed exactly once;
as long as the object lives its descriptor is open -/
theorem destroy_clean :
    ((reach c0 ins).alive = false →
      (reach c0 ins).st = .kDisconnected ∧ (reach c0 ins).registered = false ∧
      cnt isDownEv (reach c0 ins).trace = 1 ∧ cnt isCloseEv (reach c0 ins).trace = 1) ∧
    ((reach c0 ins).alive = true → cnt isCloseEv (reach c0 ins).trace = 0) := by
  have hl := life c0 h0 ins hne
  obtain ⟨_, h2, h3, _⟩ := life_counts _ _ hl.life
  constructor
  · intro ha
    obtain ⟨g1, g2, _⟩ := hl.gone ha
    refine ⟨hl.ownerGone g2, g1, ?_, ?_⟩
    · rw [h2]; simp [phaseOf, ha]
    · rw [h3]; simp [phaseOf, ha]
  · intro ha
    rw [h3]; unfold phaseOf; simp only [ha]
    cases hs : (reach c0 ins).st <;> simp

/-- the descriptor is never closed while the channel is registered with a poller -/
theorem not_closed_while_registered (hr : (reach c0 ins).registered = true) :
    cnt isCloseEv (reach c0 ins).trace = 0 := by
  have hl := life c0 h0 ins hne
  cases ha : (reach c0 ins).alive
  · have := (hl.gone ha).1; rw [hr] at this; cases this
  · exact (destroy_clean c0 h0 ins hne).2 ha

/-- once the owner let go of the connection (close callback, or owner destroyed) while the
channel is still registered, the functor that unregisters it is in the loop's queue -/
theorem unregister_pending (ha : (reach c0 ins).alive = true) (ho : (reach c0 ins).owner = false)
    (hr : (reach c0 ins).registered = true) : Task.connectDestroyed ∈ (reach c0 ins).queue :=
  (life c0 h0 ins hne).reg ha ho hr

end

/-- **no_leak**: after every loop iteration, a connection that the owner has released and that no
queued functor keeps alive is destroyed (object freed, descriptor closed) -/
theorem no_leak (c : Conn) (a : List Src) :
    (iter c a).dead = false → (iter c a).owner = false → (iter c a).queue.any Task.strong = false →
    (iter c a).alive = false := by
  unfold iter
  split
  · rename_i hd; intro h; simp_all
  · simp only
    split
    · rename_i hd; intro h; simp_all
    · unfold maybeDestroy
      split
      · split
        · intro h; simp [emit] at h
        · split
          · intro h; simp [emit] at h
          · intro _ _ _; simp [emit]
      · rename_i hc
        intro _ ho hq
        simp only [Conn.queue] at hq
        cases hal : (drainPending (List.foldl dispatch c a)).alive
        · rfl
        · simp [hal, ho, hq] at hc

/-- **no_leak, progress form**: a connection its owner has released (close callback ran, or the
owner was destroyed) is destroyed by the very next loop iteration, whatever events arrive in it:
object freed, descriptor closed exactly once, DOWN reported exactly once, nothing aborts -/
theorem released_is_destroyed (c0 : Conn) (h0 : Fresh c0) (ins : List Input) (hne : ∀ i ∈ ins, i.notEstablish)
    (a : List Src) (ho : (reach c0 ins).owner = false) (ha : (reach c0 ins).alive = true) :
    (iter (reach c0 ins) a).alive = false ∧
    cnt isCloseEv (iter (reach c0 ins) a).trace = 1 ∧ cnt isDownEv (iter (reach c0 ins) a).trace = 1 ∧
    cnt isBadEv (iter (reach c0 ins) a).trace = 0 :=
  ⟨Conn.released_is_destroyed _ a (life c0 h0 ins hne) ho ha,
   Conn.released_closes_descriptor _ a (life c0 h0 ins hne) ho ha⟩

/-- `forceClose()` on any thread, at any moment of any history: two loop iterations later (whatever
events arrive in them) the connection object is destroyed, with exactly one DOWN, exactly one
`close` of the descriptor and no abort -/
theorem forceClose_destroys (c0 : Conn) (h0 : Fresh c0) (ins : List Input) (hne : ∀ i ∈ ins, i.notEstablish)
    (f : Bool) (a1 a2 : List Src) :
    (iter (iter (act (reach c0 ins) f .forceClose) a1) a2).alive = false ∧
    cnt isDownEv (iter (iter (act (reach c0 ins) f .forceClose) a1) a2).trace = 1 ∧
    cnt isCloseEv (iter (iter (act (reach c0 ins) f .forceClose) a1) a2).trace = 1 ∧
    cnt isBadEv (iter (iter (act (reach c0 ins) f .forceClose) a1) a2).trace = 0 :=
  ⟨Conn.forceClose_destroys _ f a1 a2 (life c0 h0 ins hne) (reach_downRel c0 h0 ins hne),
   Conn.forceClose_closes_descriptor _ f a1 a2 (life c0 h0 ins hne) (reach_downRel c0 h0 ins hne)⟩

/-- operations issued from other threads never run a callback on the caller's thread: they only
flip the state word and queue work for the loop (affinity of callbacks to the loop thread) -/
theorem foreign_act_silent (c : Conn) (a : Act) : (act c true a).trace = c.trace := by
  cases a <;> simp only [act, handOff, Bool.true_or, if_true] <;> (repeat' split) <;> rfl

/-- non-vacuity: a history with a message, a forced close from another thread and the destruction -/
example :
    let ins : List Input := [.peerWrite [7], .envRead (.got 1), .iter [.conn 1], .act true .forceClose, .iter [], .iter []]
    Fresh ({} : Conn) ∧ (∀ i ∈ ins, i.notEstablish) ∧
    (reach {} ins).alive = false ∧
    (reach {} ins).trace.filter (fun e => isUpEv e || isDownEv e || isMsgEv e || isCloseEv e) =
      [.up, .msg 1 (fnv64 [7]), .down, .sysClose] := by
  refine ⟨fresh_default .epoll true true true _ _ [] [] [], ?_, ?_, ?_⟩
  · intro i hi; simp only [List.mem_cons, List.not_mem_nil, or_false] at hi
    rcases hi with h | h | h | h | h | h <;> rw [h] <;> trivial
  · decide
  · decide

/-- T1, statement order: in every `TcpConnection` member function the model implements (and in
`Channel::handleEventWithGuard`) the source performs the same significant actions - state stores, channel
operations, callbacks, hand-offs to the loop, member calls, system calls, buffer operations - in the same order
and under the same nesting of the generated guards as `Model/Conn.lean` (`Model/ConnSkelDecl.lean`); re-extracted
from /repo on every run (`Generated/ConnSkel.lean`), proved in `Proofs/ConnSkelTie.lean` -/
theorem statement_order_tied :
    Gen.ConnSkel.sendInLoop = ConnSkel.Decl.sendInLoop ∧
    Gen.ConnSkel.shutdown = ConnSkel.Decl.shutdown ∧
    Gen.ConnSkel.shutdownInLoop = ConnSkel.Decl.shutdownInLoop ∧
    Gen.ConnSkel.forceClose = ConnSkel.Decl.forceClose ∧
    Gen.ConnSkel.forceCloseWithDelay = ConnSkel.Decl.forceCloseWithDelay ∧
    Gen.ConnSkel.forceCloseInLoop = ConnSkel.Decl.forceCloseInLoop ∧
    Gen.ConnSkel.startReadInLoop = ConnSkel.Decl.startReadInLoop ∧
    Gen.ConnSkel.stopReadInLoop = ConnSkel.Decl.stopReadInLoop ∧
    Gen.ConnSkel.connectEstablished = ConnSkel.Decl.connectEstablished ∧
    Gen.ConnSkel.connectDestroyed = ConnSkel.Decl.connectDestroyed ∧
    Gen.ConnSkel.handleRead = ConnSkel.Decl.handleRead ∧
    Gen.ConnSkel.handleWrite = ConnSkel.Decl.handleWrite ∧
    Gen.ConnSkel.handleClose = ConnSkel.Decl.handleClose ∧
    Gen.ConnSkel.handleError = ConnSkel.Decl.handleError ∧
    Gen.ConnSkel.handleEventWithGuard = ConnSkel.Decl.handleEventWithGuard :=
  ConnSkel.skeletons_agree

end MuduoVerif.C02

/-!
## The multi-loop ownership protocol of `TcpServer`

Model: `Model/Owner.lean` (acceptor loop + `L` io loops as FIFO functor queues, any number of connections, every
interleaving; hand-offs, name construction, life token and final drain from `Generated/Owner.lean`).  Invariant and its
preservation: `Proofs/Owner*.lean`.  Hypothesis, stated explicitly: connection names are distinct (`Function.Injective
nameOf`; negation witness `owner_name_collision_witness`; `owner_name_buffer_fits` for the code's side).  That no
`EventLoop` object is destroyed while a `connectEstablished` / `connectDestroyed` functor is stranded in its queue
(`GoodSched`) is a theorem for the code as it is (`owner_goodSched`: final drain, repeated until empty); negation witnesses
for the two earlier shapes: `server_destruction_needs_drain` (no drain, F10), `owner_stranded_witness` (one drain, F29).
-/
namespace MuduoVerif.C02
open MuduoVerif.Owner MuduoVerif.Gen.Owner
open MuduoVerif.Gen.Conn (StateE)

/-- the state of the TcpServer ownership model (`Model/Owner.lean`) a schedule leads to: `L` io loops, any number of
connections, every interleaving of the loops, the user's calls and the destruction of the server -/
abbrev oreach (L : Nat) (nameOf : Nat → Nat) (as : List Action) : Srv := Owner.run (Owner.init L nameOf) as

section owner
variable (L : Nat) (nameOf : Nat → Nat) (hinj : Function.Injective nameOf) (as : List Action)
include hinj

/-- **no schedule strands a functor**: the code drains a loop's functor queue when the loop leaves `loop()`, repeatedly
until it is empty (`Generated/Owner.lean: finalDrain, finalDrainRepeats`, read from `EventLoop::loop`); hence no schedule
whatsoever destroys an `EventLoop` object with a `connectEstablished` / `connectDestroyed` functor left in its queue
(negation witnesses for a missing / a single drain: `server_destruction_needs_drain`, `owner_stranded_witness`) -/
theorem owner_goodSched : GoodSched (Owner.init L nameOf) as :=
  goodSched_all as _ (ginv_init L nameOf) (xinv_init L nameOf) (fun h => by simp [Owner.init] at h) hinj rfl rfl

/-- the invariant of the ownership protocol holds in every reachable state -/
theorem owner_inv : GInv (oreach L nameOf as) :=
  ginv_run as _ (ginv_init L nameOf) hinj (owner_goodSched L nameOf hinj as)

/-- **owner_updown**: for every connection of a `TcpServer` with any number of io loops, in every interleaving: it is
announced (`newConnection`) once, the connection callback reports UP at most once and only after that, DOWN at most once,
message callbacks and DOWN only between UP and DOWN, no assertion fails; UP has been reported exactly when the state has
left `kConnecting`, DOWN exactly when it is `kDisconnected` -/
theorem owner_updown (c : Nat) (hc : c < (oreach L nameOf as).n) :
    let s := oreach L nameOf as
    cntK c .new s.trace = 1 ∧ cntK c .up s.trace ≤ 1 ∧ cntK c .down s.trace ≤ 1 ∧ cntK c .abort s.trace = 0 ∧
    (cntK c .up s.trace = 1 ↔ (s.conn c).st ≠ .kConnecting) ∧ (cntK c .down s.trace = 1 ↔ (s.conn c).st = .kDisconnected) ∧
    ∀ pre e post, s.trace = pre ++ e :: post → e.conn = c →
      (e.kind = .up → cntK c .new pre = 1 ∧ cntK c .up pre = 0) ∧
      (e.kind = .msg → cntK c .up pre = 1 ∧ cntK c .down pre = 0) ∧
      (e.kind = .down → cntK c .up pre = 1 ∧ cntK c .down pre = 0) := by
  intro s
  have hi : CInv s c := (owner_inv L nameOf hinj as).conns c hc
  obtain ⟨a, ha, hb, hcb, hd, hdead, her⟩ := hi.core.life
  obtain ⟨h1, h2, h3, h4, h5, h6, h7, h8, h9, h10⟩ := Owner.life_counts c _ a ha
  refine ⟨by rw [h1, hb]; rfl, by rw [h2]; split <;> omega, by rw [h3]; split <;> omega, h7, ?_, ?_, ?_⟩
  · rw [h2, hcb]; cases hs : (s.conn c).st <;> simp [clsOf]
  · rw [h3, hcb]; cases hs : (s.conn c).st <;> simp [clsOf]
  · intro pre e post htr hec
    rw [htr] at ha
    obtain ⟨q, q', hq, hstep⟩ := Owner.life_letter c pre post e a ha hec
    obtain ⟨g1, g2, g3, _⟩ := Owner.life_counts c pre q hq
    refine ⟨fun hk => ?_, fun hk => ?_, fun hk => ?_⟩ <;> rw [hk] at hstep <;> simp only [autoStep] at hstep <;>
      split at hstep <;> simp_all [b2n]

/-- **DOWN exactly once**: once a close cause has occurred (the peer's close was seen, `forceClose()` was accepted, the
server was destroyed) and the loops have run their queues, the connection has had exactly one UP and exactly one DOWN -/
theorem owner_down_once (c : Nat) (hc : c < (oreach L nameOf as).n) (hq : (oreach L nameOf as).quiet)
    (hcause : ((oreach L nameOf as).conn c).cause = true) :
    cntK c .up (oreach L nameOf as).trace = 1 ∧ cntK c .down (oreach L nameOf as).trace = 1 := by
  have hi := (owner_inv L nameOf hinj as).conns c hc
  have hst : ((oreach L nameOf as).conn c).st = .kDisconnected := by
    rcases hi.cause hcause with h | h | h
    · exact h
    · rw [(hq _).1] at h; cases h
    · rw [(hq _).1] at h; cases h
  obtain ⟨_, _, _, _, h5, h6, _⟩ := owner_updown L nameOf hinj as c hc
  exact ⟨h5.mpr (by rw [hst]; decide), h6.mpr hst⟩

/-- **owner_affinity**: every callback of a connection (UP, message, DOWN, close callback) and its `connectDestroyed` run
on the loop the connection was assigned to; the map is touched (`newConnection`, `removeConnectionInLoop`) on the base
loop only; no `assertInLoopThread()` / `assert(n == 1)` fails and no functor runs on a destroyed server -/
theorem owner_affinity (e : Ev) (he : e ∈ (oreach L nameOf as).trace) :
    (e.kind = .up ∨ e.kind = .msg ∨ e.kind = .down ∨ e.kind = .closeCb ∨ e.kind = .destroyed →
      e.loop = ((oreach L nameOf as).conn e.conn).loop) ∧
    (e.kind = .new ∨ e.kind = .erase → e.loop = 0) ∧
    e.kind ≠ .abort ∧ e.kind ≠ .eraseMiss ∧ e.kind ≠ .uaf := by
  have hg := owner_inv L nameOf hinj as
  have haff := hg.rest.aff e he
  have hbad : e.kind ≠ .abort ∧ e.kind ≠ .eraseMiss ∧ e.kind ≠ .uaf := by
    by_cases hc : e.conn < (oreach L nameOf as).n
    · obtain ⟨a, ha, _⟩ := (hg.conns e.conn hc).core.life
      obtain ⟨pre, post, hsplit⟩ := List.append_of_mem he
      rw [hsplit] at ha
      obtain ⟨q, q', _, hstep⟩ := Owner.life_letter e.conn pre post e a ha rfl
      refine ⟨fun hk => ?_, fun hk => ?_, fun hk => ?_⟩ <;> rw [hk] at hstep <;> simp [autoStep] at hstep
    · exact absurd rfl (no_event_of_life_init e.conn _ (hg.fresh e.conn (by omega)).2.1 e he)
  refine ⟨fun hk => ?_, fun hk => ?_, hbad⟩
  · unfold AffOK at haff
    rcases hk with h | h | h | h | h <;> rw [h] at haff <;> exact haff
  · unfold AffOK at haff
    rcases hk with h | h <;> rw [h] at haff <;> exact haff

/-- **round_robin**: the `i`-th accepted connection is served by io loop `i mod L` (index `i mod L + 1`), by the base loop
when there are no io loops -/
theorem round_robin (c : Nat) (hc : c < (oreach L nameOf as).n) :
    ((oreach L nameOf as).conn c).loop = if L = 0 then 0 else c % L + 1 := by
  have h := (owner_inv L nameOf hinj as).rest.assigned c hc
  have hL : (oreach L nameOf as).L = L := by
    have : ∀ (as : List Action) (s : Srv), (Owner.run s as).L = s.L := by
      intro as; induction as with
      | nil => intro s; rfl
      | cons a as ih => intro s; exact (ih (step s a)).trans (same_step s a).1
    exact this as _
  rw [hL] at h; exact h

/-- **owner_map**: the map holds exactly the connections that were accepted and not yet erased, as long as the server
exists; every key is the name of its connection; `erase` finds its entry (`assert(n == 1)` never fails), at most once per
connection and only after DOWN -/
theorem owner_map (c : Nat) :
    let s := oreach L nameOf as
    (s.inMap c = true ↔ c < s.n ∧ cntK c .erase s.trace = 0 ∧ s.alive = true) ∧
    cntK c .erase s.trace ≤ 1 ∧ cntK c .eraseMiss s.trace = 0 ∧
    (∀ e ∈ s.map, e.1 = nameOf (idInitial + e.2 * idStep)) ∧
    (∀ pre e post, s.trace = pre ++ e :: post → e.conn = c → e.kind = .erase → cntK c .down pre = 1 ∧ cntK c .erase pre = 0) := by
  intro s
  have hg : GInv s := owner_inv L nameOf hinj as
  have hN : s.nameOf = nameOf := by
    have : ∀ (as : List Action) (s : Srv), (Owner.run s as).nameOf = s.nameOf := by
      intro as; induction as with
      | nil => intro s; rfl
      | cons a as ih => intro s; exact (ih (step s a)).trans (same_step s a).2.1
    exact this as _
  have hkeys : ∀ e ∈ s.map, e.1 = nameOf (idInitial + e.2 * idStep) := by
    intro e he
    rw [hg.mapOK.keys e he, (hg.conns e.2 (hg.mapOK.lt e he)).core.name, hN]
  by_cases hc : c < s.n
  · have hi := hg.conns c hc
    obtain ⟨a, ha, hb, hcb, hd, hdead, her⟩ := hi.core.life
    obtain ⟨h1, h2, h3, h4, h5, h6, h7, h8, h9, h10⟩ := Owner.life_counts c _ a ha
    refine ⟨?_, by rw [h4]; unfold b2n; split <;> omega, h8, hkeys, ?_⟩
    · constructor
      · intro him
        have hsa : s.alive = true := by
          cases hs : s.alive with
          | true => rfl
          | false => have := hg.rest.mapDead hs; simp [Srv.inMap, this] at him
        refine ⟨hc, ?_, hsa⟩
        rw [h4, her hsa, him]; rfl
      · rintro ⟨_, h0, hsa⟩
        rw [h4, her hsa] at h0
        cases him : s.inMap c with
        | true => rfl
        | false => rw [him] at h0; simp [b2n] at h0
    · intro pre e post htr hec hk
      rw [htr] at ha
      obtain ⟨q, q', hq, hstep⟩ := Owner.life_letter c pre post e a ha hec
      obtain ⟨_, _, g3, g4, _⟩ := Owner.life_counts c pre q hq
      rw [hk] at hstep; simp only [autoStep] at hstep
      split at hstep <;> simp_all [b2n]
  · have hfr := hg.fresh c (by omega)
    have hno := no_event_of_life_init c _ hfr.2.1
    have hz : ∀ k, cntK c k s.trace = 0 := by
      intro k; unfold cntK; rw [List.length_eq_zero_iff, List.filter_eq_nil_iff]
      intro e he; simp [hno e he]
    refine ⟨?_, by rw [hz]; omega, hz _, hkeys, ?_⟩
    · rw [inMap_ge s hg.mapOK c (by omega)]; simp [hc]
    · intro pre e post htr hec
      exact absurd hec (hno e (by rw [htr]; simp))

/-- **owner_destroy_clean**: a connection object is destroyed only in state `kDisconnected`, with its channel removed from
the poller, after DOWN and after `connectDestroyed`; the descriptor is open as long as the object lives and is closed by
the destructor, which runs at most once -/
theorem owner_destroy_clean (c : Nat) (hc : c < (oreach L nameOf as).n) :
    let s := oreach L nameOf as
    ((s.conn c).alive = false → (s.conn c).st = .kDisconnected ∧ (s.conn c).registered = false ∧ (s.conn c).fdOpen = false ∧
      cntK c .dtor s.trace = 1) ∧
    ((s.conn c).alive = true → (s.conn c).fdOpen = true ∧ cntK c .dtor s.trace = 0) ∧
    (∀ pre e post, s.trace = pre ++ e :: post → e.conn = c → e.kind = .dtor →
      cntK c .down pre = 1 ∧ cntK c .destroyed pre = 1 ∧ cntK c .dtor pre = 0) := by
  intro s
  have hg : GInv s := owner_inv L nameOf hinj as
  have hi := hg.conns c hc
  obtain ⟨a, ha, hb, hcb, hd, hdead, her⟩ := hi.core.life
  obtain ⟨h1, h2, h3, h4, h5, h6, _⟩ := Owner.life_counts c _ a ha
  refine ⟨fun hal => ?_, fun hal => ?_, ?_⟩
  · have hh : s.held c = false := by rw [← hi.alive_held]; exact hal
    obtain ⟨_, _, hst, hreg, _⟩ := row_of_not_held hi.core hh
    refine ⟨hst, hreg, by rw [hi.core.fd]; exact hal, ?_⟩
    rw [h6, hdead, hal]; rfl
  · refine ⟨by rw [hi.core.fd]; exact hal, ?_⟩
    rw [h6, hdead, hal]; rfl
  · intro pre e post htr hec hk
    rw [htr] at ha
    obtain ⟨q, q', hq, hstep⟩ := Owner.life_letter c pre post e a ha hec
    obtain ⟨_, _, g3, _, g5, g6, _⟩ := Owner.life_counts c pre q hq
    rw [hk] at hstep; simp only [autoStep] at hstep
    split at hstep
    · rename_i hcond
      simp only [Bool.and_eq_true, Bool.not_eq_true'] at hcond
      have hw := (Owner.life_wf c pre q hq).1 hcond.1
      rw [g3, g5, g6, hw, hcond.1, hcond.2]; simp [b2n]
    · cases hstep

/-- **owner_no_leak**: when every loop has run its queue, a close cause has occurred and user code holds no reference, the
connection object is destroyed (and, by `owner_destroy_clean`, its descriptor closed) -/
theorem owner_no_leak (c : Nat) (hc : c < (oreach L nameOf as).n) (hq : (oreach L nameOf as).quiet)
    (hcause : ((oreach L nameOf as).conn c).cause = true) (hu : ((oreach L nameOf as).conn c).user = 0) :
    ((oreach L nameOf as).conn c).alive = false ∧ ((oreach L nameOf as).conn c).fdOpen = false := by
  have hg := owner_inv L nameOf hinj as
  have hi := hg.conns c hc
  have hst : ((oreach L nameOf as).conn c).st = .kDisconnected := by
    rcases hi.cause hcause with h | h | h
    · exact h
    · rw [(hq _).1] at h; cases h
    · rw [(hq _).1] at h; cases h
  have hio : ioQ (oreach L nameOf as) c = [] := by unfold ioQ; rw [(hq _).1]; rfl
  have hrem : remN (oreach L nameOf as) c = 0 := by unfold remN; rw [(hq _).1]; rfl
  have hrow := hi.core.row
  unfold RowP at hrow
  rw [hio, hrem] at hrow
  have him : (oreach L nameOf as).inMap c = false := by
    clear hq hio hrem hg hi
    rcases hrow with r|r|r|r|r|r|r|r|r <;> grind [isUp]
  have hinq : (oreach L nameOf as).inQueues c = false := by
    unfold Srv.inQueues
    rw [List.any_eq_false]
    intro l _
    rw [(hq l).1, (hq l).2]; simp
  have hal : ((oreach L nameOf as).conn c).alive = false := by
    rw [hi.alive_held]; unfold Srv.held; simp [him, hu, hinq]
  exact ⟨hal, by rw [hi.core.fd]; exact hal⟩

/-- **server_destruction**: once the `TcpServer` has been destroyed - on the base loop, while the io loops were running,
whatever was in flight (connections being established, closes on their way to the base loop, half-closed connections) -
and the loops have run their queues, every connection it ever accepted has had exactly one UP and exactly one DOWN, its
channel is removed, nothing ran on the destroyed server, and the object is destroyed unless user code still holds it -/
theorem server_destruction (hdead : (oreach L nameOf as).alive = false) (hq : (oreach L nameOf as).quiet)
    (c : Nat) (hc : c < (oreach L nameOf as).n) :
    let s := oreach L nameOf as
    cntK c .up s.trace = 1 ∧ cntK c .down s.trace = 1 ∧ cntK c .destroyed s.trace = 1 ∧ cntK c .uaf s.trace = 0 ∧
    (s.conn c).st = .kDisconnected ∧ (s.conn c).registered = false ∧
    ((s.conn c).user = 0 → (s.conn c).alive = false ∧ (s.conn c).fdOpen = false ∧ cntK c .dtor s.trace = 1) := by
  intro s
  have hg : GInv s := owner_inv L nameOf hinj as
  have hi := hg.conns c hc
  have hio : ioQ s c = [] := by unfold ioQ; rw [(hq _).1]; rfl
  have hrem : remN s c = 0 := by unfold remN; rw [(hq _).1]; rfl
  have hrow := hi.core.row
  unfold RowP at hrow
  rw [hio, hrem, hdead] at hrow
  have hr : (s.conn c).st = .kDisconnected ∧ (s.conn c).registered = false ∧ s.inMap c = false := by
    clear hq hio hrem hg hi
    rcases hrow with r|r|r|r|r|r|r|r|r <;> grind
  obtain ⟨hst, hreg, him⟩ := hr
  obtain ⟨a, ha, hb, hcb, hd, hdd, her⟩ := hi.core.life
  obtain ⟨h1, h2, h3, h4, h5, h6, h7, h8, h9, h10⟩ := Owner.life_counts c _ a ha
  refine ⟨by rw [h2, hcb, hst]; simp [clsOf], by rw [h3, hcb, hst]; simp [clsOf], by rw [h5, hd, hreg, hst]; rfl, h9, hst, hreg, ?_⟩
  intro hu
  have hinq : s.inQueues c = false := by
    unfold Srv.inQueues
    rw [List.any_eq_false]
    intro l _
    rw [(hq l).1, (hq l).2]; simp
  have hal : (s.conn c).alive = false := by
    rw [hi.alive_held]; unfold Srv.held; simp [him, hu, hinq]
  exact ⟨hal, by rw [hi.core.fd]; exact hal, by rw [h6, hdd, hal]; rfl⟩

/-- **server_destruction, reached**: the code drains a loop's functor queue once more when the loop leaves `loop()`
(`Generated/Owner.lean: finalDrain`, read from `EventLoop::loop`; `server_destruction_needs_drain` is the negation witness
without it).  Hence: once the server is destroyed, every io loop has left `loop()` (the pool is joined at the end of
`~TcpServer`) and the base loop has run what was queued to it, nothing is left to do, and every connection has had its one
UP and one DOWN and is destroyed unless user code holds it -/
theorem server_destruction_drained (hdead : (oreach L nameOf as).alive = false)
    (hio : ∀ l, 1 ≤ l → l ≤ L → (oreach L nameOf as).exited l = true)
    (hbase : (oreach L nameOf as).q 0 = [] ∧ (oreach L nameOf as).done 0 = [])
    (c : Nat) (hc : c < (oreach L nameOf as).n) :
    let s := oreach L nameOf as
    s.quiet ∧
    cntK c .up s.trace = 1 ∧ cntK c .down s.trace = 1 ∧ cntK c .destroyed s.trace = 1 ∧ cntK c .uaf s.trace = 0 ∧
    (s.conn c).st = .kDisconnected ∧ (s.conn c).registered = false ∧
    ((s.conn c).user = 0 → (s.conn c).alive = false ∧ (s.conn c).fdOpen = false ∧ cntK c .dtor s.trace = 1) := by
  intro s
  have hx : XInv s := xinv_run as _ (ginv_init L nameOf) hinj (owner_goodSched L nameOf hinj as) (xinv_init L nameOf)
  have hd : s.drain = true := by
    have : s.drain = (Owner.init L nameOf).drain := run_drain as _
    rw [this]; rfl
  have hL : s.L = L := by
    have : ∀ (as : List Action) (s : Srv), (Owner.run s as).L = s.L := by
      intro as; induction as with
      | nil => intro s; rfl
      | cons a as ih => intro s; exact (ih (step s a)).trans (same_step s a).1
    exact this as _
  have hq : s.quiet := quiet_of_exited s hx hd (fun l h1 h2 => hio l h1 (hL ▸ h2)) hbase
  exact ⟨hq, server_destruction L nameOf hinj as hdead hq c hc⟩

end owner

/-- **the name buffer is large enough** (the premise of `Function.Injective nameOf` on the code's side): the longest
suffix `newConnection` formats, `-[xxxx:xxxx:xxxx:xxxx:xxxx:xxxx:xxxx:xxxx]:65535#2147483647` (1 + 47 + 1 + 10
characters), fits the buffer that `snprintf` is given, so the decimal id - which distinguishes the names, `nextConnId_`
growing by one per connection - is never cut off -/
theorem owner_name_buffer_fits : 1 + 47 + 1 + 10 ≤ nameLimit - 1 ∧ nameLimit ≤ nameBufSize ∧ idStep = 1 ∧ idInitial = 1 := by
  decide

/-- **negation witness for `owner_map` / `owner_destroy_clean` without distinct names** (what a too small name buffer or an
id that is not incremented causes): two connections with the same name - the second `connections_[connName] = conn`
overwrites the entry of the first, whose object is destroyed while it is connected and its channel registered -/
theorem owner_name_collision_witness :
    let s := oreach 1 (fun _ => 0) [.accept, .accept, .run 1, .endBatch 1]
    (s.conn 0).alive = false ∧ (s.conn 0).st = .kConnected ∧ (s.conn 0).registered = true ∧ cntK 0 .down s.trace = 0 := by
  decide

/-- **negation witness for a final drain that runs only once** (the defect F29, repaired: `init` takes `drainRepeats`
from the source, `do { doPendingFunctors(); } while (queueSize() > 0)`): one loop serves the connection;
`forceCloseInLoop` runs in the drain at the exit of `loop()`, the `connectDestroyed` it causes is queued behind that drain
and is destroyed with the `EventLoop` object without having run: the schedule violates `GoodSched` and the connection is
destroyed with its channel still registered.  With the repeated drain the same schedule is fine. -/
theorem owner_stranded_witness :
    let as : List Action := [.accept, .forceClose 0 1, .exit 0, .destroy, .loopGone 0]
    let bad := Owner.run { Owner.init 0 id with drainRepeats := false } as
    let good := oreach 0 id as
    ¬ GoodSched { Owner.init 0 id with drainRepeats := false } as ∧
    ((bad.conn 0).alive = false ∧ (bad.conn 0).registered = true ∧ cntK 0 .destroyed bad.trace = 0) ∧
    (GoodSched (Owner.init 0 id) as ∧ (good.conn 0).alive = false ∧ (good.conn 0).registered = false ∧
      cntK 0 .down good.trace = 1 ∧ cntK 0 .destroyed good.trace = 1) := by
  refine ⟨?_, by decide, goodSched_of_goodB _ _ (by decide), by decide, by decide, by decide, by decide⟩
  intro h
  have := h.2.2.2.2.1 0 rfl (by decide) (.des 0) (by decide) 0
  exact this.2 rfl

/-- **negation witness for `server_destruction` without the final drain** (the defect F10, repaired: `init` takes `drain`
from the source): the server is destroyed while the io loop is between two functors; the loop leaves `loop()` without
running the `connectDestroyed` that `~TcpServer` queued; the functor dies with the `EventLoop`: the connection never gets
its DOWN and is destroyed connected, its channel registered. With the drain the same schedule ends with exactly one DOWN
and a clean destruction. -/
theorem server_destruction_needs_drain :
    let as : List Action := [.accept, .run 1, .endBatch 1, .destroy, .exit 1, .loopGone 1]
    let bad := Owner.run { Owner.init 1 id with drain := false } as
    let good := Owner.run { Owner.init 1 id with drain := true } as
    (cntK 0 .down bad.trace = 0 ∧ (bad.conn 0).alive = false ∧ (bad.conn 0).st = .kConnected ∧ (bad.conn 0).registered = true) ∧
    (cntK 0 .up good.trace = 1 ∧ cntK 0 .down good.trace = 1 ∧ (good.conn 0).alive = false ∧ (good.conn 0).st = .kDisconnected ∧
      (good.conn 0).registered = false ∧ cntK 0 .dtor good.trace = 1) := by
  decide

/-- non-vacuity: two io loops, three connections (peer close, `forceClose()` from another thread with a user reference
held across it, server destroyed inside the base loop while the third is up and the first one's
`removeConnectionIfAlive` is still on its way), a schedule that satisfies `GoodSched` and ends quiet -/
theorem owner_example :
    let as : List Action := [.accept, .accept, .accept, .run 1, .run 2, .run 1, .endBatch 1, .endBatch 2, .msg 0, .hold 1,
      .forceClose 1 3, .run 2, .endBatch 2, .postDestroy, .close 0, .run 0, .run 0, .run 0, .endBatch 0, .exit 1, .loopGone 1,
      .exit 2, .loopGone 2, .drop 1 3, .exit 0, .loopGone 0]
    let s := Owner.run (Owner.init 2 id) as
    GoodSched (Owner.init 2 id) as ∧ Function.Injective (id : Nat → Nat) ∧ s.n = 3 ∧ s.alive = false ∧
    (∀ l, l < 4 → s.q l = [] ∧ s.done l = []) ∧
    (∀ c, c < 3 → (s.conn c).alive = false ∧ cntK c .up s.trace = 1 ∧ cntK c .down s.trace = 1) ∧
    s.trace.map (fun e => (e.conn, e.kind, e.loop)) =
      [(0, .new, 0), (1, .new, 0), (2, .new, 0), (0, .up, 1), (1, .up, 2), (2, .up, 1), (0, .msg, 1),
       (1, .down, 2), (1, .closeCb, 2), (0, .down, 1), (0, .closeCb, 1), (1, .erase, 0), (0, .destroyed, 1), (2, .down, 1),
       (2, .destroyed, 1), (0, .dtor, 1), (2, .dtor, 1), (1, .destroyed, 2), (1, .dtor, 3)] := by
  refine ⟨?_, fun _ _ h => h, by decide, by decide, by decide, by decide, ?_⟩
  · exact goodSched_of_goodB _ _ (by decide)
  · decide

/-! ## T1, the descriptor of a connection -/

/-- T1, `~Socket` closes the descriptor exactly once.  `Conn.maybeDestroy` emits ONE `.sysClose` when the last reference to
a connection goes away (`close_once`, `no_leak`, `destroy_clean` count that event); in /repo's current sources
(`Generated/SysSkel.lean`, re-extracted on every run; `Proofs/SysSkelTie.lean`) `Socket::Socket` only stores the
descriptor it is given, `Socket::~Socket` is one call of `sockets::close(sockfd_)` and nothing else, and
`sockets::close` is one `::close` of that descriptor whose failure is only logged - no second `close`, no other system
call on the way. -/
theorem socket_dtor_closes_once :
    Gen.SysSkel.socketCtor = [.act (.store "sockfd_" "sockfd")] ∧
    Gen.SysSkel.socketFd = [.act (.ret "sockfd_")] ∧
    Gen.SysSkel.socketDtor = [.act (.call "sockets::close" "sockfd_")] ∧
    Gen.SysSkel.socketsClose =
      [.act (.sys "close" "sockfd"), .ite "<result> < 0" [.act (.log .syserr)] []] :=
  ⟨SysSkel.skeleton_socketCtor, SysSkel.skeleton_socketFd, SysSkel.skeleton_socketDtor, SysSkel.skeleton_socketsClose⟩

/-! ## T1, statement order of `TcpServer.cc` -/

/-- T1, the statement order of every function of `TcpServer.cc` is the one the steps of `Model/Owner.lean` assume
(`Model/OwnerSkelDecl.lean`; re-extracted from /repo on every run into `Generated/OwnerSkel.lean`, proved in
`Proofs/OwnerSkelTie.lean`), and what the order is needed for: **`handover_is_last`** - in `newConnection` the hand-over
`ioLoop->runInLoop(connectEstablished)` is the only hand-off, all four callbacks (the close callback among them) are
installed on the connection before it and no action of the acceptor thread on the connection follows it (so `Owner.accept`
may be one atomic step: the io loop can run `connectEstablished`, see the peer's FIN and call `closeCallback_` before the
acceptor thread executes another instruction); the map entry exists and the connection was created with that very
`ioLoop` before the hand-over; `removeConnectionInLoop` erases before it queues `connectDestroyed`; `~TcpServer` lets the
life token expire first and resets each entry before its hand-off; `start()` starts the pool before the acceptor listens. -/
theorem server_statement_order_tied :
    (Gen.OwnerSkel.ctor = OwnerSkel.Decl.ctor ∧
     Gen.OwnerSkel.dtor = OwnerSkel.Decl.dtor ∧
     Gen.OwnerSkel.setThreadNum = OwnerSkel.Decl.setThreadNum ∧
     Gen.OwnerSkel.start = OwnerSkel.Decl.start ∧
     Gen.OwnerSkel.newConnection = OwnerSkel.Decl.newConnection ∧
     Gen.OwnerSkel.removeConnection = OwnerSkel.Decl.removeConnection ∧
     Gen.OwnerSkel.removeConnectionGuarded = OwnerSkel.Decl.removeConnectionGuarded ∧
     Gen.OwnerSkel.removeConnectionIfAlive = OwnerSkel.Decl.removeConnectionIfAlive ∧
     Gen.OwnerSkel.removeConnectionInLoop = OwnerSkel.Decl.removeConnectionInLoop) ∧
    OwnerSkel.HandoverLast "conn" "TcpConnection::connectEstablished(conn)"
      ["setConnectionCallback", "setMessageCallback", "setWriteCompleteCallback", "setCloseCallback"]
      Gen.OwnerSkel.newConnection ∧
    OwnerSkel.Precedes (.mapInsert "connName" "conn") OwnerSkel.Act.isHandoff (OwnerSkel.flatten Gen.OwnerSkel.newConnection) ∧
    OwnerSkel.Precedes (.mapErase "conn.name()") OwnerSkel.Act.isHandoff (OwnerSkel.flatten Gen.OwnerSkel.removeConnectionInLoop) ∧
    OwnerSkel.Precedes (.on "alive_" "reset" "")
      (fun a => a.isHandoff || a.touches "conn" || a.touches "item.second") (OwnerSkel.flatten Gen.OwnerSkel.dtor) ∧
    OwnerSkel.Precedes (.on "threadPool_" "start" "threadInitCallback_") OwnerSkel.Act.isHandoff
      (OwnerSkel.flatten Gen.OwnerSkel.start) :=
  ⟨OwnerSkel.skeletons_agree, OwnerSkel.handover_is_last, OwnerSkel.insert_precedes_handover.1,
   OwnerSkel.erase_precedes_destroy.1, OwnerSkel.token_expires_first.1, OwnerSkel.pool_before_listen⟩

end MuduoVerif.C02
