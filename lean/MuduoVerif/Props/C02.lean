import MuduoVerif.Proofs.ConnLifeTrace
import MuduoVerif.Proofs.ConnProgress
import MuduoVerif.Proofs.ConnSkelTie
/-!
# C02 — each connection gets exactly one UP, then messages, then exactly one DOWN; clean destruction

Property theorems only (helper lemmas: `Proofs/ConnLife.lean`, `Proofs/ConnLifeTrace.lean`).
Statements are about every history of the connection model (`Model/Conn.lean`): any
configuration (`Fresh`: poller back-end, build flavour, callbacks set or not, marks), any sequence
of user operations on the loop thread or on other threads (`Input.act`), operations performed
from inside callbacks (`hooks`), any poll results, any read/write results (faults included), any
timer firings, owner destruction - in any order and of any length.

Single connection on its loop: the hand-over between the acceptor loop and an io loop
(`TcpServer::removeConnection` → `removeConnectionInLoop`) is collapsed into the close callback
queueing `connectDestroyed`; callbacks run on the loop thread by construction of the model
(`foreign_act_silent` is the part that is a theorem), the observed thread ids are compared by the
correspondence run.
-/
namespace MuduoVerif.C02
open MuduoVerif.Conn MuduoVerif.Gen.Conn

/-- the state reached by a history: hand-over (`connectEstablished`), then any inputs -/
abbrev reach (c0 : Conn) (ins : List Input) : Conn := run (step c0 .establish) ins

theorem life (c0 : Conn) (h0 : Fresh c0) (ins : List Input) (hne : ∀ i ∈ ins, i.notEstablish) :
    LifeInv (reach c0 ins) := (reach_all c0 h0 ins hne).2.1

section
variable (c0 : Conn) (h0 : Fresh c0) (ins : List Input) (hne : ∀ i ∈ ins, i.notEstablish)
include h0 hne

/-- **updown**: in every history the connection callback reports UP exactly once and DOWN at most
once, the descriptor is closed at most once, and nothing aborts or touches a dead object -/
theorem updown :
    cnt isUpEv (reach c0 ins).trace = 1 ∧ cnt isDownEv (reach c0 ins).trace ≤ 1 ∧
    cnt isCloseEv (reach c0 ins).trace ≤ 1 ∧ cnt isBadEv (reach c0 ins).trace = 0 := by
  have hl := life c0 h0 ins hne
  obtain ⟨h1, h2, h3, h4, _⟩ := life_counts _ _ hl.life
  have hne' : phaseOf (reach c0 ins) ≠ .init := by
    unfold phaseOf; split
    · simp
    · have := hl.established
      cases hs : (reach c0 ins).st <;> simp_all
  refine ⟨by rw [h1, if_neg hne'], ?_, ?_, h4⟩
  · rw [h2]; split <;> omega
  · rw [h3]; split <;> omega

/-- **message callbacks lie between UP and DOWN**: whenever the message callback runs, UP has been
reported before and DOWN has not -/
theorem msg_between (pre post : List Ev) (n : Nat) (h : UInt64)
    (ht : (reach c0 ins).trace = pre ++ .msg n h :: post) :
    cnt isUpEv pre = 1 ∧ cnt isDownEv pre = 0 := by
  have hl := (life c0 h0 ins hne).life
  rw [ht] at hl
  obtain ⟨q, q', hq, hs⟩ := accepted_letter _ _ _ _ hl
  obtain ⟨h1, h2, _⟩ := life_counts _ _ hq
  cases q <;> simp [lifeStep] at hs
  simp [h1, h2]

/-- DOWN is reported only after UP (and not twice) -/
theorem down_after_up (pre post : List Ev) (ht : (reach c0 ins).trace = pre ++ .down :: post) :
    cnt isUpEv pre = 1 ∧ cnt isDownEv pre = 0 := by
  have hl := (life c0 h0 ins hne).life
  rw [ht] at hl
  obtain ⟨q, q', hq, hs⟩ := accepted_letter _ _ _ _ hl
  obtain ⟨h1, h2, _⟩ := life_counts _ _ hq
  cases q <;> simp [lifeStep] at hs
  simp [h1, h2]

/-- the descriptor is closed only after DOWN was reported -/
theorem close_after_down (pre post : List Ev) (ht : (reach c0 ins).trace = pre ++ .sysClose :: post) :
    cnt isDownEv pre = 1 ∧ cnt isCloseEv pre = 0 := by
  have hl := (life c0 h0 ins hne).life
  rw [ht] at hl
  obtain ⟨q, q', hq, hs⟩ := accepted_letter _ _ _ _ hl
  obtain ⟨_, h2, h3, _⟩ := life_counts _ _ hq
  cases q <;> simp [lifeStep] at hs
  simp [h2, h3]

/-- DOWN has been reported exactly when the connection is in state `kDisconnected` -/
theorem down_iff_disconnected :
    cnt isDownEv (reach c0 ins).trace = 1 ↔ (reach c0 ins).st = .kDisconnected := by
  have hl := life c0 h0 ins hne
  obtain ⟨_, h2, _⟩ := life_counts _ _ hl.life
  rw [h2]
  unfold phaseOf
  cases ha : (reach c0 ins).alive
  · have hd := hl.ownerGone (hl.gone ha).2.1
    simp [hd]
  · cases hs : (reach c0 ins).st <;> simp

/-- **destroy_clean**: once the object is destroyed it is in state `kDisconnected`, its channel is
not registered with the poller, DOWN was reported, and the descriptor was closed exactly once;
as long as the object lives its descriptor is open -/
theorem destroy_clean :
    ((reach c0 ins).alive = false →
      (reach c0 ins).st = .kDisconnected ∧ (reach c0 ins).registered = false ∧
      cnt isDownEv (reach c0 ins).trace = 1 ∧ cnt isCloseEv (reach c0 ins).trace = 1) ∧
    ((reach c0 ins).alive = true → cnt isCloseEv (reach c0 ins).trace = 0) := by
  have hl := life c0 h0 ins hne
  obtain ⟨_, h2, h3, _⟩ := life_counts _ _ hl.life
  constructor
  · intro ha
    obtain ⟨g1, g2, _⟩ := hl.gone ha
    refine ⟨hl.ownerGone g2, g1, ?_, ?_⟩
    · rw [h2]; simp [phaseOf, ha]
    · rw [h3]; simp [phaseOf, ha]
  · intro ha
    rw [h3]; unfold phaseOf; simp only [ha]
    cases hs : (reach c0 ins).st <;> simp

/-- the descriptor is never closed while the channel is registered with a poller -/
theorem not_closed_while_registered (hr : (reach c0 ins).registered = true) :
    cnt isCloseEv (reach c0 ins).trace = 0 := by
  have hl := life c0 h0 ins hne
  cases ha : (reach c0 ins).alive
  · have := (hl.gone ha).1; rw [hr] at this; cases this
  · exact (destroy_clean c0 h0 ins hne).2 ha

/-- once the owner let go of the connection (close callback, or owner destroyed) while the
channel is still registered, the functor that unregisters it is in the loop's queue -/
theorem unregister_pending (ha : (reach c0 ins).alive = true) (ho : (reach c0 ins).owner = false)
    (hr : (reach c0 ins).registered = true) : Task.connectDestroyed ∈ (reach c0 ins).queue :=
  (life c0 h0 ins hne).reg ha ho hr

end

/-- **no_leak**: after every loop iteration, a connection that the owner has released and that no
queued functor keeps alive is destroyed (object freed, descriptor closed) -/
theorem no_leak (c : Conn) (a : List Src) :
    (iter c a).dead = false → (iter c a).owner = false → (iter c a).queue.any Task.strong = false →
    (iter c a).alive = false := by
  unfold iter
  split
  · rename_i hd; intro h; simp_all
  · simp only
    split
    · rename_i hd; intro h; simp_all
    · unfold maybeDestroy
      split
      · split
        · intro h; simp [emit] at h
        · split
          · intro h; simp [emit] at h
          · intro _ _ _; simp [emit]
      · rename_i hc
        intro _ ho hq
        simp only [Conn.queue] at hq
        cases hal : (drainPending (List.foldl dispatch c a)).alive
        · rfl
        · simp [hal, ho, hq] at hc

/-- **no_leak, progress form**: a connection its owner has released (close callback ran, or the
owner was destroyed) is destroyed by the very next loop iteration, whatever events arrive in it:
object freed, descriptor closed exactly once, DOWN reported exactly once, nothing aborts -/
theorem released_is_destroyed (c0 : Conn) (h0 : Fresh c0) (ins : List Input) (hne : ∀ i ∈ ins, i.notEstablish)
    (a : List Src) (ho : (reach c0 ins).owner = false) (ha : (reach c0 ins).alive = true) :
    (iter (reach c0 ins) a).alive = false ∧
    cnt isCloseEv (iter (reach c0 ins) a).trace = 1 ∧ cnt isDownEv (iter (reach c0 ins) a).trace = 1 ∧
    cnt isBadEv (iter (reach c0 ins) a).trace = 0 :=
  ⟨Conn.released_is_destroyed _ a (life c0 h0 ins hne) ho ha,
   Conn.released_closes_descriptor _ a (life c0 h0 ins hne) ho ha⟩

/-- `forceClose()` on any thread, at any moment of any history: two loop iterations later (whatever
events arrive in them) the connection object is destroyed, with exactly one DOWN, exactly one
`close` of the descriptor and no abort -/
theorem forceClose_destroys (c0 : Conn) (h0 : Fresh c0) (ins : List Input) (hne : ∀ i ∈ ins, i.notEstablish)
    (f : Bool) (a1 a2 : List Src) :
    (iter (iter (act (reach c0 ins) f .forceClose) a1) a2).alive = false ∧
    cnt isDownEv (iter (iter (act (reach c0 ins) f .forceClose) a1) a2).trace = 1 ∧
    cnt isCloseEv (iter (iter (act (reach c0 ins) f .forceClose) a1) a2).trace = 1 ∧
    cnt isBadEv (iter (iter (act (reach c0 ins) f .forceClose) a1) a2).trace = 0 :=
  ⟨Conn.forceClose_destroys _ f a1 a2 (life c0 h0 ins hne) (reach_downRel c0 h0 ins hne),
   Conn.forceClose_closes_descriptor _ f a1 a2 (life c0 h0 ins hne) (reach_downRel c0 h0 ins hne)⟩

/-- operations issued from other threads never run a callback on the caller's thread: they only
flip the state word and queue work for the loop (affinity of callbacks to the loop thread) -/
theorem foreign_act_silent (c : Conn) (a : Act) : (act c true a).trace = c.trace := by
  cases a <;> simp only [act, handOff, Bool.true_or, if_true] <;> (repeat' split) <;> rfl

/-- non-vacuity: a history with a message, a forced close from another thread and the destruction -/
example :
    let ins : List Input := [.peerWrite [7], .envRead (.got 1), .iter [.conn 1], .act true .forceClose, .iter [], .iter []]
    Fresh ({} : Conn) ∧ (∀ i ∈ ins, i.notEstablish) ∧
    (reach {} ins).alive = false ∧
    (reach {} ins).trace.filter (fun e => isUpEv e || isDownEv e || isMsgEv e || isCloseEv e) =
      [.up, .msg 1 (fnv64 [7]), .down, .sysClose] := by
  refine ⟨fresh_default .epoll true true true _ _ [] [] [], ?_, ?_, ?_⟩
  · intro i hi; simp only [List.mem_cons, List.not_mem_nil, or_false] at hi
    rcases hi with h | h | h | h | h | h <;> rw [h] <;> trivial
  · decide
  · decide

/-- T1, statement order: in every `TcpConnection` member function the model implements (and in
`Channel::handleEventWithGuard`) the source performs the same significant actions - state stores, channel
operations, callbacks, hand-offs to the loop, member calls, system calls, buffer operations - in the same order
and under the same nesting of the generated guards as `Model/Conn.lean` (`Model/ConnSkelDecl.lean`); re-extracted
from /repo on every run (`Generated/ConnSkel.lean`), proved in `Proofs/ConnSkelTie.lean` -/
theorem statement_order_tied :
    Gen.ConnSkel.sendInLoop = ConnSkel.Decl.sendInLoop ∧
    Gen.ConnSkel.shutdown = ConnSkel.Decl.shutdown ∧
    Gen.ConnSkel.shutdownInLoop = ConnSkel.Decl.shutdownInLoop ∧
    Gen.ConnSkel.forceClose = ConnSkel.Decl.forceClose ∧
    Gen.ConnSkel.forceCloseWithDelay = ConnSkel.Decl.forceCloseWithDelay ∧
    Gen.ConnSkel.forceCloseInLoop = ConnSkel.Decl.forceCloseInLoop ∧
    Gen.ConnSkel.startReadInLoop = ConnSkel.Decl.startReadInLoop ∧
    Gen.ConnSkel.stopReadInLoop = ConnSkel.Decl.stopReadInLoop ∧
    Gen.ConnSkel.connectEstablished = ConnSkel.Decl.connectEstablished ∧
    Gen.ConnSkel.connectDestroyed = ConnSkel.Decl.connectDestroyed ∧
    Gen.ConnSkel.handleRead = ConnSkel.Decl.handleRead ∧
    Gen.ConnSkel.handleWrite = ConnSkel.Decl.handleWrite ∧
    Gen.ConnSkel.handleClose = ConnSkel.Decl.handleClose ∧
    Gen.ConnSkel.handleError = ConnSkel.Decl.handleError ∧
    Gen.ConnSkel.handleEventWithGuard = ConnSkel.Decl.handleEventWithGuard :=
  ConnSkel.skeletons_agree

end MuduoVerif.C02
