import MuduoVerif.Proofs.ConnFlow
import MuduoVerif.Proofs.ConnLifeTrace
import MuduoVerif.Proofs.ConnProgress
import MuduoVerif.Proofs.ConnSkelTie
/-!
# C03 — shutdown() flushes everything before FIN; forceClose() closes at once, safely

Property theorems only (lemmas: `Proofs/ConnFlow.lean`, `ConnLife.lean`, `ConnStream.lean`).
Quantification as in C01/C02: every configuration, every history of operations from the loop
thread, other threads and callbacks, every result sequence of the system calls, every order of
shutdown / peer close / forced close, every delay.

The half-close is the event `sysShutdownWr`; the model sets the ghost flag `shutWr` when it is
emitted.  How `shutdown()` and the drain path of `handleWrite` hand `shutdownInLoop` to the
loop (`shutdownDispatch`, `drainShutdownDispatch`) is extracted from the source; the proofs
need both to be `.queue` — with the inline call the unchanged upstream code made,
`fin_after_data` is false (corpus/conn/F3-…, F21-…).
-/
namespace MuduoVerif.C03
open MuduoVerif.Conn MuduoVerif.Gen.Conn

abbrev reach (c0 : Conn) (ins : List Input) : Conn := run (step c0 .establish) ins

section
variable (c0 : Conn) (h0 : Fresh c0) (ins : List Input) (hne : ∀ i ∈ ins, i.notEstablish)
include h0 hne

/-- **fin_after_data**: whenever the write side has been shut down on a connection that is
still up, the output buffer is empty, no `send()` accepted earlier is still waiting in the
loop's queue, and — unless a fatal write error dropped data — every accepted byte was handed
to the kernel before the FIN -/
theorem fin_after_data :
    (reach c0 ins).shutWr = true → (reach c0 ins).st = .kDisconnecting →
      (reach c0 ins).outBuf = [] ∧ (reach c0 ins).queue.all (fun t => !t.isSend) = true ∧
      ((reach c0 ins).discarded = false → (reach c0 ins).wrote = (reach c0 ins).accepted) :=
  Conn.fin_after_data c0 h0 ins hne

/-- while the connection is fully connected (no `shutdown()`/`forceClose()` yet) no half-close
has been made or queued -/
theorem no_fin_while_connected :
    (reach c0 ins).st = .kConnected →
      (reach c0 ins).shutWr = false ∧ (reach c0 ins).queue.all (fun t => !t.isShut) = true := by
  intro h
  obtain ⟨a, b⟩ := (reach_all c0 h0 ins hne).1.connQ h
  exact ⟨b, a⟩

/-- every `send()` queued by another thread stays ahead of every queued half-close -/
theorem sends_before_fin : okQ (reach c0 ins).queue = true := (reach_all c0 h0 ins hne).1.q

/-- **force_once**: whatever forced closes, delayed closes, timer firings, peer closes and
shutdowns a history contains, DOWN is reported at most once and nothing aborts or touches a
destroyed object -/
theorem force_once :
    C02.cnt C02.isDownEv (reach c0 ins).trace ≤ 1 ∧ C02.cnt C02.isBadEv (reach c0 ins).trace = 0 := by
  have hl := (reach_all c0 h0 ins hne).2.1
  obtain ⟨_, h2, _, h4, _⟩ := C02.life_counts _ _ hl.life
  refine ⟨?_, h4⟩
  rw [h2]; split <;> omega

end

/-- **forceClose closes at once**: `forceClose()` on any thread, in any reachable state, with
anything else queued and whatever events the next poll reports: after ONE loop iteration the
connection is down, DOWN was reported exactly once, nothing aborted - it does not wait for the peer -/
theorem forceClose_brings_down (c0 : Conn) (h0 : Fresh c0) (ins : List Input) (hne : ∀ i ∈ ins, i.notEstablish)
    (f : Bool) (a : List Src) :
    (iter (act (reach c0 ins) f .forceClose) a).st = .kDisconnected ∧
    C02.cnt C02.isDownEv (iter (act (reach c0 ins) f .forceClose) a).trace = 1 ∧
    C02.cnt C02.isBadEv (iter (act (reach c0 ins) f .forceClose) a).trace = 0 :=
  have hl := (reach_all c0 h0 ins hne).2.1
  ⟨Conn.forceClose_brings_down _ f a hl, (forceClose_reports_down _ f a hl).1, (forceClose_reports_down _ f a hl).2.1⟩

/-- **delayed forced close**: `forceCloseWithDelay(us)` on the loop thread, the clock advanced by at
least `us`, then one iteration in which the timer descriptor is reported: the connection is down.
Called on another thread it takes one iteration more (the first one arms the timer); the bound is
tight (`delayed_close_foreign_needs_two` in `Proofs/ConnProgress.lean`) -/
theorem delayed_close_brings_down (c0 : Conn) (h0 : Fresh c0) (ins : List Input) (hne : ∀ i ∈ ins, i.notEstablish)
    (us d : Nat) (a1 a2 : List Src) (hd : us ≤ d) (hm : Src.timer ∈ a2) :
    (iter (step (act (reach c0 ins) false (.forceCloseDelay us)) (.advance d)) a2).st = .kDisconnected ∧
    (iter (step (iter (act (reach c0 ins) true (.forceCloseDelay us)) a1) (.advance d)) a2).st = .kDisconnected :=
  have hl := (reach_all c0 h0 ins hne).2.1
  ⟨Conn.delayed_close_brings_down _ us d a2 hl hd hm, delayed_close_foreign_brings_down _ us d a1 a2 hl hd hm⟩

/-- **the FIN is sent**: `shutdown()` on any thread on a connected connection with nothing left to
write and no earlier `send()` still queued: the next loop iteration half-closes the socket,
whatever events arrive in it -/
theorem shutdown_sends_fin (c0 : Conn) (h0 : Fresh c0) (ins : List Input) (hne : ∀ i ∈ ins, i.notEstablish)
    (f : Bool) (a : List Src) (hst : (reach c0 ins).st = .kConnected) (ho : (reach c0 ins).outBuf = [])
    (hq : (reach c0 ins).queue.all (fun t => !t.isSend) = true) :
    (iter (act (reach c0 ins) f .shutdown) a).shutWr = true :=
  have h := reach_all c0 h0 ins hne
  Conn.shutdown_sends_fin _ f a h.2.1 h.1 hst ho hq

/-- … and with a backlog: once the backlog has drained and nothing is queued ahead of the deferred
half-close, the next iteration sends the FIN -/
theorem fin_after_drain (c0 : Conn) (h0 : Fresh c0) (ins : List Input) (hne : ∀ i ∈ ins, i.notEstablish)
    (a : List Src) (hst : (reach c0 ins).st = .kDisconnecting) (ho : (reach c0 ins).outBuf = [])
    (hq : (reach c0 ins).queue.all (fun t => !t.isSend) = true) (hs : ∃ t ∈ (reach c0 ins).queue, t.isShut = true) :
    (iter (reach c0 ins) a).shutWr = true :=
  have h := reach_all c0 h0 ins hne
  fin_progress' _ a h.2.1 h.1 hst ho hq hs

/-- the model performs the state test and the state store of `shutdown()` / `forceClose()` /
`forceCloseWithDelay()` as ONE step (`act`).  That is what the code does only because each is a
single atomic compare-and-swap on the state word - extracted from the source on every run.  With a
separate test and store, a close on the loop thread can slip in between and the store revives the
connection: it is then taken down, and reported DOWN, a second time (F27). -/
theorem gate_atomic : gateAtomic = true := rfl

/-- the moment the FIN is emitted on a connection that is up, the backlog is empty -/
theorem fin_emitted_clean (c : Conn) (hi : FlowInv c) (hu : c.st ≠ .kDisconnected)
    (h : (shutdownInLoop c).shutWr = true) (h0 : c.shutWr = false) : c.outBuf = [] :=
  Conn.fin_emitted_clean c hi hu h h0

/-- **late_send_discarded**: `send()` on any thread once `shutdown()` or `forceClose()` was
called, or after DOWN, changes nothing: it can neither interleave into nor truncate what was
accepted before -/
theorem late_send_discarded (c : Conn) (f : Bool) (d : Bytes) (h : c.st ≠ .kConnected) : act c f (.send d) = c :=
  Conn.late_send_discarded c f d h

/-- `shutdown()` and `forceClose()` take the connection out of `kConnected` inside the call, on
whatever thread: later `send()`s are therefore late -/
theorem shutdown_closes_the_gate (c : Conn) (f : Bool) (h : c.st = .kConnected) :
    (act c f .shutdown).st = .kDisconnecting ∧ (act c f .forceClose).st = .kDisconnecting := by
  constructor
  · simp only [act, shutdownAccepts, h, if_true, handOff]
    split
    · rfl
    · unfold shutdownInLoop; split <;> rfl
  · simp only [act, forceCloseAccepts, h, true_or, if_true, handOff]
    split <;> rfl

/-- **keeps_receiving**: `shutdown()` does not touch the read side: read interest, input buffer and
what was delivered stay as they are -/
theorem keeps_receiving (c : Conn) (f : Bool) :
    (act c f .shutdown).ch.evRead = c.ch.evRead ∧ (act c f .shutdown).inBuf = c.inBuf ∧
    (act c f .shutdown).delivered = c.delivered ∧ (act c f .shutdown).reading = c.reading := by
  simp only [act]
  split
  · simp only [handOff]
    split
    · exact ⟨rfl, rfl, rfl, rfl⟩
    · unfold shutdownInLoop; split <;> exact ⟨rfl, rfl, rfl, rfl⟩
  · exact ⟨rfl, rfl, rfl, rfl⟩

/-- a delayed forced close that fires when the object is gone does nothing at all; one that fires
when the connection is already down does nothing either -/
theorem delayed_close_noop (c : Conn) :
    (c.alive = false → fireDelay c = c) ∧ (c.st = .kDisconnected → fireDelay c = c) ∧
    (c.st = .kConnecting → fireDelay c = c) := by
  refine ⟨?_, ?_, ?_⟩
  · intro h
    have hw : forceCloseDelayHold.eff weakCallbackLocks = Hold.weak := by decide   -- the timer holds a weak callback that locks before it calls (extracted)
    simp [fireDelay, h, hw]
  · intro h; unfold fireDelay; split
    · simp [actLoop, act, forceCloseAccepts, h]
    · rfl
  · intro h; unfold fireDelay; split
    · simp [actLoop, act, forceCloseAccepts, h]
    · rfl

/-- a forced close on a connection that is already down (or gone) is a no-op as well -/
theorem forceClose_noop (c : Conn) (f : Bool) (h : c.st = .kDisconnected) : act c f .forceClose = c := by
  simp [act, forceCloseAccepts, h]

/-- and the functor it queued does nothing if the connection went down before it runs -/
theorem forceCloseInLoop_noop (c : Conn) (ha : c.alive = true) (h : c.st = .kDisconnected) :
    runTask c .forceCloseInLoop = c := by
  simp [runTask, ha, forceCloseInLoopActs, h]

/-- T1, statement order: in every `TcpConnection` member function the model implements (and in
`Channel::handleEventWithGuard`) the source performs the same significant actions - state stores, channel
operations, callbacks, hand-offs to the loop, member calls, system calls, buffer operations - in the same order
and under the same nesting of the generated guards as `Model/Conn.lean` (`Model/ConnSkelDecl.lean`); re-extracted
from /repo on every run (`Generated/ConnSkel.lean`), proved in `Proofs/ConnSkelTie.lean` -/
theorem statement_order_tied :
    Gen.ConnSkel.sendInLoop = ConnSkel.Decl.sendInLoop ∧
    Gen.ConnSkel.shutdown = ConnSkel.Decl.shutdown ∧
    Gen.ConnSkel.shutdownInLoop = ConnSkel.Decl.shutdownInLoop ∧
    Gen.ConnSkel.forceClose = ConnSkel.Decl.forceClose ∧
    Gen.ConnSkel.forceCloseWithDelay = ConnSkel.Decl.forceCloseWithDelay ∧
    Gen.ConnSkel.forceCloseInLoop = ConnSkel.Decl.forceCloseInLoop ∧
    Gen.ConnSkel.startReadInLoop = ConnSkel.Decl.startReadInLoop ∧
    Gen.ConnSkel.stopReadInLoop = ConnSkel.Decl.stopReadInLoop ∧
    Gen.ConnSkel.connectEstablished = ConnSkel.Decl.connectEstablished ∧
    Gen.ConnSkel.connectDestroyed = ConnSkel.Decl.connectDestroyed ∧
    Gen.ConnSkel.handleRead = ConnSkel.Decl.handleRead ∧
    Gen.ConnSkel.handleWrite = ConnSkel.Decl.handleWrite ∧
    Gen.ConnSkel.handleClose = ConnSkel.Decl.handleClose ∧
    Gen.ConnSkel.handleError = ConnSkel.Decl.handleError ∧
    Gen.ConnSkel.handleEventWithGuard = ConnSkel.Decl.handleEventWithGuard :=
  ConnSkel.skeletons_agree

/-- T1, the weak functors: `WeakCallback::operator()` (what `makeWeakCallback(shared_from_this(), &TcpConnection::f)`
runs: `shutdown()`'s and the drain path's `shutdownInLoop`, a `send()` from another thread, `startRead/stopRead`, the
delayed forced close) and the notification trampolines lock the weak pointer, test the result and only then call,
on the locked object (`weakCallbackLocks`, `notifyLocks`: extracted; the model's "a weak functor whose object is
gone does nothing" - `delayed_close_noop`, `runTask` - uses them through `Hold.eff`), and the statement skeleton of
`WeakCallback::operator()` is the one `Model/ConnSkelDecl.lean` declares -/
theorem weak_functors_lock_first :
    weakCallbackLocks = true ∧ notifyLocks = true ∧
    (∀ t : Task, t.hold ≠ .raw) ∧
    Gen.ConnSkel.weakCallbackCall = ConnSkel.Decl.weakCallbackCall :=
  ⟨rfl, rfl, no_raw, ConnSkel.skeleton_weakCallbackCall⟩

end MuduoVerif.C03
