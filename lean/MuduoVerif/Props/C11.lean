import MuduoVerif.Props.C01
import MuduoVerif.Props.C02
import MuduoVerif.Props.C13
import MuduoVerif.Proofs.ConnFault
import MuduoVerif.Proofs.ConnNoDiscard
import MuduoVerif.Proofs.Acceptor
import MuduoVerif.Generated.Client
import MuduoVerif.Proofs.SysSkelTie
import MuduoVerif.Proofs.LoopSkelTie
/-!
# C11 — transient socket faults delay service but never corrupt, wedge or leak

Property theorems only (lemmas: `Proofs/ConnFault.lean`, `Proofs/ConnNoDiscard.lean`,
`Proofs/Acceptor.lean`, and the lemma files of C01/C02/C13).

The environment is an input of the models: the result of every `write`, `readv`, `accept`,
`connect` and of the poll call is supplied by the history.  The theorems of C01, C02 and C13 are
quantified over **all** result sequences; this file

1. pins the errno classifications the property names to the tables extracted from
   `sockets::accept`, `Acceptor::handleRead`, `Connector::connect` and the pollers on every
   run (`class_accept`, `class_connect`, `poll_eintr_silent`, by evaluation of the tables);
2. says what each fault does to a connection, for every state (`write_fault_noop`,
   `read_fault_noop`, `send_fault_keeps_data`, `send_short_keeps_rest`, `poll_eintr_noop`), what
   `k` faults cost (`fault_cost`: `k` iterations, no callback, state unchanged — the
   connection resumes from exactly the state it was in; `resume`: any continuation reaches the
   state of the fault-free history, the trace aside), and that transient faults never make
   the code drop data (`no_discard_under_faults`);
3. restates the stream / life-cycle / notification guarantees with the fault alphabet explicit:
   for any history and any finite sequence of transient faults inserted at any position
   (`*_under_faults`);
4. the listener: descriptor accounting over all accept-result sequences (`fd_accounting`), the
   EMFILE branch closes exactly one pending connection and restores the spare descriptor
   (`emfile_closes`), the other failures are silent and leave the listener as it was
   (`accept_fault_silent`, `accept_faults_oblivious`), it keeps listening and never aborts
   (`listening_continues`, `no_abort_under_faults`), and accepts again as soon as `accept`
   succeeds (`resumes_after_faults`).

Errno numbers are Linux's: EINTR 4, EAGAIN 11, EMFILE 24, EPIPE 32, EADDRINUSE 98,
EADDRNOTAVAIL 99, ENETUNREACH 101, ECONNABORTED 103, ECONNRESET 104, EISCONN 106,
ECONNREFUSED 111, EINPROGRESS 115 (the tables are extracted after macro expansion).
-/
namespace MuduoVerif.C11
open MuduoVerif.Conn MuduoVerif.Conn.Fault MuduoVerif.Gen.Conn

/-! ## 1. classification (T1 tables) -/

/-- **class_accept**: `EAGAIN`, `ECONNABORTED`, `EINTR` and `EMFILE` are "expected errors" of
`sockets::accept` (errno restored, -1 returned: no `LOG_FATAL` arm), nothing outside the arms of
its switch ends the process, `Acceptor::handleRead` contains no process-ending statement, and its
descriptor-exhaustion test selects `EMFILE` and none of the others -/
theorem class_accept :
    (∀ e ∈ [11, 103, 4, 24], Gen.Acceptor.classifyAccept e = .expected) ∧
    Gen.Acceptor.acceptFatalOutsideSwitch = 0 ∧ Gen.Acceptor.handleReadFatal = 0 ∧
    Gen.Acceptor.emfileTest 24 ∧ (∀ e ∈ [11, 103, 4], ¬ Gen.Acceptor.emfileTest e) ∧
    (∀ fd : Int, Gen.Acceptor.acceptFailed fd ↔ ¬ Gen.Acceptor.acceptedOk fd) := by
  refine ⟨by decide, by decide, by decide, by decide, by decide, ?_⟩
  intro fd; simp only [Gen.Acceptor.acceptFailed, Gen.Acceptor.acceptedOk]; omega

/-- **class_connect**: `ECONNREFUSED`, `ENETUNREACH` (and `EAGAIN`, `EADDRINUSE`, `EADDRNOTAVAIL`) lead
to `retry`; `EINPROGRESS` (and 0, `EINTR`, `EISCONN`) to `connecting`; none of them to the give-up arm -/
theorem class_connect :
    (∀ e ∈ [111, 101, 11, 98, 99], Gen.Client.classifyConnect e = .retry) ∧
    (∀ e ∈ [115, 0, 4, 106], Gen.Client.classifyConnect e = .proceed) ∧
    Gen.Client.retrySchedules true ∧ Gen.Client.retryClosesSocket = true := by
  refine ⟨by decide, by decide, by decide, by decide⟩

/-- **poll_eintr_silent**: both pollers collect active channels only for a positive count, log a failed
poll call unless it is `EINTR`, and contain no process-ending statement -/
theorem poll_eintr_silent :
    ¬ Gen.Acceptor.epollErrLogged 4 ∧ ¬ Gen.Acceptor.pollErrLogged 4 ∧
    Gen.Acceptor.epollPollFatal = 0 ∧ Gen.Acceptor.pollPollFatal = 0 ∧
    (∀ n : Int, Gen.Acceptor.epollFillsActive n ↔ 0 < n) ∧ (∀ n : Int, Gen.Acceptor.pollFillsActive n ↔ 0 < n) := by
  refine ⟨by decide, by decide, by decide, by decide, ?_, ?_⟩ <;> intro n <;>
    simp only [Gen.Acceptor.epollFillsActive, Gen.Acceptor.pollFillsActive, gt_iff_lt]

/-! ## 2. what a fault does to a connection -/

/-- **result_tests**: how `handleRead`, `handleWrite` and `sendInLoop` split the result of the system call: a
failed call (`-1`) is neither "data" nor "end of stream" for `handleRead` (so it reaches the branch that only
logs), is not a positive count for `handleWrite` (nothing is retrieved from the backlog), and is not `>= 0`
for `sendInLoop` (it counts as zero bytes written).  These are the tests the model's case splits on
`ReadRes` / `WriteRes` stand for -/
theorem result_tests (n : Int) :
    (readGotData n ↔ 0 < n) ∧ (readGotEof n ↔ n = 0) ∧ (handleWriteTook n ↔ 0 < n) ∧ (directWriteOk n ↔ 0 ≤ n) ∧
    ¬ readGotData (-1) ∧ ¬ readGotEof (-1) ∧ ¬ handleWriteTook (-1) ∧ ¬ directWriteOk (-1) := by
  refine ⟨?_, ?_, ?_, ?_, ?_, ?_, ?_, ?_⟩ <;>
    simp only [readGotData, readGotEof, handleWriteTook, directWriteOk] <;> omega


/-- **write_fault_noop**: for every state, a writable event whose `write` fails (any errno — `EAGAIN`,
`EINTR`, …) or takes nothing consumes the result and records the call; state word, both buffers,
interest set, queues and ghost history are as before (in particular nothing is closed and the backlog
stays queued with write interest on) -/
theorem write_fault_noop (c : Conn) (r : WriteRes) (hw : c.ch.evWrite = true) (hp : peekWrite c = r)
    (hr : (∃ e, r = .err e) ∨ r = .took 0) :
    handleWrite c = { popWrite c with trace := c.trace ++ [.sysWrite c.outBuf.length r] } := by
  rw [handleWrite_fault c r hw hp hr]
  have := (popWrite_fields c).2.2.2.2.2.2.1
  simp only [emit, this]

/-- **read_fault_noop**: for every state, a readable event whose `readv` fails (any errno) consumes the
result and records the call: no callback, no close, input buffer untouched -/
theorem read_fault_noop (c : Conn) (e : Nat) (hp : peekRead c = .err e) :
    handleRead c = { popRead c with trace := c.trace ++ [.sysReadv (.err e)] } := by
  rw [handleRead_fault c e hp]
  have : (popRead c).trace = c.trace := by unfold popRead; split <;> rfl
  simp only [emit, this]

/-- **send_fault_keeps_data**: a `send` whose direct `write` fails with anything but `EPIPE`/`ECONNRESET`
queues the whole block and switches write interest on; nothing is written, nothing dropped -/
theorem send_fault_keeps_data (c : Conn) (data : Bytes) (q : Bool) (e : Nat)
    (hst : c.st ≠ .kDisconnected) (hw : c.ch.evWrite = false) (ho : c.outBuf = [])
    (hp : peekWrite c = .err e) (hnf : e ≠ 32 ∧ e ≠ 104) (hd : data ≠ []) :
    let c' := sendInLoop c data q
    c'.outBuf = data ∧ c'.ch.evWrite = true ∧ c'.wrote = c.wrote ∧ c'.discarded = c.discarded ∧
    c'.accepted = c.accepted ++ data ∧ c'.st = c.st ∧
    c'.trace = c.trace ++ [.sysWrite data.length (.err e)] :=
  sendInLoop_fault c data q e hst hw ho hp (by simp [writeErrFatal, hnf.1, hnf.2]) hd

/-- **send_short_keeps_rest**: a `send` whose direct `write` takes `k` bytes queues exactly the rest -/
theorem send_short_keeps_rest (c : Conn) (data : Bytes) (q : Bool) (k : Nat)
    (hst : c.st ≠ .kDisconnected) (hw : c.ch.evWrite = false) (ho : c.outBuf = [])
    (hp : peekWrite c = .took k) (hk : k < data.length) :
    let c' := sendInLoop c data q
    c'.outBuf = data.drop k ∧ c'.ch.evWrite = true ∧ c'.wrote = c.wrote ++ data.take k ∧ c'.discarded = c.discarded ∧
    c'.accepted = c.accepted ++ data ∧ c'.st = c.st ∧
    c'.trace = c.trace ++ [.sysWrite data.length (.took k)] :=
  sendInLoop_short c data q k hst hw ho hp hk

/-- **poll_eintr_noop**: an iteration whose poll call was interrupted reports no active channel; with
nothing queued for the loop it is the identity (with functors queued it runs them, as any iteration does) -/
theorem poll_eintr_noop (c : Conn) (h1 : c.pending = []) (h2 : c.batch = []) (h3 : c.owner = true ∨ c.alive = false) :
    iter c [] = c :=
  iter_eintr c h1 h2 h3

/-- **fault_cost / resume**: on an idle loop, `k` consecutive iterations each hit by a transient fault
(failed `write`, failed `readv`, interrupted poll — in any mix) leave every field of the connection
unchanged; the trace gains one system-call record per failed call and nothing else.  So the faults cost `k`
iterations, no callback runs, nothing is closed or aborted, and the next fault-free iteration starts from
exactly the state the connection was in before the faults -/
theorem fault_cost (c : Conn) (hq : Quiet c) (fs : List FaultIter) (ha : ∀ f ∈ fs, f.applicable c) :
    run c (fs.flatMap FaultIter.inputs) = { c with trace := c.trace ++ fs.flatMap (FaultIter.evs c) } ∧
    (fs.flatMap FaultIter.inputs).length ≤ 2 * fs.length ∧
    ∀ e ∈ fs.flatMap (FaultIter.evs c), (∃ n r, e = .sysWrite n r) ∨ (∃ r, e = .sysReadv r) := by
  refine ⟨Fault.fault_cost c hq fs ha, ?_, ?_⟩
  · induction fs with
    | nil => simp
    | cons f fs ih =>
      have ih' := ih (fun g hg => ha g (List.mem_cons_of_mem _ hg))
      rw [List.flatMap_cons, List.length_append, List.length_cons]
      cases f <;> (simp only [FaultIter.inputs, List.length_cons, List.length_nil]; omega)
  · intro e he
    obtain ⟨f, _, hf⟩ := List.mem_flatMap.mp he
    exact faultIter_evs_quiet c f e hf

/-- **resume** (the state reached is fault-oblivious): on an idle loop, whatever history `rest` follows `k` fault
iterations, the connection ends in the state `rest` alone leads to — every field except the trace is equal
(state word, buffers, interest, queues, what was written, delivered, accepted), and the trace is the fault-free
trace with the `k` system-call records inserted where the faults happened.  (`run_setTrace`: no transition of the
model reads the trace, proved for every transition in `Proofs/ConnTraceIndep.lean`.) -/
theorem resume (c : Conn) (hq : Quiet c) (fs : List FaultIter) (ha : ∀ f ∈ fs, f.applicable c) (rest : List Input) :
    ∃ s, (run c rest).trace = c.trace ++ s ∧
      run c (fs.flatMap FaultIter.inputs ++ rest) =
        TraceIndep.setTrace (run c rest) (c.trace ++ fs.flatMap (FaultIter.evs c) ++ s) :=
  resume_after_faults c hq fs ha rest

/-! ## 3. the guarantees of C01 / C02 / C13 with the fault alphabet made explicit -/

/-- the transient faults of the property, as inputs of the connection model: `write` failing with
`EAGAIN`/`EINTR` or taking any (short) count, `readv` failing with `EAGAIN`/`EINTR` or returning any
positive (short) count, and an interrupted poll (an iteration without active channels) -/
def Transient : Input → Prop
  | .envWrite (.err e) => e = 11 ∨ e = 4
  | .envWrite (.took _) => True
  | .envRead (.err e) => e = 11 ∨ e = 4
  | .envRead (.got n) => 0 < n
  | .iter [] => True
  | _ => False

theorem Transient.notEstablish {i : Input} (h : Transient i) : i.notEstablish := by
  cases i <;> simp_all [Transient, Input.notEstablish]

theorem Transient.nonFatal {i : Input} (h : Transient i) : i.nonFatal := by
  cases i with
  | envWrite r =>
    cases r with
    | took n => trivial
    | err e =>
      simp only [Transient] at h
      simp only [Input.nonFatal, WriteRes.nonFatal, writeErrFatal]
      omega
  | _ => trivial

/-- a history `pre ++ faults ++ post`: any finite sequence of transient faults inserted at any position -/
abbrev withFaults (pre faults post : List Input) : List Input := pre ++ faults ++ post

theorem withFaults_ne {pre faults post : List Input} (hpre : ∀ i ∈ pre, i.notEstablish)
    (hf : ∀ i ∈ faults, Transient i) (hpost : ∀ i ∈ post, i.notEstablish) :
    ∀ i ∈ withFaults pre faults post, i.notEstablish := by
  intro i hi
  simp only [withFaults, List.mem_append] at hi
  rcases hi with (hi | hi) | hi
  · exact hpre i hi
  · exact (hf i hi).notEstablish
  · exact hpost i hi

section
variable (c0 : Conn) (h0 : Fresh c0) (pre faults post : List Input)
  (hpre : ∀ i ∈ pre, i.notEstablish) (hf : ∀ i ∈ faults, Transient i) (hpost : ∀ i ∈ post, i.notEstablish)
include h0 hpre hf hpost

omit hpre hpost in
/-- **no_discard_under_faults**: if the only `write` failures of a history are non-fatal (the base history
contains no `EPIPE`/`ECONNRESET` result; the inserted faults never are), the code never drops data -/
theorem no_discard_under_faults (hw0 : ∀ r ∈ c0.writes, r.nonFatal)
    (hbase : ∀ i ∈ pre ++ post, i.nonFatal) :
    (C01.reach c0 (withFaults pre faults post)).discarded = false := by
  have hall : ∀ i ∈ withFaults pre faults post, i.nonFatal := by
    intro i hi
    simp only [withFaults, List.mem_append] at hi
    rcases hi with (hi | hi) | hi
    · exact hbase i (List.mem_append.mpr (Or.inl hi))
    · exact (hf i hi).nonFatal
    · exact hbase i (List.mem_append.mpr (Or.inr hi))
  have h1 : NoDisc (step c0 .establish) := step_nodisc c0 .establish trivial ⟨h0.discarded, hw0⟩
  exact (run_nodisc _ _ hall h1).1

/-- **stream_inv_under_faults** (C01, send direction): whatever transient faults hit the connection and
wherever, the bytes handed to the kernel followed by the backlog are exactly the accepted blocks in
processing order — no byte lost, duplicated or reordered -/
theorem stream_inv_under_faults (hw0 : ∀ r ∈ c0.writes, r.nonFatal) (hbase : ∀ i ∈ pre ++ post, i.nonFatal) :
    let c := C01.reach c0 (withFaults pre faults post)
    c.wrote ++ c.outBuf = (c.blocks.map (·.2)).flatten :=
  C01.stream_inv c0 h0 _ (withFaults_ne hpre hf hpost)
    (no_discard_under_faults c0 h0 pre faults post hf hw0 hbase)

/-- **fifo_under_faults** (C01): per-thread order of the accepted blocks, and write interest on exactly while
there is a backlog (so a backlog left by a failed or short write is never without a wake-up, and an empty one
never spins the loop) -/
theorem fifo_under_faults :
    let c := C01.reach c0 (withFaults pre faults post)
    c.lBlocks = c.offeredL ∧ c.fBlocks <+: c.offeredF ∧
    (c.st ≠ .kDisconnected → (c.ch.evWrite = true ↔ c.outBuf ≠ [])) :=
  let h := C01.per_thread_fifo c0 h0 _ (withFaults_ne hpre hf hpost)
  ⟨h.1, h.2.1, C01.write_interest_inv c0 h0 _ (withFaults_ne hpre hf hpost)⟩

/-- **read_inv_under_faults** (C01, receive direction): under failed and short reads, what was delivered
to the input buffer plus what is still unread is exactly what the peer wrote, in order -/
theorem read_inv_under_faults :
    let c := C01.reach c0 (withFaults pre faults post)
    c.delivered ++ c.peerPending = c.peerAll ∧ c.inBuf <:+ c.delivered :=
  C01.read_inv c0 h0 _ (withFaults_ne hpre hf hpost)

/-- **updown_under_faults** (C02): exactly one UP, at most one DOWN, descriptor closed at most once, nothing
aborts — no callback missed or repeated, whatever faults occur -/
theorem updown_under_faults :
    let c := C02.reach c0 (withFaults pre faults post)
    C02.cnt C02.isUpEv c.trace = 1 ∧ C02.cnt C02.isDownEv c.trace ≤ 1 ∧ C02.cnt C02.isCloseEv c.trace ≤ 1 ∧ C02.cnt C02.isBadEv c.trace = 0 :=
  C02.updown c0 h0 _ (withFaults_ne hpre hf hpost)

/-- **destroy_clean_under_faults** (C02, no descriptor leak): once destroyed, DOWN was reported and the
descriptor was closed exactly once; while the object lives its descriptor is open -/
theorem destroy_clean_under_faults :
    let c := C02.reach c0 (withFaults pre faults post)
    (c.alive = false → c.st = .kDisconnected ∧ c.registered = false ∧ C02.cnt C02.isDownEv c.trace = 1 ∧ C02.cnt C02.isCloseEv c.trace = 1) ∧
    (c.alive = true → C02.cnt C02.isCloseEv c.trace = 0) :=
  C02.destroy_clean c0 h0 _ (withFaults_ne hpre hf hpost)

/-- **wc_under_faults** (C13): write-complete callbacks run or queued (plus one for a pending backlog) never
exceed the accepted sends — none is repeated because a write had to be retried -/
theorem wc_under_faults :
    let c := C01.reach c0 (withFaults pre faults post)
    wcRun c + wcQueued c + (if c.outBuf = [] then 0 else 1) ≤ c.blocks.length :=
  C13.wc_needs_send c0 h0 _ (withFaults_ne hpre hf hpost)

end

/-- non-vacuity: one history with `EAGAIN` and a short count on the direct write, `EINTR` and a short write
on the drain path, `EAGAIN` and short reads, and an interrupted poll, all inserted after the `send`; everything
arrives, in order -/
example :
    let pre : List Input := [.envWrite (.err 11), .act false (.send [1, 2, 3]), .peerWrite [9, 8]]
    let faults : List Input := [.envWrite (.err 4), .envWrite (.took 1), .envWrite (.took 2), .envRead (.err 11),
                                .envRead (.got 1), .envRead (.got 1), .iter []]
    let post : List Input := [.iter [.conn 5], .iter [.conn 5], .iter [.conn 5]]
    Fresh ({} : Conn) ∧ (∀ i ∈ faults, Transient i) ∧
    (C01.reach {} (withFaults pre faults post)).wrote = [1, 2, 3] ∧
    (C01.reach {} (withFaults pre faults post)).outBuf = [] ∧
    (C01.reach {} (withFaults pre faults post)).delivered = [9, 8] ∧
    (C01.reach {} (withFaults pre faults post)).discarded = false := by
  refine ⟨fresh_default .epoll true true true _ _ [] [] [], ?_, by decide, by decide, by decide, by decide⟩
  intro i hi
  simp only [List.mem_cons, List.not_mem_nil, or_false] at hi
  rcases hi with h | h | h | h | h | h | h <;> rw [h] <;> simp [Transient]

/-! ## 4. the listener -/
open MuduoVerif.Acceptor in
/-- **fd_accounting** (no leak): over every sequence of inputs — any accept results, faults included, with
or without a callback, descriptors closed by their owners, destruction — every descriptor the acceptor
obtained is either closed or accounted for (handed to the callback and still open, or the spare one);
none is lost track of, and `close` is never applied to a stale descriptor number -/
theorem fd_accounting (cb : Bool) (ins : List Acceptor.Input) :
    let a := Acceptor.run { hasCb := cb } ins
    a.opened = a.closedN + live a ∧ a.leaked = 0 ∧ Ev.staleClose ∉ a.trace ∧
    (a.alive = true → a.idle = .devnull) := by
  have h := run_inv ins _ (inv_init cb)
  refine ⟨by rw [h.account, live]; omega, h.noLeak, h.noStale, ?_⟩
  intro ha; rw [h.idleOk, ha]; rfl

open MuduoVerif.Acceptor in
/-- **emfile_closes**: `accept` fails with `EMFILE` while a connection is pending: the spare descriptor is
released, exactly one pending connection is accepted and closed at once (never handed to the callback), and
the spare descriptor is re-opened — the connection is closed rather than left pending, and the listener is
ready for the next `EMFILE` -/
theorem emfile_closes (a : Acc) (rest : List AcceptRes) (hr : a.results = .err 24 :: .ok :: rest)
    (hi : a.idle = .devnull) :
    handleRead a = { a with results := rest, naccepted := a.naccepted + 1, opened := a.opened + 2, closedN := a.closedN + 2,
                            trace := a.trace ++ [.idleClosed, .accepted (a.naccepted + 1), .closed (a.naccepted + 1), .idleOpened] } :=
  handleRead_emfile_pending a 24 rest hr (by decide) (by decide) hi

open MuduoVerif.Acceptor in
/-- … and when nothing is pending after all (the raw `accept` fails too) only the spare descriptor is cycled -/
theorem emfile_nothing_pending (a : Acc) (e2 : Nat) (rest : List AcceptRes) (hr : a.results = .err 24 :: .err e2 :: rest)
    (hi : a.idle = .devnull) :
    handleRead a = { a with results := rest, opened := a.opened + 1, closedN := a.closedN + 1,
                            trace := a.trace ++ [.idleClosed, .idleOpened] } :=
  handleRead_emfile_none a 24 e2 rest hr (by decide) (by decide) hi

open MuduoVerif.Acceptor in
/-- **accept_fault_silent**: `EAGAIN`, `ECONNABORTED`, `EINTR` (every expected errno but `EMFILE`): the result
is consumed; no callback, no close, no abort, the listener is exactly as before -/
theorem accept_fault_silent (a : Acc) (e : Nat) (rest : List AcceptRes) (he : e = 11 ∨ e = 103 ∨ e = 4)
    (hr : a.results = .err e :: rest) :
    handleRead a = { a with results := rest } := by
  apply handleRead_silent a e rest hr
  rcases he with h | h | h <;> subst h <;> exact ⟨by decide, by decide⟩

open MuduoVerif.Acceptor in
/-- **accept_faults_oblivious / resume**: any finite sequence of iterations in which `accept` fails with
`EAGAIN`/`ECONNABORTED`/`EINTR`, and any interrupted polls, leave the listener in exactly the state it was in:
the rest of the history proceeds as if the faults had not happened -/
theorem accept_faults_oblivious (a : Acc) (h : Ready a) (es : List Nat) (hs : ∀ e ∈ es, e = 11 ∨ e = 103 ∨ e = 4)
    (rest : List Acceptor.Input) :
    Acceptor.run a (es.flatMap faultIter ++ rest) = Acceptor.run a rest ∧
    Acceptor.run a (.iter false :: rest) = Acceptor.run a rest := by
  refine ⟨silent_faults_oblivious a h es ?_ rest, interrupted_poll_noop a rest⟩
  intro e he
  rcases hs e he with h | h | h <;> subst h <;> exact ⟨by decide, by decide⟩

open MuduoVerif.Acceptor in
/-- **resumes_after_faults**: after any such faults, the first iteration whose `accept` succeeds hands the
connection to the callback (or closes it when none is set) -/
theorem resumes_after_faults (a : Acc) (h : Ready a) (es : List Nat) (hs : ∀ e ∈ es, e = 11 ∨ e = 103 ∨ e = 4) :
    Acceptor.run a (es.flatMap faultIter ++ [.envAccept .ok, .iter true]) = accepted a := by
  rw [(accept_faults_oblivious a h es hs _).1]
  simp only [Acceptor.run, List.foldl, Acceptor.step, h.noResults, List.nil_append, h.notDead, h.alive, h.listening]
  simp only [Bool.not_true, Bool.or_self, Bool.false_eq_true, if_false]
  rw [handleRead_ok _ [] rfl]
  congr 1
  have h0 := h.noResults; have h1 := h.alive; have h2 := h.listening; have h3 := h.notDead
  cases a; simp_all

open MuduoVerif.Acceptor in
/-- **listening_continues**: whatever `accept` returns, the listener stays registered until it is destroyed -/
theorem listening_continues (a : Acc) (ins : List Acceptor.Input) (hl : a.listening = true)
    (hd : ∀ i ∈ ins, i ≠ .destroy) : (Acceptor.run a ins).listening = true :=
  run_listening ins a hl hd

open MuduoVerif.Acceptor in
/-- **no_abort_under_faults**: as long as every `accept` result is a success or one of the expected errnos
(`EAGAIN`, `ECONNABORTED`, `EINTR`, `EPROTO`, `EPERM`, `EMFILE`), nothing aborts: the process never reaches a
`LOG_FATAL` -/
theorem no_abort_under_faults (cb : Bool) (ins : List Acceptor.Input)
    (hb : ∀ r, Acceptor.Input.envAccept r ∈ ins → r = .ok ∨ ∃ e, r = .err e ∧ e ∈ [11, 103, 4, 71, 1, 24]) :
    (Acceptor.run { hasCb := cb } ins).dead = false ∧
    ∀ e ∈ (Acceptor.run { hasCb := cb } ins).trace, e.isAbort = false := by
  have h0 : Safe ({ hasCb := cb } : Acc) := ⟨rfl, by simp, by simp⟩
  have hs := run_safe ins _ h0 (by
    intro r hr
    rcases hb r hr with h | ⟨e, h, he⟩
    · rw [h]; trivial
    · rw [h]
      simp only [List.mem_cons, List.not_mem_nil, or_false] at he
      rcases he with h | h | h | h | h | h <;> subst h <;> (show Gen.Acceptor.classifyAccept _ = .expected) <;> decide)
  exact ⟨hs.notDead, hs.noAbort⟩

open MuduoVerif.Acceptor in
/-- non-vacuity: three clients; the first is accepted, `EAGAIN`, `EINTR`, `ECONNABORTED` and an interrupted
poll delay the second, which `EMFILE` then closes; the third is accepted; the first is closed by its owner;
destruction: two descriptors opened and closed per connection path, nothing leaked -/
example :
    let ins : List Acceptor.Input :=
      [.listen, .envAccept .ok, .iter true, .envAccept (.err 11), .iter true, .envAccept (.err 4), .iter true,
       .iter false, .envAccept (.err 103), .iter true, .envAccept (.err 24), .envAccept .ok, .iter true,
       .envAccept .ok, .iter true, .userClose 1, .destroy]
    (Acceptor.run {} ins).trace =
      [.accepted 1, .newConn 1, .idleClosed, .accepted 2, .closed 2, .idleOpened, .accepted 3, .newConn 3,
       .userClosed 1, .idleClosed] ∧
    (Acceptor.run {} ins).held = [3] ∧ (Acceptor.run {} ins).opened = 5 ∧ (Acceptor.run {} ins).closedN = 4 := by
  decide

/-! ## T1, the socket primitives -/

/-- T1, the I/O primitives are single system calls.  The models take the result of every `write`, `readv`, `read`,
`accept`, `connect`, `SO_ERROR` query as ONE environment input and `close` / `shutdown(SHUT_WR)` as one event; that is
what the wrappers of `SocketsOps.cc` / `Socket.cc` do in /repo's current sources (`Generated/SysSkel.lean`, re-extracted
on every run; `Proofs/SysSkelTie.lean`): `sockets::write/read/readv/connect` are exactly one system call with the
arguments passed through and the result returned unchanged (`SysSkel.passThrough`: no retry, no loop, no rewriting of a
short count or of `errno` - the assumption behind `Conn.WriteRes`, `Conn.ReadRes`, `Client.envConnect`);
`sockets::close` / `sockets::shutdownWrite` are one `close` / one `shutdown(.., SHUT_WR)` whose failure is only logged;
`sockets::getSocketError` is one `getsockopt(SOL_SOCKET, SO_ERROR)` returning `optval` (or `errno` when the query
fails); `sockets::accept` is one `accept4(.., SOCK_NONBLOCK | SOCK_CLOEXEC)` followed, on failure, by the errno `switch`
whose label groups are `Gen.Acceptor.acceptTable` - the table `Acceptor.handleRead` classifies with (`class_accept`) -
and `Socket::accept` hands that result through, storing the peer address only on success. -/
theorem io_primitives_are_single_syscalls :
    Gen.SysSkel.socketsWrite = SysSkel.passThrough "write" "sockfd, buf, count" ∧
    Gen.SysSkel.socketsRead = SysSkel.passThrough "read" "sockfd, buf, count" ∧
    Gen.SysSkel.socketsReadv = SysSkel.passThrough "readv" "sockfd, iov, iovcnt" ∧
    Gen.SysSkel.socketsConnect = SysSkel.passThrough "connect" "sockfd, addr, sizeof(sockaddr_in6)" ∧
    Gen.SysSkel.socketsClose =
      [.act (.sys "close" "sockfd"), .ite "<result> < 0" [.act (.log .syserr)] []] ∧
    Gen.SysSkel.socketsShutdownWrite =
      [.act (.sys "shutdown" "sockfd, SHUT_WR"), .ite "<result> < 0" [.act (.log .syserr)] []] ∧
    Gen.SysSkel.socketShutdownWrite = [.act (.call "sockets::shutdownWrite" "sockfd_")] ∧
    Gen.SysSkel.getSocketError =
      [.act (.assign "optlen" "sizeof(optval)"), .act (.sys "getsockopt" "sockfd, 1, 4, &optval, &optlen"),
       .ite "<result> < 0" [.act (.ret "errno")] [.act (.ret "optval")]] ∧
    Gen.SysSkel.socketsAccept = SysSkel.Decl.socketsAccept ∧
    Gen.SysSkel.socketAccept = SysSkel.Decl.socketAccept ∧
    SysSkel.labelGroups SysSkel.acceptSwitchBody =
      [ (Gen.Acceptor.acceptTable.filter (fun e => e.2 = .expected)).map (fun e => toString e.1),
        (Gen.Acceptor.acceptTable.filter (fun e => e.2 = .unexpected)).map (fun e => toString e.1),
        ["default"] ] :=
  ⟨SysSkel.skeleton_socketsWrite, SysSkel.skeleton_socketsRead, SysSkel.skeleton_socketsReadv,
   SysSkel.skeleton_socketsConnect, SysSkel.skeleton_socketsClose, SysSkel.skeleton_socketsShutdownWrite,
   SysSkel.skeleton_socketShutdownWrite, SysSkel.skeleton_getSocketError, SysSkel.skeleton_socketsAccept,
   SysSkel.skeleton_socketAccept, SysSkel.accept_switch_is_acceptTable.1⟩

/-- **acceptor_statement_order_tied** (T1, statement order of the listener).  Every function of /repo's current
`Acceptor.cc` has the statement skeleton `Model/Acceptor.lean` assumes (`Model/LoopSkelDecl.lean`; re-extracted on every
run by `vlib/gen/loopskel.py`, proved equal in `Proofs/LoopSkelTie.lean`), and of the EXTRACTED skeletons: (i)
`Acceptor::listen` is loop-thread assertion, `listening_ = true`, `acceptSocket_.listen()`, `enableReading()` - the socket
listens BEFORE the channel is subscribed, so a readable report means a pending connection; the constructor creates the
socket, opens the spare descriptor, sets the reuse flags and binds before it installs the read callback, and neither
subscribes the channel nor listens; `~Acceptor` is `disableAll` -> `remove` -> `::close(idleFd_)`; `handleRead` makes one
`accept`, hands `(connfd, peerAddr)` to the callback when there is one and closes the descriptor otherwise, logs a
failure and - exactly under `errno == EMFILE` - closes the spare descriptor, accepts into it, closes it and reopens
`/dev/null`, in that order (`Gen.Acceptor.emfileSeq`, which `Acceptor.runIdle` interprets). -/
theorem acceptor_statement_order_tied :
    (Gen.LoopSkel.acceptorCtor = LoopSkel.Decl.acceptorCtor ∧
     Gen.LoopSkel.acceptorDtor = LoopSkel.Decl.acceptorDtor ∧
     Gen.LoopSkel.acceptorListen = LoopSkel.Decl.acceptorListen ∧
     Gen.LoopSkel.acceptorHandleRead = LoopSkel.Decl.acceptorHandleRead) ∧
    (LoopSkel.flat Gen.LoopSkel.acceptorListen =
       [.call "loop_.assertInLoopThread" "", .store "listening_" "true", .call "acceptSocket_.listen" "",
        .call "acceptChannel_.enableReading" ""] ∧
     LoopSkel.before (.call "acceptSocket_.listen" "") (.call "acceptChannel_.enableReading" "")
       (LoopSkel.flat Gen.LoopSkel.acceptorListen) = true) ∧
    (LoopSkel.inOrder [.call "sockets::createNonblockingOrDie" "listenAddr.family()", .store "acceptSocket_" "<result>",
                       .store "acceptChannel_" "Channel(loop, acceptSocket_.fd())", .store "listening_" "false",
                       .sys "open" "\"/dev/null\", 0 | 524288", .store "idleFd_" "<result>", .assertion "idleFd_ >= 0",
                       .call "acceptSocket_.setReuseAddr" "true", .call "acceptSocket_.setReusePort" "reuseport",
                       .call "acceptSocket_.bindAddress" "listenAddr",
                       .call "acceptChannel_.setReadCallback" "bind(&Acceptor::handleRead, this)"]
       (LoopSkel.flat Gen.LoopSkel.acceptorCtor) = true ∧
     (LoopSkel.flat Gen.LoopSkel.acceptorCtor).contains (.call "acceptChannel_.enableReading" "") = false ∧
     (LoopSkel.flat Gen.LoopSkel.acceptorCtor).contains (.call "acceptSocket_.listen" "") = false) ∧
    LoopSkel.flat Gen.LoopSkel.acceptorDtor =
      [.call "acceptChannel_.disableAll" "", .call "acceptChannel_.remove" "", .sys "close" "idleFd_"] ∧
    ((LoopSkel.flat Gen.LoopSkel.acceptorHandleRead).take 3 =
       [.call "loop_.assertInLoopThread" "", .call "acceptSocket_.accept" "&peerAddr", .assign "connfd" "<result>"] ∧
     LoopSkel.thenOf "connfd >= 0" Gen.LoopSkel.acceptorHandleRead =
       [.ite "newConnectionCallback_" [.act (.call "newConnectionCallback_" "connfd, peerAddr")]
          [.act (.call "sockets::close" "connfd")]] ∧
     (LoopSkel.elseOf "connfd >= 0" Gen.LoopSkel.acceptorHandleRead).head? = some (.act (.log .syserr)) ∧
     LoopSkel.thenOf "errno == 24" (LoopSkel.elseOf "connfd >= 0" Gen.LoopSkel.acceptorHandleRead) =
       [.act (.sys "close" "idleFd_"), .act (.sys "accept" "acceptSocket_.fd(), NULL, NULL"),
        .act (.store "idleFd_" "<result>"), .act (.sys "close" "idleFd_"),
        .act (.sys "open" "\"/dev/null\", 0 | 524288"), .act (.store "idleFd_" "<result>")] ∧
     LoopSkel.elseOf "errno == 24" (LoopSkel.elseOf "connfd >= 0" Gen.LoopSkel.acceptorHandleRead) = [] ∧
     LoopSkel.flat (LoopSkel.dropIte "errno == 24" (LoopSkel.elseOf "connfd >= 0" Gen.LoopSkel.acceptorHandleRead)) =
       [.log .syserr]) :=
  ⟨LoopSkel.skeletons_agree_acceptor, LoopSkel.acceptorListen_order, LoopSkel.acceptorCtor_order,
   LoopSkel.acceptorDtor_order, LoopSkel.acceptorHandleRead_structure⟩

end MuduoVerif.C11
