import MuduoVerif.Proofs.Calendar
import MuduoVerif.Proofs.Zone
import MuduoVerif.Proofs.Inet
import MuduoVerif.Proofs.SysSkelTie
import MuduoVerif.Proofs.TzFile
import MuduoVerif.Proofs.TzFileSkelTie
import MuduoVerif.Proofs.TsText
/-!
# C20 — calendar, time-zone and address conversions round-trip and agree with their specification

Property theorems only; lemmas live in `Proofs/Calendar*.lean`, `Proofs/Zone.lean`, `Proofs/Inet.lean`.

* the calendar functions (`getJulianDayNumber`, `getYearMonthDay`, `Date::weekDay`, `BreakTime`,
  `fromUtcTime`, `fillHMS`) are **the code of /repo translated statement by statement**
  (`Generated/Calendar.lean`, C semantics `Int.tdiv`/`Int.tmod`, regenerated on every run);
* every comparison and every piece of arithmetic of the two `findLocalTime` look-ups, the choice of
  `std::upper_bound` and the offset arithmetic of `toLocalTime`/`fromLocalTime` are generated too
  (`Generated/Zone.lean`); the control structure around them is `Model/Zone.lean`;
* the specification side is independent of the code: the proleptic Gregorian calendar from its
  rules (`isLeap`, `daysInMonth`, `nextDay`, `civilFrom` = counting days one by one).

Integer widths are not modelled: the statements are about unbounded integers; the code computes the
same values as long as no intermediate leaves `int` (`|4·(day number + 32044) + 3| < 2^31`, i.e. years up
to about ±1.4 million), see the plug-in's assumptions.
-/
namespace MuduoVerif.C20
open MuduoVerif.Gen.Calendar MuduoVerif.Calendar MuduoVerif.CalendarE MuduoVerif.Zone MuduoVerif.Inet

/-! ## day numbers -/

/-- **year-month-day → day number → year-month-day** for every valid civil date from -4800-03-01 on
(no upper bound). -/
theorem jdn_roundtrip_civil (y m d : Int) (hv : validDate y m d) (hy : inRange y m) :
    getYearMonthDay (getJulianDayNumber y m d) = ⟨y, m, d⟩ :=
  gen_ymd_jdn y m d hv hy

/-- **day number → year-month-day → day number** for every day number from that of -4800-03-01 on;
the date produced is a valid civil date. -/
theorem jdn_roundtrip_number (j : Int) (hj : jdnMin ≤ j) :
    validDate (getYearMonthDay j).year (getYearMonthDay j).month (getYearMonthDay j).day ∧
    getJulianDayNumber (getYearMonthDay j).year (getYearMonthDay j).month (getYearMonthDay j).day = j :=
  ⟨(gen_jdn_ymd j hj).1, (gen_jdn_ymd j hj).2.2⟩

/-- the lower end of the range is the day -4800-03-01 itself -/
theorem jdn_range_start : getYearMonthDay jdnMin = ⟨-4800, 3, 1⟩ ∧ getJulianDayNumber (-4800) 3 1 = jdnMin := by
  decide

/-- **consecutive day numbers are consecutive civil days**: the date of `j+1` is the calendar
successor (end of month / leap February / end of year by the Gregorian rules) of the date of `j`. -/
theorem jdn_succ (j : Int) (hj : jdnMin ≤ j) :
    toCivil (getYearMonthDay (j + 1)) = nextDay (toCivil (getYearMonthDay j)) :=
  gen_ymd_succ j hj

/-- hence `getYearMonthDay` **is** day counting: `n` days after day `j` is the `n`-fold successor
(the independent specification of the proleptic Gregorian calendar). -/
theorem jdn_counts_days (j : Int) (n : Nat) (hj : jdnMin ≤ j) :
    toCivil (getYearMonthDay (j + n)) = civilFrom (toCivil (getYearMonthDay j)) n :=
  gen_ymd_civilFrom j n hj

/-- anchor of the day count: day 2440588 is 1970-01-01, the constant the code derives -/
theorem jdn_epoch : kJulianDayOf1970_01_01 = 2440588 ∧ getYearMonthDay 2440588 = ⟨1970, 1, 1⟩ := by
  decide

/-- **one-to-one**: two valid civil dates with the same day number are the same date. -/
theorem jdn_injective (y m d y' m' d' : Int) (hv : validDate y m d) (hy : inRange y m)
    (hv' : validDate y' m' d') (hy' : inRange y' m')
    (h : getJulianDayNumber y m d = getJulianDayNumber y' m' d') : (y, m, d) = (y', m', d') := by
  have a := jdn_roundtrip_civil y m d hv hy
  have b := jdn_roundtrip_civil y' m' d' hv' hy'
  rw [h, b] at a
  simp only [YearMonthDay.mk.injEq] at a
  simp only [Prod.mk.injEq]
  exact ⟨a.1.symm, a.2.1.symm, a.2.2.symm⟩

/-- **monotone**: the day after a valid date has the next day number. -/
theorem jdn_next_day (y m d : Int) (hv : validDate y m d) (hy : inRange y m) :
    getJulianDayNumber (nextDay ⟨y, m, d⟩).year (nextDay ⟨y, m, d⟩).month (nextDay ⟨y, m, d⟩).day
      = getJulianDayNumber y m d + 1 := by
  have hj := jdnE_ge y m d hv hy
  have e := gen_jdn_eq y m d hv.1 hv.2.1 hy
  have s := gen_ymd_succ (jdnE y m d) hj
  rw [← e, jdn_roundtrip_civil y m d hv hy] at s
  have hs : nextDay ⟨y, m, d⟩ = toCivil (getYearMonthDay (getJulianDayNumber y m d + 1)) := s.symm
  rw [hs]
  exact (gen_jdn_ymd _ (by rw [e]; unfold jdnMin at *; omega)).2.2

/-- **weekday**: `Date::weekDay` is `(j+1) mod 7` (0 = Sunday), advances by one per day, and
1970-01-01 was a Thursday. -/
theorem weekday (j : Int) (hj : -1 ≤ j) :
    Date_weekDay j = (j + 1) % 7 ∧ Date_weekDay (j + 1) = (Date_weekDay j + 1) % 7 ∧
    Date_weekDay kJulianDayOf1970_01_01 = 4 := by
  refine ⟨gen_weekDay j hj, ?_, by decide⟩
  rw [gen_weekDay j hj, gen_weekDay (j + 1) (by omega)]
  omega

/-! ## seconds since the epoch ↔ civil fields -/

/-- **`fromUtcTime (BreakTime t) = t`** for every instant from -4800-03-01 00:00:00 on. -/
theorem break_roundtrip (t : Int) (ht : tMin ≤ t) : fromUtcTime (BreakTime t) = t :=
  gen_fromUtc_break t ht

/-- the converse for every valid civil date-time. -/
theorem unbreak_roundtrip (dt : DateTime) (hv : validDate dt.year dt.month dt.day)
    (hy : inRange dt.year dt.month) (hf : DateTime.fieldsOk dt) : BreakTime (fromUtcTime dt) = dt :=
  gen_break_fromUtc dt hv hy hf

/-- **`BreakTime` agrees with the proleptic Gregorian calendar**: the date is found by counting whole
days from -4800-03-01 with the Gregorian successor rule, the time of day is the remainder split by
3600 and 60.  (Hence it agrees with any correct `gmtime`; that glibc's is one is a tested claim.) -/
theorem break_spec (t : Int) (ht : tMin ≤ t) :
    (⟨(BreakTime t).year, (BreakTime t).month, (BreakTime t).day⟩ : Civil)
      = civilFrom ⟨-4800, 3, 1⟩ ((t - tMin) / 86400).toNat ∧
    (BreakTime t).hour = (t - tMin) % 86400 / 3600 ∧
    (BreakTime t).minute = (t - tMin) % 86400 % 3600 / 60 ∧
    (BreakTime t).second = (t - tMin) % 86400 % 60 := by
  have hb := gen_BreakTime_eq t ht
  have htm : tMin = -213635404800 := by decide
  rw [htm] at ht ⊢
  have hd : 0 ≤ (t - -213635404800) / 86400 := Int.ediv_nonneg (by omega) (by decide)
  have e1 : t / 86400 + 2440588 = jdnMin + (((t - -213635404800) / 86400).toNat : Int) := by
    rw [Int.toNat_of_nonneg hd]; unfold jdnMin; omega
  have e2 : t % 86400 = (t - -213635404800) % 86400 := by omega
  have hc := ymdE_civilFrom jdnMin ((t - -213635404800) / 86400).toNat
  have h0 : ymdE jdnMin = ⟨-4800, 3, 1⟩ := by decide
  rw [h0] at hc
  rw [hb]
  simp only [breakE, e1, e2, hc]
  exact ⟨trivial, trivial, trivial, trivial⟩

/-! ## time zones -/

/-- **UTC look-up**: for well-formed zone data and every instant from the first transition on, the
look-up returns the record of the last transition `≤ t` (the unique `k` with
`u k ≤ t < u (k+1)`). Before the first transition, and without transitions, it is `localtimes.front()`. -/
theorem zone_lookup_spec (d : Data) (h : WF d) (t : Int) :
    (0 < d.n → d.u 0 ≤ t → ∃ k, InEra d k t ∧ (∀ k', InEra d k' t → k' = k) ∧ findUtc d t = d.lrec k) ∧
    (d.n = 0 ∨ t < d.u 0 → findUtc d t = d.lt 0) := by
  constructor
  · intro hn ht
    obtain ⟨k, hk⟩ := exists_era h t hn ht
    exact ⟨k, hk, fun k' hk' => era_unique h hk' hk, findUtc_eq h hk⟩
  · rintro (hn | ht)
    · exact findUtc_fixed hn t
    · exact findUtc_before t ht

/-- the instant `fromLocalTime` computes for the local time of `t` -/
theorem fromLocal_toLocal (d : Data) (t : Int) (post : Bool)
    (hr : tMin ≤ t + (findUtc d t).utcOffset) :
    fromLocalTime d (toLocalTime d t).1 post
      = t + (findUtc d t).utcOffset - (findLocal d (t + (findUtc d t).utcOffset) post).utcOffset := by
  simp only [fromLocalTime, toLocalTime, Gen.Zone.toLocalShift, Gen.Zone.fromLocalShift]
  rw [break_roundtrip _ hr]

/-- **zone round trip**: for well-formed zone data and every instant `t` from the first transition on
(in era `k`; local time representable, i.e. not before year -4800), converting to local time and back
returns `t`
* on **both** sides when the local time is unambiguous,
* on side `postTransition = false` when `t` is the earlier instant of a repeated period — and side
  `true` then returns the later instant with the same local time,
* on side `postTransition = true` when `t` is the later instant — and side `false` returns the earlier one.
This includes the period repeated by the **last** transition of the data (`k + 1 = n`) and the one repeated by the
**first** (`k = 0`: before it `localtimes.front()` is in force, `Data.oPrev d 0`; the earlier instant then lies before
the first transition - `zone_roundtrip_before` is the statement from its side). -/
theorem zone_roundtrip (d : Data) (h : WF d) (k : Nat) (t : Int) (hk : InEra d k t)
    (hr : tMin ≤ t + d.o k) :
    let back := fun post => fromLocalTime d (toLocalTime d t).1 post
    (EarlierCopy d k t → back false = t ∧ back true = t + d.o k - d.o (k + 1) ∧ d.u (k + 1) ≤ back true) ∧
    (LaterCopy d k t → back true = t ∧ back false = t + d.o k - d.oPrev k ∧ back false < d.u k) ∧
    (¬ EarlierCopy d k t → ¬ LaterCopy d k t → ∀ post, back post = t) := by
  intro back
  have hu : findUtc d t = d.lrec k := findUtc_eq h hk
  have ho : (findUtc d t).utcOffset = d.o k := by rw [hu]; rfl
  have hb : ∀ post, back post = t + d.o k - (findLocal d (t + d.o k) post).utcOffset := by
    intro post
    have := fromLocal_toLocal d t post (by rw [ho]; exact hr)
    rw [ho] at this
    exact this
  have eo : ∀ i, (d.lrec i).utcOffset = d.o i := fun _ => rfl
  refine ⟨?_, ?_, ?_⟩
  · intro he
    have hl : ¬ LaterCopy d k t := fun hl => not_both h hk ⟨he, hl⟩
    rw [hb false, hb true, findLocal_era h hk false, findLocal_era h hk true]
    simp only [he, if_true, Bool.false_eq_true, if_false, eo]
    obtain ⟨_, e2⟩ := he
    refine ⟨?_, ?_, ?_⟩ <;> first | trivial | omega
  · intro hl
    have he : ¬ EarlierCopy d k t := fun he => not_both h hk ⟨he, hl⟩
    rw [hb false, hb true, findLocal_era h hk false, findLocal_era h hk true]
    simp only [he, hl, if_true, Bool.false_eq_true, if_false, eo, prevRec_offset]
    unfold LaterCopy at hl
    refine ⟨?_, ?_, ?_⟩ <;> first | trivial | omega
  · intro he hl post
    rw [hb post, findLocal_era h hk post]
    simp only [he, hl, if_false, eo]
    omega

/-- the two instants of a repeated period really have the same local time: the instant returned for
the other side lies in the neighbouring era and breaks down to the same civil fields. -/
theorem zone_repeated_same_local (d : Data) (h : WF d) (k : Nat) (t : Int) (hk : InEra d k t) :
    (EarlierCopy d k t → InEra d (k + 1) (t + d.o k - d.o (k + 1)) ∧
      (toLocalTime d (t + d.o k - d.o (k + 1))).1 = (toLocalTime d t).1) ∧
    (LaterCopy d k t → (0 < k → InEra d (k - 1) (t + d.o k - d.oPrev k)) ∧ (k = 0 → t + d.o k - d.oPrev k < d.u 0) ∧
      (toLocalTime d (t + d.o k - d.oPrev k)).1 = (toLocalTime d t).1) := by
  have hu : findUtc d t = d.lrec k := findUtc_eq h hk
  have eo : ∀ i, (d.lrec i).utcOffset = d.o i := fun _ => rfl
  obtain ⟨h1, h2, h3⟩ := hk
  constructor
  · rintro ⟨e1, e2⟩
    have g := h.gap k e1
    have c := chg_ge d (k + 1) (by omega)
    simp only [Nat.add_sub_cancel] at c
    have hn := chg_nonneg d k
    have ht := h3 e1
    have era : InEra d (k + 1) (t + d.o k - d.o (k + 1)) := by
      refine ⟨e1, by omega, ?_⟩
      intro hh
      have g2 := h.gap (k + 1) hh
      have := chg_nonneg d (k + 1 + 1)
      omega
    refine ⟨era, ?_⟩
    simp only [toLocalTime, findUtc_eq h era, hu, eo, Gen.Zone.toLocalShift]
    congr 1; omega
  · intro l2
    unfold LaterCopy at l2
    by_cases l1 : 0 < k
    · have hkk : k - 1 + 1 = k := by omega
      have g := h.gap (k - 1) (by omega)
      rw [hkk] at g
      have c := chg_ge d k l1
      have hn := chg_nonneg d (k - 1)
      have hp := oPrev_pos d k l1
      rw [hp] at l2 ⊢
      have era : InEra d (k - 1) (t + d.o k - d.o (k - 1)) := by
        refine ⟨by omega, by omega, ?_⟩
        intro _
        rw [hkk]; omega
      refine ⟨fun _ => era, fun hk0 => absurd hk0 (by omega), ?_⟩
      simp only [toLocalTime, findUtc_eq h era, hu, eo, Gen.Zone.toLocalShift]
      congr 1; omega
    · have hk0 : k = 0 := by omega
      subst hk0
      rw [oPrev_zero] at l2 ⊢
      have hb : t + d.o 0 - (d.lt 0).utcOffset < d.u 0 := by omega
      refine ⟨fun hh => absurd hh (by omega), fun _ => hb, ?_⟩
      simp only [toLocalTime, findUtc_before _ hb, hu, eo, Gen.Zone.toLocalShift]
      congr 1; omega

/-- **skipped local times**: a civil time that transition `k+1` jumped over (from the first local
second it skipped up to the last) is converted with the offset of the requested side: the offset in
force after the transition for `postTransition = true` (an instant before it), the one before it
for `false` (an instant at or after it). -/
theorem zone_skipped (d : Data) (h : WF d) (k : Nat) (dt : DateTime) (hk : k + 1 < d.n)
    (h1 : d.u (k + 1) + d.o k ≤ fromUtcTime dt) (h2 : fromUtcTime dt < d.u (k + 1) + d.o (k + 1)) :
    fromLocalTime d dt true = fromUtcTime dt - d.o (k + 1) ∧ fromLocalTime d dt true < d.u (k + 1) ∧
    fromLocalTime d dt false = fromUtcTime dt - d.o k ∧ d.u (k + 1) ≤ fromLocalTime d dt false := by
  have eo : ∀ i, (d.lrec i).utcOffset = d.o i := fun _ => rfl
  simp only [fromLocalTime, Gen.Zone.fromLocalShift, findLocal_skipped h hk h1 h2, if_true,
    Bool.false_eq_true, if_false, eo]
  refine ⟨?_, ?_, ?_, ?_⟩ <;> first | trivial | omega

/-- **instants before the first transition** (there `localtimes.front()` is in force - `zone_lookup_spec`): converting to
local time and back returns `t` on side `postTransition = false` when the first transition repeats that local time
(and side `true` then returns the later instant, in the first transition's era), on both sides otherwise. -/
theorem zone_roundtrip_before (d : Data) (h : WF d) (hn : 0 < d.n) (t : Int) (ht : t < d.u 0)
    (hr : tMin ≤ t + d.oPrev 0) :
    let back := fun post => fromLocalTime d (toLocalTime d t).1 post
    (d.u 0 + d.o 0 ≤ t + d.oPrev 0 → back false = t ∧ back true = t + d.oPrev 0 - d.o 0 ∧ d.u 0 ≤ back true) ∧
    (t + d.oPrev 0 < d.u 0 + d.o 0 → ∀ post, back post = t) := by
  intro back
  have hu : findUtc d t = d.lt 0 := findUtc_before t ht
  have ho : (findUtc d t).utcOffset = d.oPrev 0 := by rw [hu]; rfl
  have hb : ∀ post, back post = t + d.oPrev 0 - (findLocal d (t + d.oPrev 0) post).utcOffset := by
    intro post
    have := fromLocal_toLocal d t post (by rw [ho]; exact hr)
    rw [ho] at this
    exact this
  have eo : (d.lrec 0).utcOffset = d.o 0 := rfl
  have e0 : (d.lt 0).utcOffset = d.oPrev 0 := rfl
  have hf := fun post => findLocal_before h hn ht post
  simp only [e0] at hf
  constructor
  · intro hc
    rw [hb false, hb true, hf false, hf true]
    simp only [hc, if_true, Bool.false_eq_true, if_false, eo, e0]
    refine ⟨?_, ?_, ?_⟩ <;> first | trivial | omega
  · intro hc post
    rw [hb post, hf post]
    have : ¬ (d.u 0 + d.o 0 ≤ t + d.oPrev 0) := by omega
    simp only [this, if_false, e0]
    omega

/-- **local times skipped by the first transition**: resolved like every other skipped time - the offset in force
after the transition for `postTransition = true` (an instant before it), `localtimes.front()`'s for `false`. -/
theorem zone_skipped_first (d : Data) (h : WF d) (hn : 0 < d.n) (dt : DateTime)
    (h1 : d.u 0 + d.oPrev 0 ≤ fromUtcTime dt) (h2 : fromUtcTime dt < d.u 0 + d.o 0) :
    fromLocalTime d dt true = fromUtcTime dt - d.o 0 ∧ fromLocalTime d dt true < d.u 0 ∧
    fromLocalTime d dt false = fromUtcTime dt - d.oPrev 0 ∧ d.u 0 ≤ fromLocalTime d dt false := by
  have eo : (d.lrec 0).utcOffset = d.o 0 := rfl
  have e0 : (d.lt 0).utcOffset = d.oPrev 0 := rfl
  have hs : d.u 0 - 1 + d.oPrev 0 < fromUtcTime dt := by omega
  simp only [fromLocalTime, Gen.Zone.fromLocalShift, findLocal_beforeFirst h hn h2, e0, hs, and_true, true_and, if_true,
    Bool.false_eq_true, if_false, eo]
  omega

/-- zones without transitions (fixed offset): the round trip holds for every instant on both sides. -/
theorem zone_roundtrip_fixed (d : Data) (hn : d.n = 0) (t : Int) (post : Bool)
    (hr : tMin ≤ t + (d.lt 0).utcOffset) : fromLocalTime d (toLocalTime d t).1 post = t := by
  have hu := findUtc_fixed hn t
  rw [fromLocal_toLocal d t post (by rw [hu]; exact hr), hu, findLocal_fixed hn]
  omega

/-- what `addTransition` stores is what well-formedness asks for (first clause of `WF`) -/
theorem addTransition_local (d d' : Data) (u : Int) (i : Nat) (h : d.addTransition u i = some d') :
    d'.n = d.n + 1 ∧ d'.localtimes = d.localtimes ∧
    (d'.tr d.n).localtime = (d'.tr d.n).utctime + (d'.lt (d'.tr d.n).localtimeIdx).utcOffset := by
  unfold Data.addTransition at h
  split at h
  · simp only [Option.some.injEq] at h
    subst h
    simp [Data.n, Data.tr, Data.lt, Gen.Zone.shiftedLocal]
  · exact absurd h (by simp)

/-- non-vacuity: a concrete well-formed table with a skipped and a repeated hour, the repeated one
created by the LAST transition; the round trip on its right side, evaluated. -/
def sample : Data :=
  { localtimes := #[⟨0, false, 0⟩, ⟨3600, true, 4⟩]
    transitions := #[⟨1000000, 1003600, 1⟩, ⟨2000000, 2000000, 0⟩] }

theorem sample_wf : WF sample ∧ InEra sample 1 2001800 ∧ LaterCopy sample 1 2001800 ∧
    InEra sample 0 1998200 ∧ EarlierCopy sample 0 1998200 ∧
    fromLocalTime sample (toLocalTime sample 2001800).1 true = 2001800 ∧
    fromLocalTime sample (toLocalTime sample 2001800).1 false = 1998200 := by
  decide

/-! ## IPv4 text and byte order -/

/-- **`parse (print a p) = (a, p)`** for all 2^32 addresses and 2^16 ports. -/
theorem ipv4_roundtrip (a p : Nat) (ha : a < 2 ^ 32) (hp : p < 2 ^ 16) :
    parseIpPort (toIpPort a p) = some (a, p) ∧ parseIp (toIp a) = some a :=
  ⟨parseIpPort_toIpPort a p ha hp, parseIp_toIp a ha⟩

/-- the accepted texts are exactly the printed ones (canonical form): whatever parses prints back
to the same text, and is in range. -/
theorem ipv4_parse_canonical (s : String) (a p : Nat) (h : parseIpPort s = some (a, p)) :
    a < 2 ^ 32 ∧ p < 2 ^ 16 ∧ toIpPort a p = s :=
  parseIpPort_sound s a p h

/-- printing is one-to-one -/
theorem ipv4_print_injective (a p b q : Nat) (ha : a < 2 ^ 32) (hp : p < 2 ^ 16) (hb : b < 2 ^ 32)
    (hq : q < 2 ^ 16) (h : toIpPort a p = toIpPort b q) : a = b ∧ p = q :=
  toIpPort_injective a p b q ha hp hb hq h

/-- **`networkToHostN (hostToNetworkN x) = x`** for 16, 32 and 64 bits, and the converted value lies
in memory most significant byte first. -/
theorem be_roundtrip (x : Nat) :
    (x < 2 ^ 16 → networkToHost 2 (hostToNetwork 2 x) = x ∧ memLE 2 (hostToNetwork 2 x) = Buffer.encodeBE 2 x) ∧
    (x < 2 ^ 32 → networkToHost 4 (hostToNetwork 4 x) = x ∧ memLE 4 (hostToNetwork 4 x) = Buffer.encodeBE 4 x) ∧
    (x < 2 ^ 64 → networkToHost 8 (hostToNetwork 8 x) = x ∧ memLE 8 (hostToNetwork 8 x) = Buffer.encodeBE 8 x) :=
  ⟨fun h => ⟨be16_roundtrip x h, memLE_bswap 2 x⟩, fun h => ⟨be32_roundtrip x h, memLE_bswap 4 x⟩,
   fun h => ⟨be64_roundtrip x h, memLE_bswap 8 x⟩⟩

/-- non-vacuity of the calendar hypotheses: a leap day in range -/
example : validDate 2024 2 29 ∧ inRange 2024 2 ∧ jdnMin ≤ 2460370 ∧ tMin ≤ 0 := by decide


/-! ## the zone-file reader (`detail::File`, `readDataBlock`, `readTimeZoneFile`, `loadZoneFile`)

`TzFile.parse` is the reader of muduo over the bytes of a file, with every width, signedness, length, test and skip
taken from the source (`Generated/TzFileSkel.lean`); `TzFile.serialize` is the reference encoder of RFC 8536, written
independently of it.  The table `parse` produces is the `Zone.Data` all theorems above are about (`TzFile.loadZone`). -/

/-- **T1**: every parameter of the reader (readers: bytes, byte swap, return type = sign or zero extension; lengths,
magic, version test; reader / type / order of the counters; block size and skips; reader of a transition time; types on
the way into the table) and the statement skeleton of every function of the reader are, in /repo's source as it is
now, what `Model/TzFile.lean` was written for. -/
theorem tzfile_reader_tied :
    Gen.TzFileSkel.readInt32 = TzFileSkel.Decl.readInt32 ∧ Gen.TzFileSkel.readInt64 = TzFileSkel.Decl.readInt64 ∧
    Gen.TzFileSkel.readUInt8 = TzFileSkel.Decl.readUInt8 ∧
    Gen.TzFileSkel.timeReader = TzFileSkel.Decl.timeReader ∧ Gen.TzFileSkel.timeElemTy = TzFileSkel.Decl.timeElemTy ∧
    Gen.TzFileSkel.headerCounts = TzFileSkel.Decl.headerCounts ∧ Gen.TzFileSkel.blockCounts = TzFileSkel.Decl.blockCounts ∧
    Gen.TzFileSkel.v1BlockSkip = TzFileSkel.Decl.v1BlockSkip ∧ Gen.TzFileSkel.blockSkips = TzFileSkel.Decl.blockSkips ∧
    Gen.TzFileSkel.ttinfoReaders = TzFileSkel.Decl.ttinfoReaders ∧ Gen.TzFileSkel.ttinfo = TzFileSkel.Decl.ttinfo ∧
    Gen.TzFileSkel.fileReadInt32 = TzFileSkel.Decl.fileReadInt32 ∧ Gen.TzFileSkel.fileReadInt64 = TzFileSkel.Decl.fileReadInt64 ∧
    Gen.TzFileSkel.fileReadUInt8 = TzFileSkel.Decl.fileReadUInt8 ∧ Gen.TzFileSkel.fileReadBytes = TzFileSkel.Decl.fileReadBytes ∧
    Gen.TzFileSkel.fileSkip = TzFileSkel.Decl.fileSkip ∧
    Gen.TzFileSkel.readDataBlock = TzFileSkel.Decl.readDataBlock ∧
    Gen.TzFileSkel.readTimeZoneFile = TzFileSkel.Decl.readTimeZoneFile ∧
    Gen.TzFileSkel.addLocalTime = TzFileSkel.Decl.addLocalTime ∧ Gen.TzFileSkel.addTransition = TzFileSkel.Decl.addTransition ∧
    Gen.TzFileSkel.transitionCtor = TzFileSkel.Decl.transitionCtor ∧ Gen.TzFileSkel.localTimeCtor = TzFileSkel.Decl.localTimeCtor ∧
    Gen.TzFileSkel.loadZoneFile = TzFileSkel.Decl.loadZoneFile :=
  ⟨TzFileSkel.tie_readInt32, TzFileSkel.tie_readInt64, TzFileSkel.tie_readUInt8, TzFileSkel.tie_timeReader,
   TzFileSkel.tie_timeElemTy, TzFileSkel.tie_headerCounts, TzFileSkel.tie_blockCounts, TzFileSkel.tie_v1BlockSkip,
   TzFileSkel.tie_blockSkips, TzFileSkel.tie_ttinfoReaders, TzFileSkel.tie_ttinfo, TzFileSkel.skeleton_fileReadInt32,
   TzFileSkel.skeleton_fileReadInt64, TzFileSkel.skeleton_fileReadUInt8, TzFileSkel.skeleton_fileReadBytes,
   TzFileSkel.skeleton_fileSkip, TzFileSkel.skeleton_readDataBlock, TzFileSkel.skeleton_readTimeZoneFile,
   TzFileSkel.skeleton_addLocalTime, TzFileSkel.skeleton_addTransition, TzFileSkel.skeleton_transitionCtor,
   TzFileSkel.skeleton_localTimeCtor, TzFileSkel.skeleton_loadZoneFile⟩

/-- **the reader inverts the encoder**: for every well-formed zone description `z` - any number of transitions and
types, transition times anywhere in the signed 32-bit range (first block) / signed 64-bit range (second block), with
or without the second block, any version byte, any indicator bytes and footer - reading the RFC 8536 encoding of `z`
succeeds and yields exactly the table of the block muduo takes (`z.selected`: the 64-bit block when the version byte
is `'2'`, else the 32-bit one), its designations, and - with the 64-bit block - the footer. -/
theorem tzfile_roundtrip (z : TzFile.ZoneDesc) (h : z.WF) :
    TzFile.parse (TzFile.serialize z) = .ok
      { data := z.selected.table, abbreviation := z.selected.chars, tzstring := z.footerRead,
        consumed := z.needed.length } ∧
    TzFile.loadZone (TzFile.serialize z) = some z.selected.table := by
  have := TzFile.parse_serialize z h
  exact ⟨this, by simp [TzFile.loadZone, this]⟩

/-- **sign extension**: a transition time whose first byte has the top bit set is read as the negative instant
`u - 2^32` from the 32-bit block (`v1 = true`: `readInt32` returns `int32_t`, and that is what is converted to the
`int64_t` element of `trans`) and `u - 2^64` from the 64-bit block, `u` being the bytes as an unsigned big-endian
number. -/
theorem tzfile_sign_extends (v1 : Bool) (pre bs rest : List UInt8) (hl : bs.length = if v1 then 4 else 8)
    (htop : 128 ≤ (bs.headD 0).toNat) :
    TzFile.readTimes v1 1 ⟨pre ++ (bs ++ rest), pre.length⟩
      = .ok ([(Buffer.decodeBE bs : Int) - 2 ^ (8 * if v1 then 4 else 8)], ⟨(pre ++ bs) ++ rest, (pre ++ bs).length⟩) ∧
    (Buffer.decodeBE bs : Int) - 2 ^ (8 * if v1 then 4 else 8) < 0 :=
  TzFile.readTime_sign_extends v1 pre bs rest hl htop

/-- ... and the encoder produces such bytes for every negative time, so by `tzfile_roundtrip` negative transition
times come back negative: the first byte of the two's complement form of a negative value has the top bit set. -/
theorem tzfile_negative_times (n : Nat) (hn : 0 < n) (t : Int) (hlo : -(2 ^ (8 * n - 1) : Int) ≤ t) (hneg : t < 0) :
    128 ≤ ((Buffer.intBytes n t).headD 0).toNat :=
  TzFile.intBytes_top n hn t hlo hneg

/-- **the reader never reads past its input and never depends on what follows**: whatever the bytes, if the reader
accepts them then everything it needed (`consumed`: up to the designations of the block it took) lies inside the
input, and appending any bytes yields the same table (only the footer text grows). -/
theorem tzfile_reads_inside (d : List UInt8) (l : TzFile.Loaded) (h : TzFile.parse d = .ok l) :
    l.consumed ≤ d.length ∧ ∀ e, ∃ tz, TzFile.parse (d ++ e) = .ok { l with tzstring := tz } :=
  TzFile.parse_good d l h

/-- **truncation**: every proper prefix of the encoding of a well-formed description is either refused - exactly
when it cuts into the part the reader needs - or yields the very same table (the cut fell into the indicator bytes,
the footer or, for a file read through its first block, the second block). -/
theorem tzfile_total (z : TzFile.ZoneDesc) (h : z.WF) (n : Nat) (_hn : n < (TzFile.serialize z).length) :
    (n < z.needed.length ∧ ∃ e, TzFile.parse ((TzFile.serialize z).take n) = .error e) ∨
    (z.needed.length ≤ n ∧ ∃ tz, TzFile.parse ((TzFile.serialize z).take n) = .ok
      { data := z.selected.table, abbreviation := z.selected.chars, tzstring := tz, consumed := z.needed.length }) := by
  by_cases hc : n < z.needed.length
  · exact Or.inl ⟨hc, TzFile.parse_truncated_error z h n hc⟩
  · exact Or.inr ⟨by omega, _, TzFile.parse_truncated_ok z h n (by omega)⟩

/-- **what every loaded table satisfies** (any bytes, well-formed or not): each transition carries the shifted epoch
`utctime + utcOffset of its type` - the first clause of `Zone.WF`.  Hence for a loaded table `WF` is the decidable gap
rule alone, and `zone_lookup_spec` / `zone_roundtrip` / `zone_skipped` apply to `loadZone bytes`. -/
theorem tzfile_table_wf (bytes : List UInt8) (d : Data) (h : TzFile.loadZone bytes = some d) :
    (∀ i, i < d.n → (d.tr i).localtime = d.u i + d.o i) ∧
    ((∀ i, i < d.n - 1 → d.chg i + d.chg (i + 1) < d.u (i + 1) - d.u i) → WF d) := by
  unfold TzFile.loadZone at h
  split at h
  · rename_i l hl
    simp only [Option.some.injEq] at h
    subst h
    have := TzFile.zoneFile_shifted _ l hl
    exact ⟨this, fun g => ⟨this, g⟩⟩
  · exact absurd h (by simp)

/-- non-vacuity: a version-2 file with three transitions in the 64-bit block - one before 1901 (negative beyond 32
bits), one negative 32-bit, one after 2038 - and two in the 32-bit block; the description is well-formed, its encoding
has 175 bytes, and the reader (evaluated) returns the three instants with their types. -/
def sampleZone : TzFile.ZoneDesc :=
  { version := 50
    v1 := { times := [-1000000000, 1000000000], idxs := [1, 0], types := [⟨0, false, 0⟩, ⟨3600, true, 4⟩],
            chars := [71, 77, 84, 0, 66, 83, 84, 0], isstd := [], isut := [] }
    v2 := some ({ times := [-3000000000, -1000000000, 5000000000], idxs := [1, 0, 1],
                  types := [⟨0, false, 0⟩, ⟨3600, true, 4⟩], chars := [71, 77, 84, 0, 66, 83, 84, 0],
                  isstd := [0, 1], isut := [0, 0] }, [10, 71, 77, 84, 48, 10]) }

theorem sampleZone_wf : sampleZone.WF := by
  refine ⟨⟨?_, rfl, ?_, ?_, by decide, by decide, by decide, by decide, by decide, by decide⟩,
    fun b ft hb => ?_, fun _ => rfl⟩
  · decide
  · decide
  · decide
  · simp only [sampleZone, Option.some.injEq, Prod.mk.injEq] at hb
    obtain ⟨rfl, rfl⟩ := hb
    exact ⟨by decide, rfl, by decide, by decide, by decide, by decide, by decide, by decide, by decide, by decide⟩

theorem sampleZone_parsed :
    (TzFile.serialize sampleZone).length = 175 ∧
    ((TzFile.parse (TzFile.serialize sampleZone)).toOption.map fun l =>
        (l.data.transitions.toList.map fun t => (t.utctime, t.localtime, t.localtimeIdx), l.tzstring))
      = some ([(-3000000000, -2999996400, 1), (-1000000000, -1000000000, 0), (5000000000, 5000003600, 1)],
              [10, 71, 77, 84, 48, 10]) ∧
    (TzFile.parse ((TzFile.serialize sampleZone).take 150)).toOption.isNone := by
  decide +kernel

/-! ## text forms of `Timestamp` (`toString`, `toFormattedString`) -/

/-- **T1**: the split of the microsecond count (`/` and `%` by `kMicroSecondsPerSecond`), the three `snprintf` formats
(character by character), the sizes of their buffers, their arguments in order, the `gmtime_r` call and the test that
selects the format with microseconds are, in /repo's `Timestamp.cc` as it is now, what `Model/Calendar.lean` renders
and what the next theorem was proved for. -/
theorem timestamp_text_tied :
    Gen.TsText.toStringSeconds = TsText.Decl.toStringSeconds ∧ Gen.TsText.toStringMicros = TsText.Decl.toStringMicros ∧
    Gen.TsText.toStringFormat = TsText.Decl.toStringFormat ∧ Gen.TsText.toStringBuf = TsText.Decl.toStringBuf ∧
    Gen.TsText.toStringArgs = TsText.Decl.toStringArgs ∧
    Gen.TsText.formattedSeconds = TsText.Decl.formattedSeconds ∧ Gen.TsText.formattedMicros = TsText.Decl.formattedMicros ∧
    Gen.TsText.formattedShowsMicros = TsText.Decl.formattedShowsMicros ∧
    Gen.TsText.formattedFormatMicro = TsText.Decl.formattedFormatMicro ∧ Gen.TsText.formattedBufMicro = TsText.Decl.formattedBufMicro ∧
    Gen.TsText.formattedArgsMicro = TsText.Decl.formattedArgsMicro ∧
    Gen.TsText.formattedFormat = TsText.Decl.formattedFormat ∧ Gen.TsText.formattedBuf = TsText.Decl.formattedBuf ∧
    Gen.TsText.formattedArgs = TsText.Decl.formattedArgs ∧ Gen.TsText.formattedGmtime = TsText.Decl.formattedGmtime :=
  TsText.text_forms_tied

/-- **the text forms read back to the instant they were printed from**: for every non-negative microsecond count that
fits `int64_t`, `toString` (`"<seconds>.<6 digits>"`) reads back to the microsecond; when the year has at most four
digits, `toFormattedString(true)` (`"YYYYMMDD HH:MM:SS.uuuuuu"`) reads back to the microsecond and
`toFormattedString(false)` to the second - the date through the translated `fromUtcTime`, i.e. the printed fields are
the proleptic Gregorian date and time of day of that instant (`break_spec`).  (That `gmtime_r` / `strftime` print the
same is the tested half of the property.) -/
theorem timestamp_text_roundtrip (us : Int) (h0 : 0 ≤ us) (h1 : us < 2 ^ 63) :
    parseToString (tsToStringChars us) = some us ∧
    (0 ≤ (BreakTime (us / 1000000)).year → (BreakTime (us / 1000000)).year ≤ 9999 →
      parseFormatted (tsFormattedChars us true) = some us ∧
      parseFormatted (tsFormattedChars us false) = some (us / 1000000 * 1000000)) :=
  ⟨toString_roundtrip us h0 h1, fun hy0 hy => formatted_roundtrip us h0 hy hy0⟩

/-- non-vacuity: 2023-11-14 22:13:20.123456 UTC -/
theorem timestamp_text_sample :
    (BreakTime (1700000000123456 / 1000000)).year = 2023 ∧
    tsToStringChars 1700000000123456 = "1700000000.123456".toList ∧
    tsFormattedChars 1700000000123456 true = "20231114 22:13:20.123456".toList ∧
    parseFormatted "20231114 22:13:20.123456".toList = some 1700000000123456 := by
  decide +kernel

/-! ## T1, the address functions -/

/-- T1, the text conversions of `InetAddress` are the library calls `Model/Inet.lean` models, with the port converted by
the byte-order helpers.  In /repo's current sources (`Generated/SysSkel.lean`, re-extracted on every run;
`Proofs/SysSkelTie.lean`): `InetAddress::toIpPort` / `toIp` are `sockets::toIpPort` / `sockets::toIp` on the own address;
`sockets::toIp` dispatches on the family and is glibc's `inet_ntop(AF_INET | AF_INET6, ..)` (`Inet.toIp`);
`sockets::toIpPort` appends `":%u"` of `networkToHost16(port)` behind that text (`Inet.toIpPort`) and, for `AF_INET6`,
wraps it as `'[' .. "]:%u"` (`Inet.v6IpPort`); `sockets::fromIpPort` sets the family, stores `hostToNetwork16(port)` and is
glibc's `inet_pton` (`Inet.parseIp`), a text that does not parse is only logged; `InetAddress(ip, port)` zeroes the
structure and takes the IPv6 branch iff asked for or the text contains `':'`; `InetAddress(port, loopbackOnly, ipv6)`
stores family, address and port in network order; `port()` is `networkToHost16` of the stored port; the six `Endian.h`
helpers are glibc's `__bswap_16/32/64` (`Inet.bswap`: `be_roundtrip`).  What `inet_ntop` / `inet_pton` / `snprintf`
compute stays an assumption (`Model/Inet.lean`), compared with glibc's and Python's answers in the differential run. -/
theorem inet_text_conversions_tied :
    Gen.SysSkel.inetToIpPort = SysSkel.Decl.inetToIpPort ∧
    Gen.SysSkel.inetToIp = SysSkel.Decl.inetToIp ∧
    Gen.SysSkel.socketsToIpPort = SysSkel.Decl.socketsToIpPort ∧
    Gen.SysSkel.socketsToIp = SysSkel.Decl.socketsToIp ∧
    Gen.SysSkel.fromIpPort4 =
      [.act (.store "addr.sin_family" "2"), .act (.store "addr.sin_port" "sockets::hostToNetwork16(port)"),
       .act (.sys "inet_pton" "2, ip, &addr.sin_addr"), .ite "<result> <= 0" [.act (.log .syserr)] []] ∧
    Gen.SysSkel.fromIpPort6 =
      [.act (.store "addr.sin6_family" "10"), .act (.store "addr.sin6_port" "sockets::hostToNetwork16(port)"),
       .act (.sys "inet_pton" "10, ip, &addr.sin6_addr"), .ite "<result> <= 0" [.act (.log .syserr)] []] ∧
    Gen.SysSkel.inetCtorIpPort = SysSkel.Decl.inetCtorIpPort ∧
    Gen.SysSkel.inetCtorPort = SysSkel.Decl.inetCtorPort ∧
    Gen.SysSkel.inetCtorIn = [.act (.store "addr_" "addr")] ∧
    Gen.SysSkel.inetCtorIn6 = [.act (.store "addr6_" "addr")] ∧
    Gen.SysSkel.inetSetSockAddrInet6 = [.act (.store "addr6_" "addr6")] ∧
    Gen.SysSkel.inetFamily = [.act (.ret "addr_.sin_family")] ∧
    Gen.SysSkel.inetGetSockAddr = [.act (.ret "sockets::sockaddr_cast(&addr6_)")] ∧
    Gen.SysSkel.inetPortNetEndian = [.act (.ret "addr_.sin_port")] ∧
    Gen.SysSkel.inetPort = [.act (.ret "sockets::networkToHost16(portNetEndian())")] ∧
    Gen.SysSkel.inetIpv4NetEndian = [.act (.assertion "family() == 2"), .act (.ret "addr_.sin_addr.s_addr")] ∧
    Gen.SysSkel.hostToNetwork16 = [.act (.ret "__bswap_16(host16)")] ∧
    Gen.SysSkel.hostToNetwork32 = [.act (.ret "__bswap_32(host32)")] ∧
    Gen.SysSkel.hostToNetwork64 = [.act (.ret "__bswap_64(host64)")] ∧
    Gen.SysSkel.networkToHost16 = [.act (.ret "__bswap_16(net16)")] ∧
    Gen.SysSkel.networkToHost32 = [.act (.ret "__bswap_32(net32)")] ∧
    Gen.SysSkel.networkToHost64 = [.act (.ret "__bswap_64(net64)")] :=
  ⟨SysSkel.skeleton_inetToIpPort, SysSkel.skeleton_inetToIp, SysSkel.skeleton_socketsToIpPort, SysSkel.skeleton_socketsToIp,
   SysSkel.skeleton_fromIpPort4, SysSkel.skeleton_fromIpPort6, SysSkel.skeleton_inetCtorIpPort, SysSkel.skeleton_inetCtorPort,
   SysSkel.skeleton_inetCtorIn, SysSkel.skeleton_inetCtorIn6, SysSkel.skeleton_inetSetSockAddrInet6,
   SysSkel.skeleton_inetFamily, SysSkel.skeleton_inetGetSockAddr, SysSkel.skeleton_inetPortNetEndian,
   SysSkel.skeleton_inetPort, SysSkel.skeleton_inetIpv4NetEndian, SysSkel.skeleton_hostToNetwork16,
   SysSkel.skeleton_hostToNetwork32, SysSkel.skeleton_hostToNetwork64, SysSkel.skeleton_networkToHost16,
   SysSkel.skeleton_networkToHost32, SysSkel.skeleton_networkToHost64⟩

end MuduoVerif.C20
