import MuduoVerif.Proofs.Buffer
import MuduoVerif.Proofs.BufferSkelTie
/-!
# C10 — Buffer behaves as an unbounded FIFO byte queue with a prepend area

Property theorems only; lemmas live in `Proofs/Buffer.lean`.  The model
(`Model/Buffer.lean`) is the code of `muduo/net/Buffer.{h,cc}` over the whole vector
and the two indices, with every branch guard and constant taken from
`Generated/Buffer.lean` (re-extracted from /repo on every run).
-/
namespace MuduoVerif.C10
open MuduoVerif.Buffer MuduoVerif.Gen.Buffer

/-- one step: inside its precondition every operation keeps the index invariant and
acts on the readable window exactly as the FIFO specification says -/
theorem step_refines (b : Buf) (op : Op) (h : WF b) (hok : okOp b op) :
    WF (step b op) ∧ content (step b op) = specStep (content b) op := by
  cases op with
  | append x => exact append_spec h
  | prepend x => exact prepend_spec h hok
  | retrieve n => exact ⟨retrieve_wf h hok, retrieve_content h hok⟩
  | retrieveAll => exact ⟨retrieveAll_wf h, retrieveAll_content b⟩
  | ensure n => exact ⟨(ensureWritable_spec h).1, (ensureWritable_spec h).2.1⟩
  | write x => exact writeAtEnd_spec h hok
  | unwrite n =>
    obtain ⟨h1, h2⟩ := unwrite_spec h hok
    refine ⟨h1, ?_⟩
    simp only [step, specStep, h2, content_length h]
  | shrink r => exact ⟨(shrink_spec h).1, (shrink_spec h).2.1⟩
  | swapFresh i x =>
    obtain ⟨h1, h2⟩ := append_spec (b := mk i) (x := x) (mk_wf i)
    exact ⟨h1, by simp only [step, specStep, h2, mk_content, List.nil_append]⟩
  | readFd d => exact readFd_spec h hok
  | appendInt n v => exact append_spec h
  | prependInt n v =>
    exact prepend_spec h (by simpa [okOp, prependPre, intBytes_length] using hok)
  | readInt n => exact ⟨retrieve_wf h hok, retrieve_content h hok⟩

/-- **refinement**: for every operation sequence that respects the documented
preconditions, from every well-formed buffer, the readable content is what the FIFO
byte-string specification says, and the index invariant holds at the end (hence at
every intermediate point). No bound on the length of the sequence or on any size. -/
theorem run_refines (ops : List Op) (b : Buf) (h : WF b) (hok : okRun b ops) :
    WF (run b ops) ∧ content (run b ops) = specRun (content b) ops := by
  induction ops generalizing b with
  | nil => exact ⟨h, rfl⟩
  | cons op rest ih =>
    obtain ⟨h1, h2⟩ := step_refines b op h hok.1
    have := ih (step b op) h1 hok.2
    simp only [run, specRun, List.foldl_cons] at *
    rw [← h2]; exact this

/-- from a freshly constructed buffer of any initial size -/
theorem fresh_run_refines (initial : Nat) (ops : List Op) (hok : okRun (mk initial) ops) :
    WF (run (mk initial) ops) ∧ content (run (mk initial) ops) = specRun [] ops := by
  have := run_refines ops (mk initial) (mk_wf initial) hok
  rwa [mk_content] at this

/-- the three sizes the API reports always add up to the size of the storage, and the
readable size is the length of the content -/
theorem sizes_consistent (b : Buf) (h : WF b) :
    readable b + writable b + prependable b = b.data.length ∧ (content b).length = readable b := by
  have := h.rw; have := h.ws
  refine ⟨?_, content_length h⟩
  simp only [readable, writable, prependable]; omega

/-- `ensureWritableBytes(n)` really provides `n` writable bytes (so the copy that
follows in `append` stays inside the storage) and does not disturb the content -/
theorem ensure_spec (b : Buf) (n : Nat) (h : WF b) :
    n ≤ writable (ensureWritable b n) ∧ content (ensureWritable b n) = content b :=
  ⟨(ensureWritable_spec h).2.2, (ensureWritable_spec h).2.1⟩

/-- `shrink(reserve)` keeps the content and leaves at least `reserve` writable bytes -/
theorem shrink_keeps (b : Buf) (r : Nat) (h : WF b) :
    content (shrink b r) = content b ∧ r ≤ writable (shrink b r) :=
  ⟨(shrink_spec h).2.1, (shrink_spec h).2.2⟩

/-- `readFd` appends exactly the delivered bytes; at most `writable + 64 KiB` can be
delivered per call (`readFdPre`), and the code's `assert` in the slide branch of
`makeSpace` cannot fire. -/
theorem readFd_appends (b : Buf) (d : Bytes) (h : WF b) (hp : readFdPre b d) :
    content (readFd b d) = content b ++ d := (readFd_spec h hp).2

theorem makeSpace_assert_holds (b : Buf) (len : Nat) (h : WF b)
    (hn : ensureNeedsSpace (writable b) len)
    (hg : ¬ makeSpaceGrows (writable b) (prependable b) len) : kCheapPrepend < b.reader :=
  makeSpace_slide_assert h hn hg

/-- **cheap prepend**: at least `kCheapPrepend` prependable bytes are available
whenever the caller has not used them. -/
theorem cheap_prepend_step (b : Buf) (g : Nat) (op : Op) (hok : okOp b op)
    (hg : kCheapPrepend ≤ prependable b + g) :
    kCheapPrepend ≤ prependable (step b op) + borrowedStep g b op := by
  by_cases hp : (∃ x, op = .prepend x) ∨ (∃ n v, op = .prependInt n v)
  · rcases hp with ⟨x, rfl⟩ | ⟨n, v, rfl⟩
    · simp only [okOp, prependPre, prependable] at hok
      simp only [step, prepend, borrowedStep, prependable] at *; omega
    · simp only [okOp, prependable] at hok
      simp only [step, prependInt, prepend, borrowedStep, prependable, intBytes_length] at *; omega
  · have hnp : ∀ x, op ≠ .prepend x := fun x hx => hp (Or.inl ⟨x, hx⟩)
    have hnpi : ∀ n v, op ≠ .prependInt n v := fun n v hx => hp (Or.inr ⟨n, v, hx⟩)
    have hr := step_reader b op hnp hnpi
    have hb : borrowedStep g b op = if (step b op).reader = kCheapPrepend then 0 else g := by
      cases op <;> first | rfl | exact absurd rfl (hnp _) | exact absurd rfl (hnpi _ _)
    rw [hb]
    simp only [prependable] at *
    split <;> omega

/-- for every operation sequence from a fresh buffer: prependable + borrowed ≥ kCheapPrepend -/
theorem cheap_prepend (ops : List Op) (b : Buf) (g : Nat) (hok : okRun b ops)
    (hg : kCheapPrepend ≤ prependable b + g) :
    kCheapPrepend ≤ prependable (runG (b, g) ops).1 + (runG (b, g) ops).2 := by
  induction ops generalizing b g with
  | nil => exact hg
  | cons op rest ih =>
    simp only [runG]
    exact ih (step b op) (borrowedStep g b op) hok.2 (cheap_prepend_step b g op hok.1 hg)

/-- `runG` tracks the same buffer as `run` -/
theorem runG_fst (ops : List Op) (b : Buf) (g : Nat) : (runG (b, g) ops).1 = run b ops := by
  induction ops generalizing b g with
  | nil => rfl
  | cons op rest ih => simp only [runG, run, List.foldl_cons]; exact ih _ _

/-- **integers round-trip in network byte order** (N = 1, 2, 4, 8 bytes; every value of the type) -/
theorem append_read_int (b : Buf) (n : Nat) (hn : 0 < n) (v : Int) (h : WF b)
    (hempty : content b = [])
    (hlo : -(2 ^ (8 * n - 1) : Int) ≤ v) (hhi : v < (2 ^ (8 * n - 1) : Int)) :
    peekInt (appendInt b n v) n = v ∧ content (readInt (appendInt b n v) n).1 = [] := by
  obtain ⟨hw, hc⟩ := append_spec (b := b) (x := intBytes n v) h
  have hlen := intBytes_length n v
  constructor
  · simp only [peekInt, appendInt, hc, hempty, List.nil_append]
    rw [List.take_of_length_le (by omega)]
    exact int_roundtrip_bytes n hn v hlo hhi
  · simp only [readInt, appendInt]
    rw [retrieve_content hw (by simp [retrievePre, ← content_length hw, hc, hempty, hlen]), hc, hempty]
    simp [hlen]

theorem prepend_peek_int (b : Buf) (n : Nat) (hn : 0 < n) (v : Int) (h : WF b)
    (hp : n ≤ prependable b)
    (hlo : -(2 ^ (8 * n - 1) : Int) ≤ v) (hhi : v < (2 ^ (8 * n - 1) : Int)) :
    peekInt (prependInt b n v) n = v ∧ content (prependInt b n v) = intBytes n v ++ content b := by
  obtain ⟨hw, hc⟩ := prepend_spec (b := b) (x := intBytes n v) h
    (by simpa [prependPre, intBytes_length] using hp)
  have hlen := intBytes_length n v
  refine ⟨?_, hc⟩
  simp only [peekInt, prependInt, hc]
  rw [List.take_append_of_le_length (by omega), List.take_of_length_le (by omega)]
  exact int_roundtrip_bytes n hn v hlo hhi

/-- **searches**: `findCRLF(start)` returns the first CRLF at or after `start` inside the
readable window, and nothing iff there is none -/
theorem findCRLF_first (b : Buf) (start k : Nat) (h : findCRLF b start = some k) :
    start ≤ k ∧ List.isPrefixOf [13, 10] ((content b).drop k) = true
      ∧ ∀ j, start ≤ j → j < k → List.isPrefixOf [13, 10] ((content b).drop j) = false := by
  unfold findCRLF at h
  cases hf : findSub [13, 10] ((content b).drop start) 0 with
  | none => rw [hf] at h; cases h
  | some k0 =>
    rw [hf] at h
    simp only [Option.map_some, Option.some.injEq] at h
    obtain ⟨_, h2, h3⟩ := findSub_some _ _ _ _ hf
    subst h
    simp only [Nat.sub_zero, List.drop_drop] at h2 h3
    refine ⟨by omega, by rwa [Nat.add_comm] at h2, ?_⟩
    intro j hj hjk
    have := h3 (j - start) (by omega)
    rwa [show start + (j - start) = j by omega] at this

theorem findCRLF_none (b : Buf) (start : Nat) (h : findCRLF b start = none) :
    ∀ j, start ≤ j → List.isPrefixOf [13, 10] ((content b).drop j) = false := by
  unfold findCRLF at h
  cases hf : findSub [13, 10] ((content b).drop start) 0 with
  | some k0 => rw [hf] at h; cases h
  | none =>
    intro j hj
    have := findSub_none _ (by decide) _ _ hf (j - start)
    rwa [List.drop_drop, show start + (j - start) = j by omega] at this

/-- `findEOL(start)`: the first `\n` at or after `start` in the readable window -/
theorem findEOL_first (b : Buf) (start k : Nat) (h : findEOL b start = some k) :
    start ≤ k ∧ (content b)[k]? = some 10
      ∧ ∀ j, start ≤ j → j < k → (content b)[j]? ≠ some 10 := by
  unfold findEOL findByte at h
  simp only at h
  split at h
  · rename_i hlt
    simp only [Option.map_some, Option.some.injEq] at h
    subst h
    refine ⟨by omega, ?_, ?_⟩
    · have := List.findIdx_getElem (w := hlt)
      simp only [beq_iff_eq] at this
      rw [List.getElem_drop] at this
      rw [Nat.add_comm, List.getElem?_eq_getElem (by simp at hlt; omega), this]
    · intro j hj hjk heq
      have hlt' : j - start < List.findIdx (· == (10 : UInt8)) ((content b).drop start) := by omega
      have := List.not_of_lt_findIdx hlt'
      simp only [List.getElem_drop, beq_iff_eq, show start + (j - start) = j by omega] at this
      have hjl : j < (content b).length := by simp at hlt; omega
      rw [List.getElem?_eq_getElem hjl] at heq
      rw [Option.some.inj heq] at this
      exact absurd this (by decide)
  · cases h

theorem findEOL_none (b : Buf) (start : Nat) (h : findEOL b start = none) :
    ∀ j, start ≤ j → (content b)[j]? ≠ some 10 := by
  unfold findEOL findByte at h
  simp only at h
  split at h
  · cases h
  · rename_i hge
    intro j hj heq
    have hjl : j < (content b).length := by
      rcases Nat.lt_or_ge j (content b).length with hh | hh
      · exact hh
      · rw [List.getElem?_eq_none hh] at heq; cases heq
    have hall : ∀ x ∈ (content b).drop start, (x == (10 : UInt8)) = false := by
      have : List.findIdx (· == (10 : UInt8)) ((content b).drop start) = ((content b).drop start).length := by
        have := List.findIdx_le_length (p := (· == (10 : UInt8))) (xs := (content b).drop start)
        omega
      exact List.findIdx_eq_length.mp this
    rw [List.getElem?_eq_getElem hjl] at heq
    have hmem : (content b)[j] ∈ (content b).drop start := by
      rw [List.mem_iff_getElem]
      refine ⟨j - start, by simp; omega, ?_⟩
      simp [List.getElem_drop, show start + (j - start) = j by omega]
    have := hall _ hmem
    rw [Option.some.inj heq] at this
    exact absurd this (by decide)

/-- ties of the hand-written parts to the source that no differential run on one thread can see:
`readFd`'s spill area belongs to the call (a `static` one would be shared by all io threads: another
thread's `readv` overwrites it between this thread's `readv` and its `append`), and the line searches
delegate to the library search over exactly `[from, beginWrite())` — which is what the model's
`findCRLF`/`findEOL` are (a hand-rolled loop that peeks one byte past the readable region would find a
stale `\n` there).  Both facts are re-extracted from the AST on every run. -/
theorem spill_private_and_searches_delegate :
    MuduoVerif.Gen.Buffer.extrabufPerCall = true ∧ MuduoVerif.Gen.Buffer.findCRLFIsSearch = true ∧
    MuduoVerif.Gen.Buffer.findEOLIsMemchr = true := by decide


/-- T1, statement order: in every member function of `Buffer` the model implements (constructor, getters, searches,
`retrieve*`, `append*`, `ensureWritableBytes`, `hasWritten`, `unwrite`, `prepend*`, `shrink`, `swap`, `makeSpace`,
`readFd`, `appendIntN`/`readIntN`/`peekIntN`/`prependIntN`) the source performs the same index stores (of the same
expressions), resizes, copies, member calls, system calls, assertions and returns, in the same order and under the
same nesting of the generated guards as `Model/Buffer.lean` (`Model/BufferSkelDecl.lean`); re-extracted from /repo on
every run (`Generated/BufferSkel.lean`), proved in `Proofs/BufferSkelTie.lean` -/
theorem statement_order_tied :
    (Gen.BufferSkel.ctor = BufferSkel.Decl.ctor ∧
     Gen.BufferSkel.swap = BufferSkel.Decl.swap ∧
     Gen.BufferSkel.readableBytes = BufferSkel.Decl.readableBytes ∧
     Gen.BufferSkel.writableBytes = BufferSkel.Decl.writableBytes ∧
     Gen.BufferSkel.prependableBytes = BufferSkel.Decl.prependableBytes ∧
     Gen.BufferSkel.peek = BufferSkel.Decl.peek ∧
     Gen.BufferSkel.toStringPiece = BufferSkel.Decl.toStringPiece ∧
     Gen.BufferSkel.beginWrite = BufferSkel.Decl.beginWrite ∧
     Gen.BufferSkel.beginWriteConst = BufferSkel.Decl.beginWriteConst) ∧
    (Gen.BufferSkel.findCRLF = BufferSkel.Decl.findCRLF ∧
     Gen.BufferSkel.findCRLFFrom = BufferSkel.Decl.findCRLFFrom ∧
     Gen.BufferSkel.findEOL = BufferSkel.Decl.findEOL ∧
     Gen.BufferSkel.findEOLFrom = BufferSkel.Decl.findEOLFrom) ∧
    (Gen.BufferSkel.retrieve = BufferSkel.Decl.retrieve ∧
     Gen.BufferSkel.retrieveUntil = BufferSkel.Decl.retrieveUntil ∧
     Gen.BufferSkel.retrieveInt64 = BufferSkel.Decl.retrieveInt64 ∧
     Gen.BufferSkel.retrieveInt32 = BufferSkel.Decl.retrieveInt32 ∧
     Gen.BufferSkel.retrieveInt16 = BufferSkel.Decl.retrieveInt16 ∧
     Gen.BufferSkel.retrieveInt8 = BufferSkel.Decl.retrieveInt8 ∧
     Gen.BufferSkel.retrieveAll = BufferSkel.Decl.retrieveAll ∧
     Gen.BufferSkel.retrieveAllAsString = BufferSkel.Decl.retrieveAllAsString ∧
     Gen.BufferSkel.retrieveAsString = BufferSkel.Decl.retrieveAsString) ∧
    (Gen.BufferSkel.appendPiece = BufferSkel.Decl.appendPiece ∧
     Gen.BufferSkel.append = BufferSkel.Decl.append ∧
     Gen.BufferSkel.appendVoid = BufferSkel.Decl.appendVoid ∧
     Gen.BufferSkel.ensureWritableBytes = BufferSkel.Decl.ensureWritableBytes ∧
     Gen.BufferSkel.hasWritten = BufferSkel.Decl.hasWritten ∧
     Gen.BufferSkel.unwrite = BufferSkel.Decl.unwrite ∧
     Gen.BufferSkel.prepend = BufferSkel.Decl.prepend ∧
     Gen.BufferSkel.shrink = BufferSkel.Decl.shrink ∧
     Gen.BufferSkel.makeSpace = BufferSkel.Decl.makeSpace ∧
     Gen.BufferSkel.readFd = BufferSkel.Decl.readFd) ∧
    (Gen.BufferSkel.appendInt64 = BufferSkel.Decl.appendInt64 ∧
     Gen.BufferSkel.appendInt32 = BufferSkel.Decl.appendInt32 ∧
     Gen.BufferSkel.appendInt16 = BufferSkel.Decl.appendInt16 ∧
     Gen.BufferSkel.appendInt8 = BufferSkel.Decl.appendInt8 ∧
     Gen.BufferSkel.readInt64 = BufferSkel.Decl.readInt64 ∧
     Gen.BufferSkel.readInt32 = BufferSkel.Decl.readInt32 ∧
     Gen.BufferSkel.readInt16 = BufferSkel.Decl.readInt16 ∧
     Gen.BufferSkel.readInt8 = BufferSkel.Decl.readInt8 ∧
     Gen.BufferSkel.peekInt64 = BufferSkel.Decl.peekInt64 ∧
     Gen.BufferSkel.peekInt32 = BufferSkel.Decl.peekInt32 ∧
     Gen.BufferSkel.peekInt16 = BufferSkel.Decl.peekInt16 ∧
     Gen.BufferSkel.peekInt8 = BufferSkel.Decl.peekInt8 ∧
     Gen.BufferSkel.prependInt64 = BufferSkel.Decl.prependInt64 ∧
     Gen.BufferSkel.prependInt32 = BufferSkel.Decl.prependInt32 ∧
     Gen.BufferSkel.prependInt16 = BufferSkel.Decl.prependInt16 ∧
     Gen.BufferSkel.prependInt8 = BufferSkel.Decl.prependInt8) :=
  BufferSkel.skeletons_agree

end MuduoVerif.C10
